// unit: market actor — the cron tick and the activation notification (C05, C08, C07; caller clauses C11)
//   PART A  Actor::cron_tick, whole: transaction closure (epoch loop AND per-deal loop, nothing dropped) + method.
//           The per-deal loop is also kept as a function of its own (`cron_deals`, R21 region without slicing; directive and
//           contract copied from units/C07/market_settle.vx.rs and strengthened: a kept deal is re-queued at its
//           next_update_epoch, which is strictly in the future). `next_update_epoch` is the real function, under contract.
//   PART B  Actor::sector_content_changed (closure + method): the activation path of ProveCommitSectors3 / ProveReplicaUpdates3.
// State helpers: directives and contracts copied from units/C07/market_settle.vx.rs (same text), real bodies extracted here again.
//@ include prelude/core.rs
//@ include prelude/ipld.rs
//@ include prelude/rt.rs
//@ include prelude/singletons.rs
//@ include prelude/policy.rs
use std::cmp::{max, min};
use std::collections::BTreeMap;
// `assert_eq!(a, b, msg)` (a panic unless equal) becomes a call with the precondition a == b: the unit proves it never panics
macro_rules! assert_eq { ($a:expr, $b:expr, $($t:tt)*) => { vx_assert_eq($a, $b) } }
verus! {
//@ include units/shared/balance_table.inc
//@ include units/shared/set.inc

#[derive(Clone, Copy, PartialEq, Eq, Structural)]
pub struct PaddedPieceSize(pub u64);
pub type AllocationID = u64;
//@ item actors/market/src/deal.rs Label
//@ item actors/market/src/deal.rs DealProposal
//@ item actors/market/src/deal.rs DealState attr="#[derive(Clone, Copy)]"
//@ item actors/market/src/state.rs Reason
//@ item actors/market/src/state.rs State
//@ item actors/market/src/state.rs PendingProposalsSet
//@ item actors/market/src/state.rs LoadDealState
//@ const actors/market/src/state.rs PENDING_PROPOSALS_CONFIG
//@ const runtime/src/builtin/shared.rs FIRST_ACTOR_SPECIFIC_EXIT_CODE
//@ const actors/market/src/lib.rs EX_DEAL_EXPIRED
pub type DealArray<'bs, BS> = Array<DealProposal, &'bs BS>;
pub type DealMetaArray<'bs, BS> = Array<DealState, &'bs BS>;
pub type PendingDealAllocationsMap<BS> = Map2<BS, DealID, AllocationID>;
pub const PENDING_ALLOCATIONS_CONFIG: Config = DEFAULT_HAMT_CONFIG;
pub mod ext {
    pub mod miner {
        use super::super::*;
//@ item actors/market/src/ext.rs SectorContentChangedParams
//@ item actors/market/src/ext.rs SectorChanges
//@ item actors/market/src/ext.rs PieceChange
//@ item actors/market/src/ext.rs SectorContentChangedReturn
//@ item actors/market/src/ext.rs SectorReturn
//@ item actors/market/src/ext.rs PieceReturn attr="#[derive(Clone, Copy)]"
    }
}

// ======================= spec (same definitions as units/shared/market_state.inc) =======================
pub open spec fn esc(s: State) -> Map<Address, TokenAmount> { map2_decode::<Address, TokenAmount>(s.escrow_table) }
pub open spec fn lck(s: State) -> Map<Address, TokenAmount> { map2_decode::<Address, TokenAmount>(s.locked_table) }
pub open spec fn pend(s: State) -> vstd::set::Set<Cid> { map2_decode::<Cid, ()>(s.pending_proposals).dom() }
pub open spec fn props_m(s: State) -> Map<u64, DealProposal> { array_decode::<DealProposal>(s.proposals) }
pub open spec fn dstates_m(s: State) -> Map<u64, DealState> { array_decode::<DealState>(s.states) }
/// both balance tables are well formed (no negative entry)
pub open spec fn wf2(s: State) -> bool { bt_wf(esc(s)) && bt_wf(lck(s)) }
/// per-participant escrow invariant of C06: 0 <= locked[a] <= escrow[a]
pub open spec fn jinv(s: State) -> bool { jinv_t(s.escrow_table, s.locked_table) }
/// (the same, as a predicate of the two table roots: callers that only pass the invariant along hide this definition)
pub open spec fn jinv_t(e: Cid, l: Cid) -> bool {
    let em = map2_decode::<Address, TokenAmount>(e);
    let lm = map2_decode::<Address, TokenAmount>(l);
    &&& bt_wf(em)
    &&& bt_wf(lm)
    &&& forall|a: Address| #[trigger] bal(lm, a) <= bal(em, a)
}
pub open spec fn d2(k: Address, a1: Address, x1: int, a2: Address, x2: int) -> int {
    (if k == a1 { x1 } else { 0 }) + (if k == a2 { x2 } else { 0 })
}
pub open spec fn moved(m1: Map<Address, TokenAmount>, m2: Map<Address, TokenAmount>, a1: Address, x1: int, a2: Address, x2: int) -> bool {
    forall|k: Address| #[trigger] bal(m2, k) == bal(m1, k) + d2(k, a1, x1, a2, x2)
}
pub open spec fn rest_eq(a: State, b: State) -> bool {
    &&& a.proposals == b.proposals
    &&& a.states == b.states
    &&& a.next_id == b.next_id
    &&& a.deal_ops_by_epoch == b.deal_ops_by_epoch
    &&& a.last_cron == b.last_cron
    &&& a.pending_deal_allocation_ids == b.pending_deal_allocation_ids
    &&& a.provider_sectors == b.provider_sectors
}
pub open spec fn totals_eq(a: State, b: State) -> bool {
    &&& a.total_client_locked_collateral@ == b.total_client_locked_collateral@
    &&& a.total_provider_locked_collateral@ == b.total_provider_locked_collateral@
    &&& a.total_client_storage_fee@ == b.total_client_storage_fee@
}
pub open spec fn deal_wf(d: DealProposal) -> bool {
    &&& 0 <= d.start_epoch <= d.end_epoch
    &&& d.storage_price_per_epoch@ >= 0
    &&& d.provider_collateral@ >= 0
    &&& d.client_collateral@ >= 0
}
pub open spec fn fee(d: DealProposal) -> int { d.storage_price_per_epoch@ * (d.end_epoch - d.start_epoch) }
pub open spec fn imax(a: int, b: int) -> int { if a >= b { a } else { b } }
pub open spec fn imin(a: int, b: int) -> int { if a <= b { a } else { b } }
pub open spec fn clamp(d: DealProposal, e: int) -> int { imax(d.start_epoch as int, imin(d.end_epoch as int, e)) }
/// total owed to the provider for storage up to (not including) epoch e
pub open spec fn paid_upto(d: DealProposal, e: int) -> int { d.storage_price_per_epoch@ * (clamp(d, e) - d.start_epoch) }
/// effective "paid so far" marker of a deal state
pub open spec fn lu_eff(d: DealProposal, s: DealState) -> int { if s.last_updated_epoch == EPOCH_UNDEFINED { d.start_epoch as int } else { s.last_updated_epoch as int } }
pub open spec fn state_wf(s: DealState) -> bool {
    s.last_updated_epoch >= -1 && s.slash_epoch >= -1 && s.sector_start_epoch >= -1
}
pub proof fn lemma_pay_window(d: DealProposal, a: int, b: int)
    requires d.storage_price_per_epoch@ >= 0
    ensures
        paid_upto(d, a) - paid_upto(d, b) == d.storage_price_per_epoch@ * (clamp(d, a) - clamp(d, b)),
        a >= b ==> paid_upto(d, a) - paid_upto(d, b) >= 0,
{
    let p = d.storage_price_per_epoch@;
    let (x, y, s0) = (clamp(d, a), clamp(d, b), d.start_epoch as int);
    assert(p * (x - s0) - p * (y - s0) == p * (x - y)) by (nonlinear_arith);
    if a >= b {
        assert(x >= y);
        assert(p * (x - y) >= 0) by (nonlinear_arith) requires p >= 0, x >= y;
    }
}

// ======================= State helpers on the settlement path =======================
// Contracts copied from units/shared/market_state.inc and STRENGTHENED for callers that swallow errors (SettleDealPayments
// turns a helper's Err into a per-deal failure code and goes on): the precondition is reduced to well-formed tables (`wf2`,
// which every path re-establishes, also the failing ones), the C06 invariant `jinv` is carried as `jinv(old) ==> jinv(final)`
// where that is true, and the effect of an Err is stated.
//@ fn actors/market/src/deal.rs DealProposal::duration
    requires 0 <= self.start_epoch, 0 <= self.end_epoch,
    ensures r == self.end_epoch - self.start_epoch,
//@ end
//@ fn actors/market/src/deal.rs DealProposal::total_storage_fee
    requires deal_wf(*self),
    ensures r@ == fee(*self),
//@ end
//@ fn actors/market/src/deal.rs DealProposal::provider_balance_requirement
    ensures r@ == self.provider_collateral@,
//@ end
//@ fn actors/market/src/policy.rs collateral_penalty_for_deal_activation_missed
    ensures r@ == provider_collateral@,     // "burnt in full on ... missed activation"
//@ end


// ---- pending proposals (contracts as in units/shared/market_state.inc) ----
//@ fn actors/market/src/state.rs State::load_pending_deals
    ensures r.is_ok() ==> r->Ok_0.0.view().dom() == pend(*self),
//@ end
//@ fn actors/market/src/state.rs State::save_pending_deals
    ensures
        r.is_ok() ==> pend(*final(self)) == old(pending_deals).0.view().dom(),
        r.is_ok() ==> *final(self) == (State { pending_proposals: final(self).pending_proposals, ..*old(self) }),
        r.is_err() ==> *final(self) == *old(self),
//@ end
//@ fn actors/market/src/state.rs State::remove_pending_deal
    ensures
        r.is_ok() ==> pend(*final(self)) == pend(*old(self)).remove(pending_deal_key),
        r.is_ok() ==> (r->Ok_0.is_some() <==> pend(*old(self)).contains(pending_deal_key)),
        r.is_ok() ==> *final(self) == (State { pending_proposals: final(self).pending_proposals, ..*old(self) }),
        r.is_err() ==> *final(self) == *old(self),
//@ end

//@ fn actors/market/src/state.rs State::unlock_balance
    requires bt_wf(lck(*old(self))),
    ensures
        rest_eq(*old(self), *final(self)),
        final(self).escrow_table == old(self).escrow_table,
        final(self).pending_proposals == old(self).pending_proposals,
        bt_wf(lck(*final(self))),
        r.is_ok() ==> 0 <= amount@ <= bal(lck(*old(self)), *addr)
            && moved(lck(*old(self)), lck(*final(self)), *addr, -amount@, *addr, 0)
            && (jinv(*old(self)) ==> jinv(*final(self)))
            && final(self).total_client_locked_collateral@ == old(self).total_client_locked_collateral@ - (if lock_reason is ClientCollateral { amount@ } else { 0 })
            && final(self).total_client_storage_fee@ == old(self).total_client_storage_fee@ - (if lock_reason is ClientStorageFee { amount@ } else { 0 })
            && final(self).total_provider_locked_collateral@ == old(self).total_provider_locked_collateral@ - (if lock_reason is ProviderCollateral { amount@ } else { 0 }),
        // a failed unlock leaves both tables as they were (only a locked total may have been decremented)
        r.is_err() ==> final(self).locked_table == old(self).locked_table,
//@ end

//@ fn actors/market/src/state.rs State::transfer_balance
    requires wf2(*old(self)),
    ensures
        rest_eq(*old(self), *final(self)),
        final(self).pending_proposals == old(self).pending_proposals,
        wf2(*final(self)),
        jinv(*old(self)) ==> jinv(*final(self)),            // also when it fails half way (locked only ever shrinks before escrow moves)
        // funds move from the payer's locked escrow to the payee's free escrow, atto for atto
        r.is_ok() ==> 0 <= amount@ <= bal(lck(*old(self)), *from_addr),
        r.is_ok() ==> moved(esc(*old(self)), esc(*final(self)), *from_addr, -amount@, *to_addr, amount@),
        r.is_ok() ==> moved(lck(*old(self)), lck(*final(self)), *from_addr, -amount@, *from_addr, 0),
        r.is_ok() ==> final(self).total_client_storage_fee@ == old(self).total_client_storage_fee@ - amount@,
        r.is_ok() ==> final(self).total_client_locked_collateral@ == old(self).total_client_locked_collateral@,
        r.is_ok() ==> final(self).total_provider_locked_collateral@ == old(self).total_provider_locked_collateral@,
//@ end

//@ fn actors/market/src/state.rs State::slash_balance
    requires wf2(*old(self)),
    ensures
        rest_eq(*old(self), *final(self)),
        final(self).pending_proposals == old(self).pending_proposals,
        wf2(*final(self)),
        r.is_ok() ==> 0 <= amount@ <= bal(lck(*old(self)), *addr)
            && moved(esc(*old(self)), esc(*final(self)), *addr, -amount@, *addr, 0)
            && moved(lck(*old(self)), lck(*final(self)), *addr, -amount@, *addr, 0)
            && (jinv(*old(self)) ==> jinv(*final(self)))
            && final(self).total_client_locked_collateral@ == old(self).total_client_locked_collateral@ - (if lock_reason is ClientCollateral { amount@ } else { 0 })
            && final(self).total_client_storage_fee@ == old(self).total_client_storage_fee@ - (if lock_reason is ClientStorageFee { amount@ } else { 0 })
            && final(self).total_provider_locked_collateral@ == old(self).total_provider_locked_collateral@ - (if lock_reason is ProviderCollateral { amount@ } else { 0 }),
//@ end

//@ fn actors/market/src/state.rs deal_get_payment_remaining
    requires 0 <= deal.start_epoch, 0 <= deal.end_epoch, slash_epoch >= -1,
    ensures
        r.is_ok() <==> slash_epoch <= deal.end_epoch && deal.start_epoch <= deal.end_epoch,
        r.is_ok() ==> r->Ok_0@ == deal.storage_price_per_epoch@ * (deal.end_epoch - imax(slash_epoch as int, deal.start_epoch as int)),
//@ end

//@ fn actors/market/src/state.rs State::process_deal_expired
    requires wf2(*old(self)),
    ensures
        rest_eq(*old(self), *final(self)),
        final(self).escrow_table == old(self).escrow_table,
        final(self).pending_proposals == old(self).pending_proposals,
        wf2(*final(self)),
        jinv(*old(self)) ==> jinv(*final(self)),            // only unlocks: holds on every path
        // both collaterals are released, nothing else moves
        r.is_ok() ==> moved(lck(*old(self)), lck(*final(self)), deal.provider, -deal.provider_collateral@, deal.client, -deal.client_collateral@),
        r.is_ok() ==> final(self).total_provider_locked_collateral@ == old(self).total_provider_locked_collateral@ - deal.provider_collateral@,
        r.is_ok() ==> final(self).total_client_locked_collateral@ == old(self).total_client_locked_collateral@ - deal.client_collateral@,
        r.is_ok() ==> final(self).total_client_storage_fee@ == old(self).total_client_storage_fee@,
        r.is_ok() ==> state.sector_start_epoch != EPOCH_UNDEFINED,
//@ end

//@ fn actors/market/src/state.rs State::process_deal_init_timed_out
    requires wf2(*old(self)), deal_wf(*deal),
    ensures
        rest_eq(*old(self), *final(self)),
        final(self).pending_proposals == old(self).pending_proposals,
        wf2(*final(self)),
        // missed activation: provider collateral burnt in full, client fully refunded (fee and collateral unlocked)
        r.is_ok() ==> r->Ok_0@ == deal.provider_collateral@,
        r.is_ok() ==> moved(esc(*old(self)), esc(*final(self)), deal.provider, -deal.provider_collateral@, deal.provider, 0),
        r.is_ok() ==> moved(lck(*old(self)), lck(*final(self)), deal.client, -(fee(*deal) + deal.client_collateral@), deal.provider, -deal.provider_collateral@),
        r.is_ok() ==> final(self).total_client_storage_fee@ == old(self).total_client_storage_fee@ - fee(*deal),
        r.is_ok() ==> final(self).total_client_locked_collateral@ == old(self).total_client_locked_collateral@ - deal.client_collateral@,
        r.is_ok() ==> final(self).total_provider_locked_collateral@ == old(self).total_provider_locked_collateral@ - deal.provider_collateral@,
        r.is_ok() && jinv(*old(self)) ==> jinv(*final(self)),
//@ end

//@ fn actors/market/src/state.rs State::process_deal_update ret=res
    requires wf2(*old(self)), deal_wf(*deal), state_wf(*state), epoch >= 0,
    ensures
        rest_eq(*old(self), *final(self)),
        wf2(*final(self)),
        // un-slashed deals: the C06 invariant survives every path, also a failure half way
        state.slash_epoch == EPOCH_UNDEFINED && jinv(*old(self)) ==> jinv(*final(self)),
        // a settlement of a deal that has not started changes no balance and pays nothing
        res.is_ok() && deal.start_epoch > epoch ==>
            final(self).escrow_table == old(self).escrow_table && final(self).locked_table == old(self).locked_table
            && totals_eq(*old(self), *final(self))
            && res->Ok_0.0@ == 0 && res->Ok_0.1@ == 0 && !res->Ok_0.2 && !res->Ok_0.3,
        res.is_ok() ==> !(state.last_updated_epoch != EPOCH_UNDEFINED && state.last_updated_epoch > epoch),
        // a deal that goes on (not removed) is never slashed: cron's "continuing deal should not be slashed" abort is unreachable
        res.is_ok() && !res->Ok_0.3 ==> res->Ok_0.0@ == 0,
        // legacy deal marked for termination (only cron still meets these): deleted, not "completed", provider collateral slashed in full
        res.is_ok() && deal.start_epoch <= epoch && state.slash_epoch != EPOCH_UNDEFINED ==>
            res->Ok_0.0@ == deal.provider_collateral@ && !res->Ok_0.2 && res->Ok_0.3,
        // the un-slashed case (the only one reachable once terminations are synchronous)
        res.is_ok() && deal.start_epoch <= epoch && state.slash_epoch == EPOCH_UNDEFINED && lu_eff(*deal, *state) <= deal.end_epoch ==> ({
            let d = *deal;
            // exactly the epochs in [max(start, last_updated), min(end, epoch)): no epoch twice, none skipped
            let pay = paid_upto(d, epoch as int) - paid_upto(d, lu_eff(d, *state));
            let done = epoch >= d.end_epoch;
            let pc = if done { d.provider_collateral@ } else { 0 };
            let cc = if done { d.client_collateral@ } else { 0 };
            &&& res->Ok_0.0@ == 0
            &&& res->Ok_0.1@ == pay
            &&& pay >= 0
            &&& res->Ok_0.2 == done && res->Ok_0.3 == done
            &&& moved(esc(*old(self)), esc(*final(self)), d.client, -pay, d.provider, pay)
            &&& moved(lck(*old(self)), lck(*final(self)), d.client, -(pay + cc), d.provider, -pc)
            &&& final(self).total_client_storage_fee@ == old(self).total_client_storage_fee@ - pay
            &&& final(self).total_client_locked_collateral@ == old(self).total_client_locked_collateral@ - cc
            &&& final(self).total_provider_locked_collateral@ == old(self).total_provider_locked_collateral@ - pc
        }),
//@ entry
        proof { lemma_pay_window(*deal, epoch as int, lu_eff(*deal, *state)); }
//@ end

// ======================= the proposal and deal-state tables =======================
// derive(Clone) of DealProposal re-stated in prelude/market_clone.rs (TRUSTED: a clone equals its source)
//@ include prelude/market_clone.rs
//@ fn actors/market/src/state.rs find_proposal
    ensures
        r.is_ok() ==> (r->Ok_0.is_some() <==> proposals.view().dom().contains(deal_id)),
        r.is_ok() && r->Ok_0.is_some() ==> r->Ok_0->Some_0 == proposals.view()[deal_id],
//@ end
//@ fn actors/market/src/state.rs get_proposal
    ensures
        r.is_ok() ==> proposals.view().dom().contains(id) && r->Ok_0 == proposals.view()[id],
//@ end
//@ fn actors/market/src/state.rs find_deal_state
    ensures
        r.is_ok() ==> (r->Ok_0.is_some() <==> states.view().dom().contains(deal_id)),
        r.is_ok() && r->Ok_0.is_some() ==> r->Ok_0->Some_0 == states.view()[deal_id],
//@ end
//@ fn actors/market/src/state.rs State::load_proposals
    ensures r.is_ok() ==> r->Ok_0.view() == props_m(*self),
//@ end
//@ fn actors/market/src/state.rs State::get_proposal
    // the proposal returned is the one stored under this id
    ensures r.is_ok() ==> props_m(*self).dom().contains(id) && r->Ok_0 == props_m(*self)[id],
//@ end
//@ fn actors/market/src/state.rs State::find_proposal
    ensures
        r.is_ok() ==> (r->Ok_0.is_some() <==> props_m(*self).dom().contains(deal_id)),
        r.is_ok() && r->Ok_0.is_some() ==> r->Ok_0->Some_0 == props_m(*self)[deal_id],
//@ end
//@ fn actors/market/src/state.rs State::load_deal_states
    ensures r.is_ok() ==> r->Ok_0.view() == dstates_m(*self),
//@ end
//@ fn actors/market/src/state.rs State::save_deal_states
    ensures
        r.is_ok() ==> dstates_m(*final(self)) == old(states).view() && *final(self) == (State { states: final(self).states, ..*old(self) }),
        r.is_err() ==> *final(self) == *old(self),
        final(states).view() == old(states).view(),
//@ end
//@ fn actors/market/src/state.rs State::find_deal_state
    ensures
        r.is_ok() ==> (r->Ok_0.is_some() <==> dstates_m(*self).dom().contains(deal_id)),
        r.is_ok() && r->Ok_0.is_some() ==> r->Ok_0->Some_0 == dstates_m(*self)[deal_id],
//@ end
//@ fn actors/market/src/state.rs State::remove_deal_state
    ensures
        r.is_ok() ==> (r->Ok_0.is_some() <==> dstates_m(*old(self)).dom().contains(deal_id)) && dstates_m(*final(self)) == dstates_m(*old(self)).remove(deal_id)
            && *final(self) == (State { states: final(self).states, ..*old(self) }),
        r.is_err() ==> *final(self) == *old(self),
//@ end
//@ fn actors/market/src/state.rs State::remove_proposal
    ensures
        r.is_ok() ==> (r->Ok_0.is_some() <==> props_m(*old(self)).dom().contains(deal_id)) && props_m(*final(self)) == props_m(*old(self)).remove(deal_id)
            && *final(self) == (State { proposals: final(self).proposals, ..*old(self) }),
        r.is_err() ==> *final(self) == *old(self),
//@ end
/// "Delete proposal and state simultaneously": Ok only if both existed, and then both are gone and nothing else changed
//@ fn actors/market/src/state.rs State::remove_completed_deal
    ensures
        r.is_ok() ==> dstates_m(*old(self)).dom().contains(deal_id) && props_m(*old(self)).dom().contains(deal_id)
            && dstates_m(*final(self)) == dstates_m(*old(self)).remove(deal_id)
            && props_m(*final(self)) == props_m(*old(self)).remove(deal_id)
            && *final(self) == (State { states: final(self).states, proposals: final(self).proposals, ..*old(self) }),
//@ end
//@ fn actors/market/src/state.rs State::load_pending_deal_allocation_ids
    ensures r.is_ok() ==> r->Ok_0.view() == map2_decode::<DealID, AllocationID>(old(self).pending_deal_allocation_ids), *final(self) == *old(self),
//@ end
//@ fn actors/market/src/state.rs State::save_pending_deal_allocation_ids
    ensures
        r.is_ok() ==> *final(self) == (State { pending_deal_allocation_ids: final(self).pending_deal_allocation_ids, ..*old(self) })
            && map2_decode::<DealID, AllocationID>(final(self).pending_deal_allocation_ids) == old(pending_deal_allocation_ids).view(),
        r.is_err() ==> *final(self) == *old(self),
//@ end
//@ fn actors/market/src/state.rs State::remove_pending_deal_allocation_id
    ensures
        r.is_ok() ==> *final(self) == (State { pending_deal_allocation_ids: final(self).pending_deal_allocation_ids, ..*old(self) }),
        r.is_err() ==> *final(self) == *old(self),
//@ end

//@ fn actors/market/src/state.rs State::get_active_deal_or_process_timeout
    requires wf2(*old(self)), deal_wf(*deal_proposal),
    ensures
        // on every path: the deal-state table, the id counter, the cron queue and the sector index are not written,
        // the tables stay well formed, and the only proposal that can disappear is this one
        final(self).states == old(self).states, final(self).next_id == old(self).next_id,
        final(self).deal_ops_by_epoch == old(self).deal_ops_by_epoch, final(self).last_cron == old(self).last_cron,
        final(self).provider_sectors == old(self).provider_sectors,
        wf2(*final(self)),
        props_m(*final(self)) == props_m(*old(self)) || props_m(*final(self)) == props_m(*old(self)).remove(deal_id),
        // an activated deal is just loaded; before the start epoch nothing happens — whatever the result
        dstates_m(*old(self)).dom().contains(deal_id) || curr_epoch < deal_proposal.start_epoch ==> *final(self) == *old(self),
        r.is_ok() && dstates_m(*old(self)).dom().contains(deal_id) ==> r->Ok_0 == LoadDealState::Loaded(dstates_m(*old(self))[deal_id]),
        r.is_ok() && !dstates_m(*old(self)).dom().contains(deal_id) && curr_epoch < deal_proposal.start_epoch ==> r->Ok_0 == LoadDealState::TooEarly,
        // "a proposal not activated by its start epoch is removed with the provider's collateral burnt and the client fully refunded"
        r.is_ok() && !dstates_m(*old(self)).dom().contains(deal_id) && curr_epoch >= deal_proposal.start_epoch ==> ({
            let d = *deal_proposal;
            &&& r->Ok_0 matches LoadDealState::ProposalExpired(slashed) && slashed@ == d.provider_collateral@
            &&& moved(esc(*old(self)), esc(*final(self)), d.provider, -d.provider_collateral@, d.provider, 0)
            &&& moved(lck(*old(self)), lck(*final(self)), d.client, -(fee(d) + d.client_collateral@), d.provider, -d.provider_collateral@)
            &&& props_m(*old(self)).dom().contains(deal_id) && props_m(*final(self)) == props_m(*old(self)).remove(deal_id)
            &&& pend(*old(self)).contains(*dcid) && pend(*final(self)) == pend(*old(self)).remove(*dcid)
        }),
        // the C06 invariant survives unless the time-out processing itself failed half way (then the proposal is still there)
        jinv(*old(self)) && (r.is_ok() || (props_m(*old(self)).dom().contains(deal_id) && !props_m(*final(self)).dom().contains(deal_id))) ==> jinv(*final(self)),
//@ end
//@ include prelude/market_cron_assumed.rs

pub open spec fn upd(s: DealState, e: ChainEpoch) -> DealState { DealState { last_updated_epoch: e, ..s } }
/// the amount one settlement at epoch e owes for deal d whose state is s
pub open spec fn pay_now(d: DealProposal, s: DealState, e: ChainEpoch) -> int { paid_upto(d, e as int) - paid_upto(d, lu_eff(d, s)) }
/// q2 is q1 with deal d appended to the list under [p][s] (created when missing)
pub open spec fn queue_pushed(q1: Map<ActorID, Map<SectorNumber, Seq<DealID>>>, q2: Map<ActorID, Map<SectorNumber, Seq<DealID>>>, p: ActorID, s: SectorNumber, d: DealID) -> bool {
    let m1 = if q1.dom().contains(p) { q1[p] } else { Map::<SectorNumber, Seq<DealID>>::empty() };
    let l1 = if m1.dom().contains(s) { m1[s] } else { Seq::<DealID>::empty() };
    q2 == q1.insert(p, m1.insert(s, l1.push(d)))
}
/// stored proposals are well formed and name their parties by ID address (established at publication)
pub open spec fn props_ok(p: Map<u64, DealProposal>) -> bool {
    forall|k: u64| #[trigger] p.dom().contains(k) ==> deal_wf(p[k]) && p[k].client.proto == 0 && p[k].provider.proto == 0
}
pub open spec fn states_ok(s: Map<u64, DealState>) -> bool {
    forall|k: u64| #[trigger] s.dom().contains(k) ==> state_wf(s[k])
}
// ======================= PART A — CronTick =======================

// ======================= next_update_epoch (real code; spec twin over vstd's rust_rem/rust_div = Rust's truncating % and /) =======================
use vstd::arithmetic::div_mod::{rust_rem, rust_div};
pub open spec fn small(x: int) -> bool { -0x1000_0000_0000_0000 < x < 0x1000_0000_0000_0000 }
pub open spec fn nue_spec(id: DealID, interval: int, earliest: int) -> int {
    let offset = rust_rem((id as i64) as int, interval);
    let remainder = rust_rem(earliest - offset, interval);
    let quotient = rust_div(earliest - offset, interval);
    if remainder == 0 || earliest - offset < 0 { interval * quotient + offset } else { interval * (quotient + 1) + offset }
}
pub proof fn lemma_trunc(x: int, u: int)
    requires u > 0
    ensures
        x >= 0 ==> x - u < u * rust_div(x, u) <= x,
        x < 0 ==> x <= u * rust_div(x, u) < x + u,
        rust_rem(x, u) == x - u * rust_div(x, u),
        -u < rust_rem(x, u) < u,
        u * (rust_div(x, u) + 1) == u * rust_div(x, u) + u,
{
    if x >= 0 {
        vstd::arithmetic::div_mod::lemma_fundamental_div_mod(x, u);
        vstd::arithmetic::div_mod::lemma_mod_bound(x, u);
    } else {
        vstd::arithmetic::div_mod::lemma_fundamental_div_mod(-x, u);
        vstd::arithmetic::div_mod::lemma_mod_bound(-x, u);
        assert(u * -((-x) / u) == -(u * ((-x) / u))) by (nonlinear_arith);
    }
    assert(u * (rust_div(x, u) + 1) == u * rust_div(x, u) + u) by (nonlinear_arith);
}
//@ fn actors/market/src/lib.rs next_update_epoch ops=keep
    requires interval > 0, small(earliest as int), small(interval as int),
    ensures
        r == nue_spec(id, interval as int, earliest as int),
        // "the first update epoch for a deal ID that is no sooner than `earliest`": on the id's lattice, in [earliest, earliest + interval)
        earliest <= r < earliest + interval,
//@ entry
        proof {
            let off = rust_rem((id as i64) as int, interval as int);
            lemma_trunc((id as i64) as int, interval as int);
            lemma_trunc(earliest - off, interval as int);
        }
//@ end
/// the policy's re-scheduling interval is positive and the tick's epoch is far from the ends of i64 (no overflow in the lattice arithmetic)
pub open spec fn pol_ok(e: ChainEpoch) -> bool {
    0 < rt_policy().deal_updates_interval < 0x1000_0000_0000_0000 && 0 <= e < 0x0fff_ffff_ffff_ffff
}

// ---- the per-deal loop as a function of its own (directive + contract copied from units/C07/market_settle.vx.rs) ----
// R21 region WITHOUT slicing: the statement `for deal_id in deal_ids { … }` of cron_tick's transaction closure is lifted into
// `cron_deals`; every statement of the loop is KEPT, nothing is dropped, no havoc. Strengthened here: `sched_pushed` now says
// WHERE a kept deal is re-queued (its next_update_epoch, strictly after the tick) instead of "under some epoch", and the dead
// abort "continuing deal should not be slashed" is proved unreachable. The same loop is verified a second time, in place, inside
// `cron_tx0` below (the whole closure), where its postcondition is composed with the epoch loop and the queue maintenance.
/// the variables of the per-deal loop at a loop head
pub ghost struct CSnap {
    pub sn: Map<u64, DealState>,
    pub pn: Map<u64, DealProposal>,
    pub q: Map<ActorID, Map<SectorNumber, Seq<DealID>>>,
    pub sched: Map<ChainEpoch, Seq<DealID>>,
    pub slashed: int,
    pub esc: Map<Address, TokenAmount>,
    pub lck: Map<Address, TokenAmount>,
    pub jv: bool,
}
pub open spec fn csnap_of(st: State, q: Map<ActorID, Map<SectorNumber, Seq<DealID>>>, sched: Map<ChainEpoch, Seq<DealID>>, slashed: int) -> CSnap {
    CSnap { sn: dstates_m(st), pn: props_m(st), q, sched, slashed, esc: esc(st), lck: lck(st), jv: jinv(st) }
}
/// deal k is appended to the list of ITS next update epoch — the first epoch on the deal's lattice (id mod interval) that is
/// no sooner than e + 1 — which lies strictly in the future of the tick at epoch e
pub open spec fn sched_pushed(m1: Map<ChainEpoch, Seq<DealID>>, m2: Map<ChainEpoch, Seq<DealID>>, k: DealID, e: ChainEpoch) -> bool {
    let ne = nue_spec(k, rt_policy().deal_updates_interval as int, e + 1);
    e < ne <= e + rt_policy().deal_updates_interval && m2 == m1.insert(ne as ChainEpoch, sched_list(m1, ne as ChainEpoch).push(k))
}
/// one iteration of the cron loop for deal id k at epoch e (only runs in which the tick does not abort)
pub open spec fn cstep(a: CSnap, b: CSnap, e: ChainEpoch, k: u64) -> bool {
    if !a.pn.dom().contains(k) {
        b == a                      // cleaned up by a manual settlement or a termination before this tick
    } else if !a.sn.dom().contains(k) {
        // never activated: a tick at or after the start epoch removes the proposal, burns the provider's collateral in full,
        // refunds the client (a tick before the start epoch aborts)
        let d = a.pn[k];
        &&& e >= d.start_epoch
        &&& b.sn == a.sn && b.pn == a.pn.remove(k) && b.q == a.q && b.sched == a.sched
        &&& b.slashed == a.slashed + d.provider_collateral@
        &&& moved(a.esc, b.esc, d.provider, -d.provider_collateral@, d.provider, 0)
        &&& moved(a.lck, b.lck, d.client, -(fee(d) + d.client_collateral@), d.provider, -d.provider_collateral@)
        &&& (a.jv ==> b.jv)
    } else if a.sn[k].last_updated_epoch == EPOCH_UNDEFINED {
        b == a                      // activated, never settled: left to explicit settlement (only its pending-proposal entry is dropped)
    } else {
        // legacy deal, settled by cron
        let d = a.pn[k];
        let s = a.sn[k];
        // either the deal is deleted (state and proposal together) and queued for removal from the sector index ...
        let removed = b.sn == a.sn.remove(k) && b.pn == a.pn.remove(k) && queue_pushed(a.q, b.q, d.provider.id, s.sector_number, k) && b.sched == a.sched;
        // ... or its state is written back with ONLY last_updated_epoch changed, to exactly the current epoch, and it is re-scheduled
        let kept = b.sn == a.sn.insert(k, upd(s, e)) && b.pn == a.pn && b.q == a.q && sched_pushed(a.sched, b.sched, k, e) && b.slashed == a.slashed;
        &&& (removed || kept)
        &&& s.last_updated_epoch <= e
        &&& (s.slash_epoch == EPOCH_UNDEFINED ==> (a.jv ==> b.jv))
        &&& (d.start_epoch > e ==> kept && b.esc == a.esc && b.lck == a.lck)
        // not marked for termination: pays exactly the epochs since the marker; done (and collaterals released) iff the end is reached
        &&& (d.start_epoch <= e && s.slash_epoch == EPOCH_UNDEFINED && lu_eff(d, s) <= d.end_epoch ==> ({
                let pay = pay_now(d, s, e);
                let done = e >= d.end_epoch;
                &&& (if done { removed } else { kept })
                &&& b.slashed == a.slashed
                &&& moved(a.esc, b.esc, d.client, -pay, d.provider, pay)
                &&& moved(a.lck, b.lck, d.client, -(pay + if done { d.client_collateral@ } else { 0 }), d.provider, -(if done { d.provider_collateral@ } else { 0 }))
            }))
        // legacy deal marked for termination: deleted, its provider collateral goes to the burn
        &&& (d.start_epoch <= e && s.slash_epoch != EPOCH_UNDEFINED ==> removed && b.slashed == a.slashed + d.provider_collateral@)
    }
}
pub open spec fn cpending(prev: CSnap, cur: CSnap, e: ChainEpoch, ids: Seq<u64>, pi: int, i: int) -> bool {
    (pi == i && cur == prev) || (pi + 1 == i && cstep(prev, cur, e, ids[pi]))
}
pub open spec fn cchain(cs: Seq<CSnap>, e: ChainEpoch, ids: Seq<u64>, n: int) -> bool {
    forall|j: int| 0 <= j < n ==> #[trigger] cstep(cs[j], cs[j + 1], e, ids[j])
}
/// postcondition of the per-deal cron loop: the loop acts like the sequence cs of single-deal steps
pub open spec fn cron_post(cs: Seq<CSnap>, st0: State, st1: State, x0: CSnap, x1: CSnap, e: ChainEpoch, ids: Seq<u64>) -> bool {
    let n = ids.len() as int;
    &&& cs.len() == n + 1 && cs[0] == x0 && cs[n] == x1 && cchain(cs, e, ids, n)
    &&& st1.next_id == st0.next_id && st1.deal_ops_by_epoch == st0.deal_ops_by_epoch && st1.last_cron == st0.last_cron && st1.provider_sectors == st0.provider_sectors
    &&& wf2(st1) && props_ok(props_m(st1)) && states_ok(dstates_m(st1))
}
pub open spec fn cron_post_ex(st0: State, st1: State, x0: CSnap, x1: CSnap, e: ChainEpoch, ids: Seq<u64>) -> bool {
    exists|cs: Seq<CSnap>| #[trigger] cron_post(cs, st0, st1, x0, x1, e, ids)
}
pub proof fn lemma_cpush(cs: Seq<CSnap>, b: CSnap, e: ChainEpoch, ids: Seq<u64>, n: int)
    requires cs.len() == n + 1, 0 <= n < ids.len(), cchain(cs, e, ids, n), cstep(cs[n], b, e, ids[n]),
    ensures cchain(cs.push(b), e, ids, n + 1)
{
    let c2 = cs.push(b);
    assert forall|j: int| 0 <= j < n + 1 implies #[trigger] cstep(c2[j], c2[j + 1], e, ids[j]) by {
        if j < n { assert(c2[j] == cs[j] && c2[j + 1] == cs[j + 1]); assert(cstep(cs[j], cs[j + 1], e, ids[j])); }
        else { assert(c2[n] == cs[n] && c2[n + 1] == b); }
    }
}
/// put_deal_states of a single entry is one insert
pub proof fn lemma_set_all_one()
    ensures forall|m: Map<u64, DealState>, s: Seq<(DealID, DealState)>| s.len() == 1 ==> #[trigger] set_all(m, s) == m.insert(s[0].0, s[0].1)
{
    assert forall|m: Map<u64, DealState>, s: Seq<(DealID, DealState)>| s.len() == 1 implies #[trigger] set_all(m, s) == m.insert(s[0].0, s[0].1) by {
        assert(s.drop_last().len() == 0);
        assert(set_all(m, s.drop_last()) == m);
        assert(s.last() == s[0]);
    }
}
//@ fn actors/market/src/lib.rs Actor::cron_tick region="for deal_id in deal_ids=>for deal_id in deal_ids" as=cron_deals params="st: &mut State, rt: &mut Rt, deal_ids: Vec<DealID>, curr_epoch: ChainEpoch, amount_slashed: &mut TokenAmount, provider_deals_to_remove: &mut DealsToRemove, new_updates_scheduled: &mut UpdatesScheduled" retty="Result<(), ActorError>" tail="Ok(())" derefs=amount_slashed ret=res r19=0 sub0="let deal_id = & __vx_v0 [__vx_i0]=>let deal_id = __vx_v0[__vx_i0]" suball0=". entry=>. vx_at" suball1=". or_default ()=>"
    requires
        wf2(*old(st)), props_ok(props_m(*old(st))), states_ok(dstates_m(*old(st))),
        0 <= curr_epoch < i64::MAX, pol_ok(curr_epoch),
    ensures
        *final(rt) == (Rt { events: final(rt).events, ..*old(rt) }),
        res.is_ok() ==> cron_post_ex(*old(st), *final(st),
            csnap_of(*old(st), old(provider_deals_to_remove)@, old(new_updates_scheduled)@, old(amount_slashed)@),
            csnap_of(*final(st), final(provider_deals_to_remove)@, final(new_updates_scheduled)@, final(amount_slashed)@),
            curr_epoch, deal_ids@),
//@ entry
        let ghost st0 = *st;
        let ghost ids = deal_ids@;
        let ghost x0 = csnap_of(*st, provider_deals_to_remove@, new_updates_scheduled@, amount_slashed@);
        let ghost mut pi: int = 0;
        let ghost mut cs: Seq<CSnap> = seq![x0];
        let ghost mut prev: CSnap = x0;
//@ loop 0
            invariant
                __vx_i0 <= __vx_v0.len(), __vx_v0@ == ids,
                *rt == (Rt { events: rt.events, ..*old(rt) }),
                wf2(*st), props_ok(props_m(*st)), states_ok(dstates_m(*st)), 0 <= curr_epoch < i64::MAX, pol_ok(curr_epoch),
                st.next_id == st0.next_id, st.deal_ops_by_epoch == st0.deal_ops_by_epoch, st.last_cron == st0.last_cron, st.provider_sectors == st0.provider_sectors,
                0 <= pi <= ids.len(), cs.len() == pi + 1, cs[0] == x0, cs[pi] == prev, cchain(cs, curr_epoch, ids, pi),
                cpending(prev, csnap_of(*st, provider_deals_to_remove@, new_updates_scheduled@, amount_slashed@), curr_epoch, ids, pi, __vx_i0 as int),
            decreases __vx_v0.len() - __vx_i0,
//@ loopstart 0
                proof {
                    let cur = csnap_of(*st, provider_deals_to_remove@, new_updates_scheduled@, amount_slashed@);
                    if pi + 1 == __vx_i0 {
                        lemma_cpush(cs, cur, curr_epoch, ids, pi);
                        cs = cs.push(cur);
                        pi = pi + 1;
                    }
                    prev = cur;
                }
//@ loopend 0
                proof { lemma_set_all_one(); }
//@ before "should not be slashed"
                        // unreachable: process_deal_update never slashes a deal that goes on
                        proof { assert(false); }
//@ before "Ok (())"
        proof {
            let cur = csnap_of(*st, provider_deals_to_remove@, new_updates_scheduled@, amount_slashed@);
            if pi + 1 == ids.len() {
                lemma_cpush(cs, cur, curr_epoch, ids, pi);
                cs = cs.push(cur);
                pi = pi + 1;
            }
            assert(cron_post(cs, st0, *st, x0, cur, curr_epoch, ids));
        }
//@ end

// ---- the whole transaction of cron_tick: the epoch loop around the per-deal loop, and what follows it ----
// Nothing is sliced away: the closure is extracted whole (R3), the per-deal loop inside it is the same text as `cron_deals`
// above and carries the same invariant, now relative to the state at the start of the epoch's pass.
/// one epoch's pass of the per-deal loop: some chain of single-deal steps (cstep) over the ids queued under that epoch, in queue order
pub open spec fn epoch_step(a: CSnap, b: CSnap, e: ChainEpoch, ids: Seq<u64>) -> bool {
    exists|cs: Seq<CSnap>| cs.len() == ids.len() + 1 && cs[0] == a && cs[ids.len() as int] == b && #[trigger] cchain(cs, e, ids, ids.len() as int)
}
/// the epochs last+1, last+2, … are processed in this order, each with the id list the queue held for it when the tick began:
/// xs[j] is the snapshot before epoch last+1+j, xs[j+1] the one after it
pub open spec fn tick_chain(xs: Seq<CSnap>, ops: Cid, last: ChainEpoch, e: ChainEpoch, n: int) -> bool {
    forall|j: int| 0 <= j < n ==> #[trigger] epoch_step(xs[j], xs[j + 1], e, ops_list(ops, (last + 1 + j) as ChainEpoch))
}
/// every re-scheduled deal sits under an epoch strictly after the tick's
pub open spec fn sched_future(m: Map<ChainEpoch, Seq<DealID>>, e: ChainEpoch) -> bool { forall|ep: ChainEpoch| #[trigger] m.dom().contains(ep) ==> ep > e }
/// postcondition of the cron_tick transaction (st0 → st1 at epoch e; sl0 / sl1: the amount to burn before / after)
pub open spec fn tick_post(xs: Seq<CSnap>, st0: State, st1: State, e: ChainEpoch, sl0: int, sl1: int) -> bool {
    let n = e - st0.last_cron;
    let xf = xs[n];
    // epochs last_cron+1 ..= e are processed in order, each with its own list from deal_ops_by_epoch
    &&& n >= 1 && xs.len() == n + 1
    &&& xs[0] == csnap_of(st0, Map::empty(), Map::empty(), sl0)
    &&& tick_chain(xs, st0.deal_ops_by_epoch, st0.last_cron, e, n)
    // what the per-deal steps produced is what is committed; the amount to burn is exactly the total slashed in the loop
    &&& csnap_of(st1, xf.q, xf.sched, sl1) == xf
    // last_cron becomes the current epoch: the next tick starts at e + 1, so no epoch is processed twice and none is skipped
    &&& st1.last_cron == e
    &&& st1.next_id == st0.next_id
    // the queue: every processed epoch's list is removed, every kept deal is re-queued at its next update epoch — strictly in the
    // future —, and nothing else changes
    &&& sched_future(xf.sched, e)
    &&& (forall|ep: ChainEpoch, d: DealID| #[trigger] ops_has(st1.deal_ops_by_epoch, ep, d)
            <==> (ops_has(st0.deal_ops_by_epoch, ep, d) && !(st0.last_cron < ep <= e)) || sched_list(xf.sched, ep).contains(d))
    // deals to remove are taken out of the provider sector index (and nothing else is)
    &&& (forall|p: ActorID, s: SectorNumber, d: DealID| #[trigger] sector_deals_of(st1.provider_sectors, p, s).contains(d)
            <==> sector_deals_of(st0.provider_sectors, p, s).contains(d) && !queued(xf.q, p, s, d))
    &&& wf2(st1) && props_ok(props_m(st1)) && states_ok(dstates_m(st1))
}
pub open spec fn tick_post_ex(st0: State, st1: State, e: ChainEpoch, sl0: int, sl1: int) -> bool {
    exists|xs: Seq<CSnap>| #[trigger] tick_post(xs, st0, st1, e, sl0, sl1)
}
pub proof fn lemma_tick_push(xs: Seq<CSnap>, b: CSnap, ops: Cid, last: ChainEpoch, e: ChainEpoch, n: int)
    requires xs.len() == n + 1, n >= 0, tick_chain(xs, ops, last, e, n), epoch_step(xs[n], b, e, ops_list(ops, (last + 1 + n) as ChainEpoch))
    ensures tick_chain(xs.push(b), ops, last, e, n + 1)
{
    let x2 = xs.push(b);
    assert forall|j: int| 0 <= j < n + 1 implies #[trigger] epoch_step(x2[j], x2[j + 1], e, ops_list(ops, (last + 1 + j) as ChainEpoch)) by {
        if j < n { assert(x2[j] == xs[j] && x2[j + 1] == xs[j + 1]); assert(epoch_step(xs[j], xs[j + 1], e, ops_list(ops, (last + 1 + j) as ChainEpoch))); }
        else { assert(x2[n] == xs[n] && x2[n + 1] == b); }
    }
}
/// the epochs pushed onto `epochs_completed` are exactly last+1 ..= e
pub proof fn lemma_epochs_done(done: Seq<ChainEpoch>, last: ChainEpoch, e: ChainEpoch)
    requires last < e, done.len() == e - last, forall|j: int| 0 <= j < done.len() ==> #[trigger] done[j] == last + 1 + j
    ensures forall|ep: ChainEpoch| done.contains(ep) <==> last < ep <= e
{
    assert forall|ep: ChainEpoch| done.contains(ep) <==> last < ep <= e by {
        if last < ep <= e { assert(done[ep - last - 1] == ep); }
    }
}
//@ fn actors/market/src/lib.rs Actor::cron_tick closure=0 as=cron_tx0 params="st: &mut State, rt: &mut Rt, curr_epoch: ChainEpoch, amount_slashed: &mut TokenAmount" retty="Result<(), ActorError>" derefs=amount_slashed ret=res r19=1 sub0="let deal_id = & __vx_v1 [__vx_i1]=>let deal_id = __vx_v1[__vx_i1]" sub1="BTreeMap :: < ActorID , BTreeMap < SectorNumber , Vec < DealID > > > :: new ()=>DealsToRemove::new()" sub2="let mut new_updates_scheduled : BTreeMap < ChainEpoch , Vec < DealID > > = BTreeMap :: new ()=>let mut new_updates_scheduled : UpdatesScheduled = UpdatesScheduled::new()" suball0=". entry=>. vx_at" suball1=". or_default ()=>"
    requires
        wf2(*old(st)), props_ok(props_m(*old(st))), states_ok(dstates_m(*old(st))),
        old(rt).epoch == curr_epoch, pol_ok(curr_epoch),
        // cron runs once per epoch: the previous tick was at an earlier epoch (also: vstd specifies `a..=b` only for a <= b)
        -1 <= old(st).last_cron < curr_epoch,
    ensures
        *final(rt) == (Rt { events: final(rt).events, ..*old(rt) }),
        res.is_ok() ==> tick_post_ex(*old(st), *final(st), curr_epoch, old(amount_slashed)@, final(amount_slashed)@),
//@ entry
        let ghost st0 = *st;
        let ghost x00 = csnap_of(*st, Map::empty(), Map::empty(), amount_slashed@);
        let ghost mut xs: Seq<CSnap> = seq![x00];
//@ loop 0 iter=it0
            invariant
                *rt == (Rt { events: rt.events, ..*old(rt) }), rt.epoch == curr_epoch, pol_ok(curr_epoch),
                last_cron == st0.last_cron, -1 <= last_cron < curr_epoch,
                it0.index@ <= it0.seq().len(), it0.seq().len() == curr_epoch - last_cron,
                forall|j: int| 0 <= j < it0.seq().len() ==> #[trigger] it0.seq()[j] == last_cron + 1 + j,
                wf2(*st), props_ok(props_m(*st)), states_ok(dstates_m(*st)),
                st.next_id == st0.next_id, st.deal_ops_by_epoch == st0.deal_ops_by_epoch, st.last_cron == st0.last_cron, st.provider_sectors == st0.provider_sectors,
                epochs_completed@.len() == it0.index@, forall|j: int| 0 <= j < it0.index@ ==> #[trigger] epochs_completed@[j] == last_cron + 1 + j,
                xs.len() == it0.index@ + 1, xs[0] == x00, xs[it0.index@ as int] == csnap_of(*st, provider_deals_to_remove@, new_updates_scheduled@, amount_slashed@),
                tick_chain(xs, st0.deal_ops_by_epoch, last_cron, curr_epoch, it0.index@ as int),
                sched_future(new_updates_scheduled@, curr_epoch),
//@ loopstart 0
                let ghost stE = *st;
                let ghost ids = ops_list(st0.deal_ops_by_epoch, i);
                let ghost xE = csnap_of(*st, provider_deals_to_remove@, new_updates_scheduled@, amount_slashed@);
                let ghost mut pi: int = 0;
                let ghost mut cs: Seq<CSnap> = seq![xE];
                let ghost mut prev: CSnap = xE;
                let ghost nE = it0.index@ as int;
//@ loop 1
                    invariant
                        __vx_i1 <= __vx_v1.len(), __vx_v1@ == ids,
                        *rt == (Rt { events: rt.events, ..*old(rt) }), rt.epoch == curr_epoch,
                        wf2(*st), props_ok(props_m(*st)), states_ok(dstates_m(*st)), pol_ok(curr_epoch),
                        st.next_id == stE.next_id, st.deal_ops_by_epoch == stE.deal_ops_by_epoch, st.last_cron == stE.last_cron, st.provider_sectors == stE.provider_sectors,
                        0 <= pi <= ids.len(), cs.len() == pi + 1, cs[0] == xE, cs[pi] == prev, cchain(cs, curr_epoch, ids, pi),
                        cpending(prev, csnap_of(*st, provider_deals_to_remove@, new_updates_scheduled@, amount_slashed@), curr_epoch, ids, pi, __vx_i1 as int),
                        sched_future(new_updates_scheduled@, curr_epoch),
                    decreases __vx_v1.len() - __vx_i1,
//@ loopstart 1
                        proof {
                            let cur = csnap_of(*st, provider_deals_to_remove@, new_updates_scheduled@, amount_slashed@);
                            if pi + 1 == __vx_i1 {
                                lemma_cpush(cs, cur, curr_epoch, ids, pi);
                                cs = cs.push(cur);
                                pi = pi + 1;
                            }
                            prev = cur;
                        }
//@ loopend 1
                        proof { lemma_set_all_one(); }
//@ loopend 0
                proof {
                    let cur = csnap_of(*st, provider_deals_to_remove@, new_updates_scheduled@, amount_slashed@);
                    if pi + 1 == ids.len() {
                        lemma_cpush(cs, cur, curr_epoch, ids, pi);
                        cs = cs.push(cur);
                        pi = pi + 1;
                    }
                    assert(cs.len() == ids.len() + 1 && cs[0] == xE && cs[ids.len() as int] == cur && cchain(cs, curr_epoch, ids, ids.len() as int));
                    assert(epoch_step(xE, cur, curr_epoch, ids));
                    assert(i == last_cron + 1 + nE);
                    lemma_tick_push(xs, cur, st0.deal_ops_by_epoch, last_cron, curr_epoch, nE);
                    xs = xs.push(cur);
                }
//@ before "should not be slashed"
                                // abort (8) of the list below is unreachable: process_deal_update never slashes a deal that goes on
                                proof { assert(false); }
//@ before "Ok (())"
        proof {
            lemma_epochs_done(epochs_completed@, last_cron, curr_epoch);
            assert(tick_post(xs, st0, *st, curr_epoch, old(amount_slashed)@, amount_slashed@));
        }
//@ end

// ---- cron_tick: whole method ----
/// the value burnt by this activation: what the (single) send appended to the send log carries, 0 when nothing was sent
pub open spec fn burn_value(sends0: Seq<SendRec>, sends1: Seq<SendRec>) -> int {
    if sends1.len() == sends0.len() { 0 } else { sends1.last().value }
}
/// "one burn send to the burnt-funds actor with exactly that value, none when zero"
pub open spec fn burn_shape(sends0: Seq<SendRec>, sends1: Seq<SendRec>) -> bool {
    ||| sends1 == sends0
    ||| (sends1.len() == sends0.len() + 1 && sends1 == sends0.push(sends1.last()) && ({
            let b = sends1.last();
            b.to == BURNT_FUNDS_ACTOR_ADDR && b.method == METHOD_SEND && b.value != 0 && b.ok && b.params.is_none()
        }))
}
/// the state invariants the tick relies on (well-formedness of the committed market state)
pub open spec fn market_wf(s: State) -> bool { wf2(s) && props_ok(props_m(s)) && states_ok(dstates_m(s)) }
// THE "NEVER FAILS" SIDE (C05), stated honestly. The tick aborts (every helper result goes through `?`) when
//   (1) the caller is not the cron actor, the state cannot be loaded, or the activation is read-only (tx_end);
//   (2) a blockstore operation of a helper fails (get_deals_for_epoch, find_proposal, find_deal_state, remove_proposal, remove_deal_state,
//       remove_pending_deal, put_deal_states, the three balance-table helpers, remove_sector_deal_ids, remove_deals_by_epoch,
//       put_batch_deals_by_epoch), or deal_cid / an event emission fails;
//   (3) a queued, never-activated proposal is met BEFORE its start epoch (`TooEarly` → illegal_state). Cannot occur when every
//       un-activated proposal is queued only at epochs >= its start epoch (publish_storage_deals queues it at
//       next_update_epoch(id, interval, start_epoch) >= start_epoch — see next_update_epoch's contract);
//   (4) the time-out processing of an un-activated proposal fails: its client's / provider's locked balance does not cover the fee +
//       collaterals locked at publication (unlock_balance / slash_balance → illegal_state / insufficient funds), or its CID is missing
//       from pending_proposals ("failed to delete pending deal"). Cannot occur when locked[a] covers the sum of what a's open
//       deals locked (the C06 ledger invariant over ALL deals, not only jinv) and every un-activated proposal is pending;
//   (5) an activated, never-settled deal (last_updated_epoch == -1) is met whose CID is no longer pending ("failed to delete pending
//       proposal"). Cannot occur when each deal id is queued under at most one epoch and only cron / settlement remove pending CIDs
//       (settlement also sets last_updated_epoch, so the deal then takes the other branch);
//   (6) process_deal_update fails: a stored marker in the future (last_updated_epoch > now), a slash epoch after now or after the deal's
//       end, or locked funds that do not cover the payment / the collateral release. Cannot occur under states_ok + lu_ok
//       (markers are only ever set to a past tick's epoch) + the ledger invariant of (4);
//   (7) remove_completed_deal finds no state / proposal — unreachable here (both were just read; proved: cstep's `removed` branch);
//   (8) "continuing deal should not be slashed" — unreachable (proved: process_deal_update returns slash == 0 whenever !remove);
//   (9) the burn send fails after the transaction.
// Of these, (7) and (8) are discharged by the contracts below; (3)–(6) are excluded only by the well-formedness conditions named,
// which are invariants over message histories and are NOT proved here; (1), (2), (9) are environment failures.
//@ fn actors/market/src/lib.rs Actor::cron_tick free tx0="State;cron_tx0;&mut __vx_st, rt, curr_epoch, &mut amount_slashed" ret=res
    requires
        !old(rt).in_tx@, old(rt).tx_log@.len() == 0, old(rt).validated@.is_none(),
        pol_ok(old(rt).epoch),
        market_wf(rt_state::<State>(old(rt).state_id@)),
        // cron runs once per epoch: the previous tick was at an earlier epoch
        -1 <= rt_state::<State>(old(rt).state_id@).last_cron < old(rt).epoch,
    ensures
        // the caller is the cron actor
        /*C11*/ res.is_ok() ==> old(rt).msg.caller == CRON_ACTOR_ADDR && final(rt).validated@.is_some(),
        // the amount burnt after the transaction — one plain send to the burnt-funds actor, none when zero — is exactly the total
        // slashed in the loop (the `slashed` component of the last snapshot, see tick_post)
        res.is_ok() ==> burn_shape(old(rt).sends@, final(rt).sends@),
        res.is_ok() ==> final(rt).tx_log@.len() == 1 && tick_post_ex(
            rt_state::<State>(old(rt).state_id@), rt_state::<State>(final(rt).tx_log@[0]), old(rt).epoch, 0, burn_value(old(rt).sends@, final(rt).sends@)),
        // a tick that fails before or inside the transaction records nothing and sends nothing
        res.is_err() && final(rt).tx_log@.len() == 0 ==> final(rt).sends == old(rt).sends && final(rt).state_id == old(rt).state_id,
//@ end
// ======================= PART B — SectorContentChanged (C08) =======================
//@ fn actors/market/src/lib.rs validate_deal_can_activate
    ensures
        // "only by its own provider, no later than its start epoch and only in a sector that outlives it"
        r.is_ok() <==> proposal.provider == *miner_addr && curr_epoch <= proposal.start_epoch && proposal.end_epoch <= sector_expiration,
//@ end
//@ fn actors/market/src/lib.rs preactivate_deal rt=ref
    ensures
        // outer Ok(Ok(p)): the deal may be activated now
        r.is_ok() && r->Ok_0.is_ok() ==> ({
            let p = r->Ok_0->Ok_0;
            &&& proposals.view().dom().contains(deal_id) && p == proposals.view()[deal_id]
            // "only by its own provider, no later than its start epoch and only in a sector that outlives it"
            &&& p.provider == *provider && curr_epoch <= p.start_epoch && p.end_epoch <= sector_commitment
            // "a deal is activated at most once": no deal state exists yet
            &&& !states.view().dom().contains(deal_id)
            // and it is still a pending proposal
            &&& pending_proposals.0.view().dom().contains(deal_cid_spec(p))
        }),
//@ end
// ---------------- spec ----------------
pub open spec fn palloc(s: State) -> Map<DealID, AllocationID> { map2_decode::<DealID, AllocationID>(s.pending_deal_allocation_ids) }
/// stored proposals name their parties by ID address (established at publication)
pub open spec fn props_ids(s: State) -> bool {
    forall|k: u64| #[trigger] props_m(s).dom().contains(k) ==> props_m(s)[k].client.proto == 0 && props_m(s)[k].provider.proto == 0
}
pub open spec fn new_state(sector_number: SectorNumber, epoch: ChainEpoch) -> DealState {
    DealState { sector_number, sector_start_epoch: epoch, last_updated_epoch: EPOCH_UNDEFINED, slash_epoch: EPOCH_UNDEFINED }
}
pub type Secs = Seq<ext::miner::SectorChanges>;
pub type Rets = Seq<ext::miner::SectorReturn>;
pub type Cur = Seq<ext::miner::PieceReturn>;
pub type Src = Map<DealID, (int, int)>;
/// the deal id a piece change names (meaningful when its payload decodes)
pub open spec fn id_of(pc: ext::miner::PieceChange) -> DealID { raw_deser_spec::<DealID>(pc.payload) }
pub open spec fn pc_at(secs: Secs, i: int, j: int) -> ext::miner::PieceChange { secs[i].added@[j] }
pub open spec fn in_range(secs: Secs, i: int, j: int) -> bool { 0 <= i < secs.len() && 0 <= j < secs[i].added@.len() }
/// every check of the activation path, for piece `pc` of sector `sec`, against the state `s0` the transaction started from:
/// the payload decodes to a deal id; that deal's proposal exists; its provider is the caller; it is not already activated (no deal
/// state); the current epoch is <= its start epoch; the sector's expiration covers its end epoch; piece CID and size match
pub open spec fn piece_ok(s0: State, sec: ext::miner::SectorChanges, pc: ext::miner::PieceChange, miner: Address, epoch: ChainEpoch) -> bool {
    let k = id_of(pc);
    &&& raw_deser_ok::<DealID>(pc.payload)
    &&& props_m(s0).dom().contains(k)
    &&& props_m(s0)[k].provider == miner
    &&& !dstates_m(s0).dom().contains(k)
    &&& epoch <= props_m(s0)[k].start_epoch
    &&& props_m(s0)[k].end_epoch <= sec.minimum_commitment_epoch
    &&& pc.data == props_m(s0)[k].piece_cid && pc.size == props_m(s0)[k].piece_size
}
/// piece j of sector i was accepted (its `accepted` flag in the value returned)
pub open spec fn accepted(rets: Rets, i: int, j: int) -> bool { 0 <= i < rets.len() && 0 <= j < rets[i].added@.len() && rets[i].added@[j].accepted }
/// deal k was named by some accepted piece
pub open spec fn by_accepted(rets: Rets, secs: Secs, k: DealID) -> bool { exists|i: int, j: int| #[trigger] accepted(rets, i, j) && id_of(pc_at(secs, i, j)) == k }
/// deal d was named by some accepted piece of a sector numbered s
pub open spec fn by_accepted_in(rets: Rets, secs: Secs, s: SectorNumber, d: DealID) -> bool {
    exists|i: int, j: int| #[trigger] accepted(rets, i, j) && secs[i].sector == s && id_of(pc_at(secs, i, j)) == d
}
/// postcondition of the SectorContentChanged transaction
pub open spec fn scc_post(s0: State, s1: State, secs: Secs, rets: Rets, miner: Address, epoch: ChainEpoch) -> bool {
    // one flag per piece change of the request
    &&& rets.len() == secs.len() && (forall|i: int| 0 <= i < secs.len() ==> (#[trigger] rets[i]).added@.len() == secs[i].added@.len())
    // only the deal states, the provider-sector index and the pending allocation ids are written
    &&& s1 == (State { states: s1.states, provider_sectors: s1.provider_sectors, pending_deal_allocation_ids: s1.pending_deal_allocation_ids, ..s0 })
    // an accepted piece passed EVERY check (so: a piece that fails any check is not accepted) ...
    &&& (forall|i: int, j: int| #[trigger] accepted(rets, i, j) ==> piece_ok(s0, secs[i], pc_at(secs, i, j), miner, epoch) && ({
            let k = id_of(pc_at(secs, i, j));
            // ... and its deal gets a deal state with sector_start_epoch = the current epoch, in the sector that carries it,
            &&& dstates_m(s1).dom().contains(k) && dstates_m(s1)[k] == new_state(secs[i].sector, epoch)
            // leaves the pending-allocation table,
            &&& !palloc(s1).dom().contains(k)
            // and is recorded in the provider's sector → deals index
            &&& sector_deals_of(s1.provider_sectors, miner.id, secs[i].sector).contains(k)
        }))
    // duplicates within one call are rejected: no two accepted pieces name the same deal
    &&& (forall|i: int, j: int, i2: int, j2: int| #[trigger] accepted(rets, i, j) && #[trigger] accepted(rets, i2, j2) && id_of(pc_at(secs, i, j)) == id_of(pc_at(secs, i2, j2)) ==> i == i2 && j == j2)
    // "a deal is activated at most once": existing activations are untouched
    &&& (forall|k: u64| #[trigger] dstates_m(s0).dom().contains(k) ==> dstates_m(s1).dom().contains(k) && dstates_m(s1)[k] == dstates_m(s0)[k])
    // pieces that were not accepted change nothing: every new deal state, every removed pending allocation and every new index
    // entry is the work of an accepted piece
    &&& (forall|k: u64| #[trigger] dstates_m(s1).dom().contains(k) && !dstates_m(s0).dom().contains(k) ==> by_accepted(rets, secs, k))
    &&& (forall|k: u64| #[trigger] palloc(s1).dom().contains(k) <==> palloc(s0).dom().contains(k) && !by_accepted(rets, secs, k))
    &&& (forall|k: u64| #[trigger] palloc(s1).dom().contains(k) ==> palloc(s1)[k] == palloc(s0)[k])
    &&& (forall|p: ActorID, s: SectorNumber, d: DealID| #[trigger] sector_deals_of(s1.provider_sectors, p, s).contains(d)
            <==> sector_deals_of(s0.provider_sectors, p, s).contains(d) || (p == miner.id && by_accepted_in(rets, secs, s, d)))
}

// ---------------- loop invariant (ghost `src`: which piece activated each deal so far) ----------------
// Extraction of the closure: R3 (lifted), R19 on the sector loop, and for the piece loop
//   `for (piece, ret) in sector.added.iter().zip(&mut pieces_ret) { … continue … ret.accepted = true; }`
// R17 (zip → index loop `for __vx_z0 in 0..vx_zip_len(a.len(), b.len())`, `let piece = &a[z]; let ret = &b[z];`) followed by three
// textual substitutions that turn R17's range-`for` into the equivalent `while` (Verus' `for` has no `continue`, and R19 cannot be
// applied to R17's output): the header becomes `let mut z = 0; while z < vx_zip_len(..)`, the binding of `ret` becomes
// `let __vx_j = z; z = z + 1;` (the increment moves to the top of the body so that `continue` keeps it), and the one use of `ret`,
// `ret.accepted = true`, becomes `vx_accept(&mut pieces_ret, __vx_j)` — a prelude helper whose body is that assignment on element
// __vx_j. `vec![PieceReturn { accepted: false }; n]` becomes `vx_piece_returns(n)` (helper body = the original expression) and
// the two `assert_eq!` become calls with the precondition a == b (proved: they never panic). Nothing is dropped or reordered.
pub open spec fn has_key(ds: Seq<(DealID, DealState)>, id: DealID) -> bool { exists|a: int| 0 <= a < ds.len() && #[trigger] ds[a].0 == id }
pub open spec fn keys_distinct(ds: Seq<(DealID, DealState)>) -> bool { forall|a: int, b: int| 0 <= a < b < ds.len() ==> ds[a].0 != ds[b].0 }
/// position (i, j) has been processed when nd sectors are complete and jd pieces of sector nd are
pub open spec fn before(i: int, j: int, nd: int, jd: int) -> bool { i < nd || (i == nd && j < jd) }
pub open spec fn flag(rets: Rets, cur: Cur, nd: int, i: int, j: int) -> bool { if i < nd { rets[i].added@[j].accepted } else { cur[j].accepted } }
pub open spec fn src_ok(s0: State, miner: Address, epoch: ChainEpoch, secs: Secs, src: Src, rets: Rets, cur: Cur, nd: int, jd: int, k: DealID) -> bool {
    let (i, j) = src[k];
    in_range(secs, i, j) && before(i, j, nd, jd) && id_of(pc_at(secs, i, j)) == k && piece_ok(s0, secs[i], pc_at(secs, i, j), miner, epoch) && flag(rets, cur, nd, i, j)
}
pub open spec fn ds_entry_ok(secs: Secs, src: Src, epoch: ChainEpoch, e: (DealID, DealState)) -> bool {
    src.dom().contains(e.0) && e.1 == new_state(secs[src[e.0].0].sector, epoch)
}
pub open spec fn sd_has(sdeals: Seq<(SectorNumber, Vec<DealID>)>, i: int, d: DealID) -> bool { sdeals[i].1@.contains(d) }
#[verifier::opaque]
pub open spec fn inv(s0: State, miner: Address, epoch: ChainEpoch, secs: Secs, src: Src, ds: Seq<(DealID, DealState)>, pa: Map<DealID, AllocationID>,
        rets: Rets, sdeals: Seq<(SectorNumber, Vec<DealID>)>, nd: int, jd: int, cur: Cur, sdi: Seq<DealID>) -> bool {
    &&& 0 <= nd <= secs.len() && rets.len() == nd && sdeals.len() == nd && 0 <= jd
    &&& (forall|i: int| 0 <= i < nd ==> (#[trigger] rets[i]).added@.len() == secs[i].added@.len())
    &&& (forall|i: int| 0 <= i < nd ==> (#[trigger] sdeals[i]).0 == secs[i].sector)
    &&& (forall|k: DealID| src.dom().contains(k) ==> #[trigger] src_ok(s0, miner, epoch, secs, src, rets, cur, nd, jd, k))
    &&& (forall|i: int, j: int| in_range(secs, i, j) && before(i, j, nd, jd) && #[trigger] flag(rets, cur, nd, i, j)
            ==> src.dom().contains(id_of(pc_at(secs, i, j))) && src[id_of(pc_at(secs, i, j))] == (i, j))
    &&& keys_distinct(ds)
    &&& (forall|a: int| 0 <= a < ds.len() ==> ds_entry_ok(secs, src, epoch, #[trigger] ds[a]))
    &&& (forall|k: DealID| src.dom().contains(k) ==> #[trigger] has_key(ds, k))
    &&& pa =~= palloc(s0).remove_keys(src.dom())
    &&& (forall|i: int, d: DealID| 0 <= i < nd ==> (#[trigger] sd_has(sdeals, i, d) <==> src.dom().contains(d) && src[d].0 == i))
    &&& (forall|d: DealID| #[trigger] sdi.contains(d) <==> src.dom().contains(d) && src[d].0 == nd)
}
pub proof fn lemma_inv_init(s0: State, miner: Address, epoch: ChainEpoch, secs: Secs, cur: Cur)
    ensures inv(s0, miner, epoch, secs, Map::empty(), Seq::empty(), palloc(s0), Seq::empty(), Seq::empty(), 0, 0, cur, Seq::empty())
{
    reveal(inv);
    assert(palloc(s0) =~= palloc(s0).remove_keys(Map::<DealID, (int, int)>::empty().dom()));
}
/// while no piece of the current sector has been processed the flags of the current sector play no part
pub proof fn lemma_inv_cur(s0: State, miner: Address, epoch: ChainEpoch, secs: Secs, src: Src, ds: Seq<(DealID, DealState)>, pa: Map<DealID, AllocationID>,
        rets: Rets, sdeals: Seq<(SectorNumber, Vec<DealID>)>, nd: int, cur: Cur, cur2: Cur, sdi: Seq<DealID>)
    requires inv(s0, miner, epoch, secs, src, ds, pa, rets, sdeals, nd, 0, cur, sdi)
    ensures inv(s0, miner, epoch, secs, src, ds, pa, rets, sdeals, nd, 0, cur2, sdi)
{
    reveal(inv);
    assert forall|k: DealID| src.dom().contains(k) implies #[trigger] src_ok(s0, miner, epoch, secs, src, rets, cur2, nd, 0, k) by {
        assert(src_ok(s0, miner, epoch, secs, src, rets, cur, nd, 0, k));
    }
    assert forall|i: int, j: int| in_range(secs, i, j) && before(i, j, nd, 0) && #[trigger] flag(rets, cur2, nd, i, j)
            implies src.dom().contains(id_of(pc_at(secs, i, j))) && src[id_of(pc_at(secs, i, j))] == (i, j) by {
        assert(flag(rets, cur, nd, i, j));
    }
}
/// a piece that is not accepted: the position moves on, nothing else changes
pub proof fn lemma_inv_skip(s0: State, miner: Address, epoch: ChainEpoch, secs: Secs, src: Src, ds: Seq<(DealID, DealState)>, pa: Map<DealID, AllocationID>,
        rets: Rets, sdeals: Seq<(SectorNumber, Vec<DealID>)>, nd: int, jd: int, cur: Cur, sdi: Seq<DealID>)
    requires inv(s0, miner, epoch, secs, src, ds, pa, rets, sdeals, nd, jd, cur, sdi), nd < secs.len(), 0 <= jd < cur.len(), !cur[jd].accepted
    ensures inv(s0, miner, epoch, secs, src, ds, pa, rets, sdeals, nd, jd + 1, cur, sdi)
{
    reveal(inv);
    assert forall|k: DealID| src.dom().contains(k) implies #[trigger] src_ok(s0, miner, epoch, secs, src, rets, cur, nd, jd + 1, k) by {
        assert(src_ok(s0, miner, epoch, secs, src, rets, cur, nd, jd, k));
    }
    assert forall|i: int, j: int| in_range(secs, i, j) && before(i, j, nd, jd + 1) && #[trigger] flag(rets, cur, nd, i, j)
            implies src.dom().contains(id_of(pc_at(secs, i, j))) && src[id_of(pc_at(secs, i, j))] == (i, j) by {
        assert(before(i, j, nd, jd));
    }
}
pub proof fn lemma_push_key(ds: Seq<(DealID, DealState)>, x: (DealID, DealState))
    requires keys_distinct(ds), !has_key(ds, x.0)
    ensures keys_distinct(ds.push(x)), forall|id: u64| #[trigger] has_key(ds.push(x), id) <==> has_key(ds, id) || id == x.0
{
    let n = ds.push(x);
    assert forall|a: int, b: int| 0 <= a < b < n.len() implies n[a].0 != n[b].0 by {
        if b == ds.len() { if n[a].0 == x.0 { assert(ds[a].0 == x.0); } }
    }
    assert forall|id: u64| #[trigger] has_key(n, id) <==> has_key(ds, id) || id == x.0 by {
        if has_key(n, id) { let a = choose|a: int| 0 <= a < n.len() && #[trigger] n[a].0 == id; if a < ds.len() { assert(ds[a].0 == id); } }
        if has_key(ds, id) { let a = choose|a: int| 0 <= a < ds.len() && #[trigger] ds[a].0 == id; assert(n[a].0 == id); }
        if id == x.0 { assert(n[ds.len() as int].0 == id); }
    }
}
/// a piece that passed every check and names a deal not activated in this call: accepted
pub proof fn lemma_inv_accept(s0: State, miner: Address, epoch: ChainEpoch, secs: Secs, src: Src, ds: Seq<(DealID, DealState)>, pa: Map<DealID, AllocationID>,
        rets: Rets, sdeals: Seq<(SectorNumber, Vec<DealID>)>, nd: int, jd: int, cur: Cur, sdi: Seq<DealID>, k: DealID)
    requires
        inv(s0, miner, epoch, secs, src, ds, pa, rets, sdeals, nd, jd, cur, sdi), nd < secs.len(), 0 <= jd < cur.len(), cur.len() == secs[nd].added@.len(),
        k == id_of(pc_at(secs, nd, jd)), !src.dom().contains(k), piece_ok(s0, secs[nd], pc_at(secs, nd, jd), miner, epoch),
    ensures
        inv(s0, miner, epoch, secs, src.insert(k, (nd, jd)), ds.push((k, new_state(secs[nd].sector, epoch))), pa.remove(k), rets, sdeals, nd, jd + 1,
            cur.update(jd, ext::miner::PieceReturn { accepted: true }), sdi.push(k)),
        !has_key(ds, k),
{
    reveal(inv);
    let src2 = src.insert(k, (nd, jd));
    let x = (k, new_state(secs[nd].sector, epoch));
    let ds2 = ds.push(x);
    let cur2 = cur.update(jd, ext::miner::PieceReturn { accepted: true });
    let sdi2 = sdi.push(k);
    assert(!has_key(ds, k)) by {
        if has_key(ds, k) { let a = choose|a: int| 0 <= a < ds.len() && #[trigger] ds[a].0 == k; assert(ds_entry_ok(secs, src, epoch, ds[a])); }
    }
    lemma_push_key(ds, x);
    assert forall|k2: DealID| src2.dom().contains(k2) implies #[trigger] src_ok(s0, miner, epoch, secs, src2, rets, cur2, nd, jd + 1, k2) by {
        if k2 != k {
            assert(src_ok(s0, miner, epoch, secs, src, rets, cur, nd, jd, k2));
        }
    }
    assert forall|i: int, j: int| in_range(secs, i, j) && before(i, j, nd, jd + 1) && #[trigger] flag(rets, cur2, nd, i, j)
            implies src2.dom().contains(id_of(pc_at(secs, i, j))) && src2[id_of(pc_at(secs, i, j))] == (i, j) by {
        if !(i == nd && j == jd) {
            assert(before(i, j, nd, jd));
            assert(flag(rets, cur, nd, i, j));
        }
    }
    assert forall|a: int| 0 <= a < ds2.len() implies ds_entry_ok(secs, src2, epoch, #[trigger] ds2[a]) by {
        if a < ds.len() { assert(ds_entry_ok(secs, src, epoch, ds[a])); }
    }
    assert(pa.remove(k) =~= palloc(s0).remove_keys(src2.dom()));
    assert forall|i: int, d: DealID| 0 <= i < nd implies (#[trigger] sd_has(sdeals, i, d) <==> src2.dom().contains(d) && src2[d].0 == i) by {
        if src.dom().contains(d) { assert(src_ok(s0, miner, epoch, secs, src, rets, cur, nd, jd, d)); }
    }
    assert forall|d: DealID| #[trigger] sdi2.contains(d) <==> src2.dom().contains(d) && src2[d].0 == nd by {
        if sdi2.contains(d) { let a = choose|a: int| 0 <= a < sdi2.len() && sdi2[a] == d; if a < sdi.len() { assert(sdi[a] == d); assert(sdi.contains(d)); } }
        if sdi.contains(d) { let a = choose|a: int| 0 <= a < sdi.len() && sdi[a] == d; assert(sdi2[a] == d); }
        if d == k { assert(sdi2[sdi.len() as int] == k); }
        if src.dom().contains(d) { assert(src_ok(s0, miner, epoch, secs, src, rets, cur, nd, jd, d)); }
    }
}
/// the sector is complete: its flags and its deal list are recorded
pub proof fn lemma_inv_sector_done(s0: State, miner: Address, epoch: ChainEpoch, secs: Secs, src: Src, ds: Seq<(DealID, DealState)>, pa: Map<DealID, AllocationID>,
        rets: Rets, sdeals: Seq<(SectorNumber, Vec<DealID>)>, nd: int, cur: Cur, sdi: Seq<DealID>, r: ext::miner::SectorReturn, sd: (SectorNumber, Vec<DealID>))
    requires
        nd < secs.len(), inv(s0, miner, epoch, secs, src, ds, pa, rets, sdeals, nd, secs[nd].added@.len() as int, cur, sdi), cur.len() == secs[nd].added@.len(),
        r.added@ == cur, sd.0 == secs[nd].sector, sd.1@ == sdi,
    ensures inv(s0, miner, epoch, secs, src, ds, pa, rets.push(r), sdeals.push(sd), nd + 1, 0, Seq::empty(), Seq::empty())
{
    reveal(inv);
    let jd = secs[nd].added@.len() as int;
    let rets2 = rets.push(r);
    let sdeals2 = sdeals.push(sd);
    let e = Seq::<ext::miner::PieceReturn>::empty();
    assert forall|k: DealID| src.dom().contains(k) implies #[trigger] src_ok(s0, miner, epoch, secs, src, rets2, e, nd + 1, 0, k) by {
        assert(src_ok(s0, miner, epoch, secs, src, rets, cur, nd, jd, k));
    }
    assert forall|i: int, j: int| in_range(secs, i, j) && before(i, j, nd + 1, 0) && #[trigger] flag(rets2, e, nd + 1, i, j)
            implies src.dom().contains(id_of(pc_at(secs, i, j))) && src[id_of(pc_at(secs, i, j))] == (i, j) by {
        assert(before(i, j, nd, jd));
        assert(flag(rets, cur, nd, i, j));
    }
    assert forall|i: int, d: DealID| 0 <= i < nd + 1 implies (#[trigger] sd_has(sdeals2, i, d) <==> src.dom().contains(d) && src[d].0 == i) by {
        if i < nd { assert(sdeals2[i] == sdeals[i]); assert(sd_has(sdeals2, i, d) == sd_has(sdeals, i, d)); } else { assert(sdeals2[i] == sd); }
    }
    assert forall|d: DealID| #[trigger] Seq::<DealID>::empty().contains(d) <==> src.dom().contains(d) && src[d].0 == nd + 1 by {
        if src.dom().contains(d) { assert(src_ok(s0, miner, epoch, secs, src, rets, cur, nd, jd, d)); }
    }
    assert forall|i: int| 0 <= i < nd + 1 implies (#[trigger] rets2[i]).added@.len() == secs[i].added@.len() by { if i < nd { assert(rets2[i] == rets[i]); } }
    assert forall|i: int| 0 <= i < nd + 1 implies (#[trigger] sdeals2[i]).0 == secs[i].sector by { if i < nd { assert(sdeals2[i] == sdeals[i]); } }
}
/// set_all with distinct keys: the new map is the old one plus exactly the listed entries
pub proof fn lemma_set_all(m: Map<u64, DealState>, ds: Seq<(DealID, DealState)>)
    requires keys_distinct(ds)
    ensures
        forall|k: u64| #[trigger] set_all(m, ds).dom().contains(k) <==> m.dom().contains(k) || has_key(ds, k),
        forall|a: int| 0 <= a < ds.len() ==> set_all(m, ds)[(#[trigger] ds[a]).0] == ds[a].1,
        forall|k: u64| m.dom().contains(k) && !has_key(ds, k) ==> #[trigger] set_all(m, ds)[k] == m[k],
    decreases ds.len()
{
    if ds.len() > 0 {
        let t = ds.drop_last();
        lemma_set_all(m, t);
        assert(set_all(m, ds) == set_all(m, t).insert(ds.last().0, ds.last().1));
        assert(ds.last() == ds[ds.len() - 1]);
        assert forall|k: u64| #[trigger] set_all(m, ds).dom().contains(k) <==> m.dom().contains(k) || has_key(ds, k) by {
            if has_key(ds, k) { let a = choose|a: int| 0 <= a < ds.len() && #[trigger] ds[a].0 == k; if a < t.len() { assert(t[a].0 == k); } }
            if has_key(t, k) { let a = choose|a: int| 0 <= a < t.len() && #[trigger] t[a].0 == k; assert(ds[a].0 == k); }
            if k == ds.last().0 { assert(ds[ds.len() - 1].0 == k); }
        }
        assert forall|a: int| 0 <= a < ds.len() implies set_all(m, ds)[(#[trigger] ds[a]).0] == ds[a].1 by {
            if a < t.len() { assert(t[a] == ds[a]); assert(ds[a].0 != ds[ds.len() - 1].0); }
        }
        assert forall|k: u64| m.dom().contains(k) && !has_key(ds, k) implies #[trigger] set_all(m, ds)[k] == m[k] by {
            assert(k != ds.last().0) by { if k == ds.last().0 { assert(ds[ds.len() - 1].0 == k); } }
            assert(!has_key(t, k)) by { if has_key(t, k) { let a = choose|a: int| 0 <= a < t.len() && #[trigger] t[a].0 == k; assert(ds[a].0 == k); } }
        }
    }
}
/// all sectors done and the three tables written back: the postcondition
pub proof fn lemma_inv_final(s0: State, s1: State, miner: Address, epoch: ChainEpoch, secs: Secs, src: Src, ds: Seq<(DealID, DealState)>, rets: Rets,
        sdeals: Seq<(SectorNumber, Vec<DealID>)>)
    requires
        inv(s0, miner, epoch, secs, src, ds, palloc(s1), rets, sdeals, secs.len() as int, 0, Seq::empty(), Seq::empty()),
        s1 == (State { states: s1.states, provider_sectors: s1.provider_sectors, pending_deal_allocation_ids: s1.pending_deal_allocation_ids, ..s0 }),
        dstates_m(s1) == set_all(dstates_m(s0), ds),
        forall|p: ActorID, s: SectorNumber, d: DealID| #[trigger] sector_deals_of(s1.provider_sectors, p, s).contains(d)
            <==> sector_deals_of(s0.provider_sectors, p, s).contains(d) || (p == miner.id && listed(sdeals, s, d)),
    ensures scc_post(s0, s1, secs, rets, miner, epoch)
{
    reveal(inv);
    let n = secs.len() as int;
    let e = Seq::<ext::miner::PieceReturn>::empty();
    lemma_set_all(dstates_m(s0), ds);
    // an accepted piece is the source of its deal
    assert forall|i: int, j: int| #[trigger] accepted(rets, i, j) implies src.dom().contains(id_of(pc_at(secs, i, j))) && src[id_of(pc_at(secs, i, j))] == (i, j) by {
        assert(in_range(secs, i, j) && before(i, j, n, 0));
        assert(flag(rets, e, n, i, j));
    }
    // a deal with a source was named by an accepted piece
    assert forall|k: DealID| src.dom().contains(k) implies accepted(rets, src[k].0, src[k].1) && id_of(pc_at(secs, src[k].0, src[k].1)) == k
            && piece_ok(s0, secs[src[k].0], pc_at(secs, src[k].0, src[k].1), miner, epoch) by {
        assert(src_ok(s0, miner, epoch, secs, src, rets, e, n, 0, k));
    }
    assert forall|k: DealID| src.dom().contains(k) <==> by_accepted(rets, secs, k) by {
        if src.dom().contains(k) { assert(accepted(rets, src[k].0, src[k].1)); }
        if by_accepted(rets, secs, k) { let (i, j) = choose|i: int, j: int| #[trigger] accepted(rets, i, j) && id_of(pc_at(secs, i, j)) == k; }
    }
    assert forall|s: SectorNumber, d: DealID| listed(sdeals, s, d) <==> by_accepted_in(rets, secs, s, d) by {
        if listed(sdeals, s, d) {
            let i = choose|i: int| 0 <= i < sdeals.len() && (#[trigger] sdeals[i]).0 == s && sdeals[i].1@.contains(d);
            assert(sd_has(sdeals, i, d));
            assert(src.dom().contains(d) && src[d].0 == i);
            assert(accepted(rets, src[d].0, src[d].1));
        }
        if by_accepted_in(rets, secs, s, d) {
            let (i, j) = choose|i: int, j: int| #[trigger] accepted(rets, i, j) && secs[i].sector == s && id_of(pc_at(secs, i, j)) == d;
            assert(src.dom().contains(d) && src[d] == (i, j));
            assert(sd_has(sdeals, i, d));
            assert(sdeals[i].0 == s);
        }
    }
    assert forall|i: int, j: int| #[trigger] accepted(rets, i, j) implies piece_ok(s0, secs[i], pc_at(secs, i, j), miner, epoch) && ({
            let k = id_of(pc_at(secs, i, j));
            &&& dstates_m(s1).dom().contains(k) && dstates_m(s1)[k] == new_state(secs[i].sector, epoch)
            &&& !palloc(s1).dom().contains(k)
            &&& sector_deals_of(s1.provider_sectors, miner.id, secs[i].sector).contains(k)
        }) by {
        let k = id_of(pc_at(secs, i, j));
        assert(src.dom().contains(k) && src[k] == (i, j));
        assert(has_key(ds, k));
        let a = choose|a: int| 0 <= a < ds.len() && #[trigger] ds[a].0 == k;
        assert(ds_entry_ok(secs, src, epoch, ds[a]));
        assert(set_all(dstates_m(s0), ds)[ds[a].0] == ds[a].1);
        assert(by_accepted_in(rets, secs, secs[i].sector, k));
    }
    assert forall|k: u64| #[trigger] dstates_m(s0).dom().contains(k) implies dstates_m(s1).dom().contains(k) && dstates_m(s1)[k] == dstates_m(s0)[k] by {
        if has_key(ds, k) { let a = choose|a: int| 0 <= a < ds.len() && #[trigger] ds[a].0 == k; assert(ds_entry_ok(secs, src, epoch, ds[a])); }
    }
    assert forall|k: u64| #[trigger] dstates_m(s1).dom().contains(k) && !dstates_m(s0).dom().contains(k) implies by_accepted(rets, secs, k) by {
        assert(has_key(ds, k));
        let a = choose|a: int| 0 <= a < ds.len() && #[trigger] ds[a].0 == k; assert(ds_entry_ok(secs, src, epoch, ds[a]));
    }
}

//@ fn actors/market/src/lib.rs Actor::sector_content_changed closure=0 as=scc_tx0 params="st: &mut State, rt: &mut Rt, params: &ext::miner::SectorContentChangedParams, miner_addr: Address, curr_epoch: ChainEpoch" retty="Result<Vec<ext::miner::SectorReturn>, ActorError>" ret=res r17 r19=0 suball0="log :: warn !=>warn !" sub0="for __vx_z0 in 0 .. vx_zip_len (sector . added . len () , (& mut pieces_ret) . len ())=>let mut __vx_z0 : usize = 0 ; # [verifier :: loop_isolation (false)] while __vx_z0 < vx_zip_len (sector . added . len () , pieces_ret . len ())" sub1="let ret = & (& mut pieces_ret) [__vx_z0] ;=>let __vx_j : usize = __vx_z0 ; __vx_z0 = __vx_z0 + 1 ;" suball1="ret . accepted = true=>vx_accept (& mut pieces_ret , __vx_j)" sub3="vec ! [ext :: miner :: PieceReturn { accepted : false } ; sector . added . len ()]=>vx_piece_returns (sector . added . len ())"
    requires
        miner_addr.proto == 0,          // the caller is a miner actor, addressed by ID
        props_ids(*old(st)),
    ensures
        *final(rt) == (Rt { events: final(rt).events, ..*old(rt) }),
        res.is_ok() ==> scc_post(*old(st), *final(st), params.sectors@, res->Ok_0@, miner_addr, curr_epoch),
//@ entry
        let ghost s0 = *st;
        let ghost secs = params.sectors@;
        let ghost mut src: Src = Map::empty();
        proof { lemma_inv_init(s0, miner_addr, curr_epoch, secs, Seq::empty()); }
//@ loop 0
                invariant
                    __vx_i0 <= __vx_v0.len(), __vx_v0@ == secs,
                    *st == s0, proposals.view() == props_m(s0), states.view() == dstates_m(s0),
                    pending_deals.0.view().dom() == pend(s0), props_ids(s0), miner_addr.proto == 0,
                    *rt == (Rt { events: rt.events, ..*old(rt) }),
                    activated_deals@ == src.dom(), sectors_ret@.len() == __vx_i0,
                    inv(s0, miner_addr, curr_epoch, secs, src, deal_states@, pending_deal_allocation_ids.view(), sectors_ret@, sectors_deals@, __vx_i0 as int, 0, Seq::empty(), Seq::empty()),
                decreases __vx_v0.len() - __vx_i0,
//@ before "for __vx_z0 in 0 .. vx_zip_len"
                proof { lemma_inv_cur(s0, miner_addr, curr_epoch, secs, src, deal_states@, pending_deal_allocation_ids.view(), sectors_ret@, sectors_deals@, __vx_i0 - 1, Seq::empty(), pieces_ret@, Seq::empty()); }
//@ loopstart 0
                let ghost rets0 = sectors_ret@;
                let ghost sdeals0 = sectors_deals@;
//@ loop 1
                    invariant
                        0 < __vx_i0 <= __vx_v0.len(), __vx_v0@ == secs, *sector == secs[__vx_i0 - 1],
                        __vx_z0 <= sector.added@.len(), pieces_ret@.len() == sector.added@.len(),
                        forall|j: int| __vx_z0 <= j < pieces_ret@.len() ==> !(#[trigger] pieces_ret@[j]).accepted,
                        *st == s0, proposals.view() == props_m(s0), states.view() == dstates_m(s0),
                        pending_deals.0.view().dom() == pend(s0), props_ids(s0), miner_addr.proto == 0,
                        *rt == (Rt { events: rt.events, ..*old(rt) }),
                        activated_deals@ == src.dom(), sectors_ret@ == rets0, sectors_deals@ == sdeals0, sectors_ret@.len() == __vx_i0 - 1,
                        inv(s0, miner_addr, curr_epoch, secs, src, deal_states@, pending_deal_allocation_ids.view(), sectors_ret@, sectors_deals@, __vx_i0 - 1, __vx_z0 as int, pieces_ret@, sector_deal_ids@),
                    decreases sector.added@.len() - __vx_z0,
//@ loopstart 1
                    // a piece that is not accepted (`continue`) moves the position on and changes nothing else; the values at the loop head:
                    let ghost ds0 = deal_states@;
                    let ghost pa0 = pending_deal_allocation_ids.view();
                    let ghost cur0 = pieces_ret@;
                    let ghost sdi0 = sector_deal_ids@;
                    let ghost jd0 = __vx_z0 as int;
                    proof { lemma_inv_skip(s0, miner_addr, curr_epoch, secs, src, ds0, pa0, rets0, sdeals0, __vx_i0 - 1, jd0, cur0, sdi0); }
//@ loopend 1
                    // reached only by an accepted piece ("No continue below here")
                    proof {
                        assert(pc_at(secs, __vx_i0 - 1, jd0) == *piece);
                        lemma_inv_accept(s0, miner_addr, curr_epoch, secs, src, ds0, pa0, rets0, sdeals0, __vx_i0 - 1, jd0, cur0, sdi0, deal_id);
                        src = src.insert(deal_id, (__vx_i0 - 1, jd0));
                    }
//@ loopend 0
                proof {
                    let r = sectors_ret@.last();
                    let sd = sectors_deals@.last();
                    lemma_inv_sector_done(s0, miner_addr, curr_epoch, secs, src, deal_states@, pending_deal_allocation_ids.view(), rets0, sdeals0, __vx_i0 - 1, r.added@, sd.1@, r, sd);
                    assert(sectors_ret@ =~= rets0.push(r));
                    assert(sectors_deals@ =~= sdeals0.push(sd));
                }
//@ before "Ok (sectors_ret)"
        proof { lemma_inv_final(s0, *st, miner_addr, curr_epoch, secs, src, deal_states@, sectors_ret@, sectors_deals@); }
//@ end

// ======================= SectorContentChanged: whole method =======================
//@ fn actors/market/src/lib.rs Actor::sector_content_changed free tx0="State;scc_tx0;&mut __vx_st, rt, &params, miner_addr, curr_epoch" ret=res
    requires
        !old(rt).in_tx@, old(rt).tx_log@.len() == 0, old(rt).validated@.is_none(),
        old(rt).msg.caller.proto == 0,      // the immediate caller is always addressed by ID (FVM)
        props_ids(rt_state::<State>(old(rt).state_id@)),
    ensures
        // "only by its own provider": the caller is a miner actor and acts as the provider of every deal it activates
        /*C11*/ /*C08*/ res.is_ok() ==> old(rt).caller_type@ == Some(Type::Miner) && final(rt).validated@.is_some(),
        res.is_ok() ==> final(rt).tx_log@.len() == 1 && final(rt).sends == old(rt).sends
            && scc_post(rt_state::<State>(old(rt).state_id@), rt_state::<State>(final(rt).tx_log@[0]), params.sectors@, res->Ok_0.sectors@, old(rt).msg.caller, old(rt).epoch),
        // a failed call records nothing
        res.is_err() ==> final(rt).tx_log@.len() == 0 && final(rt).state_id == old(rt).state_id,
//@ end
} // verus!
fn main() {}
