// unit: cron actor — epoch_tick never fails because an entry's callback failed (C05)
//@ include prelude/core.rs
//@ include prelude/rt.rs
//@ include prelude/singletons.rs
macro_rules! log_error { ($($t:tt)*) => { () } }
verus! {

//@ item actors/cron/src/state.rs Entry
//@ item actors/cron/src/state.rs State

//@ fn actors/cron/src/lib.rs Actor::epoch_tick free sub0="log :: error !=>log_error !"
    requires
        !old(rt).in_tx@,
        old(rt).sends@.len() == 0,
    ensures
        // after caller validation and state load the tick returns Ok for EVERY vector of send outcomes:
        // the only Err exits are the two statements before the loop
        (old(rt).validated@.is_none() && old(rt).msg.caller == SYSTEM_ACTOR_ADDR) ==> (r.is_ok() || final(rt).sends@.len() == 0),
        /*C11*/ r.is_ok() ==> old(rt).msg.caller == SYSTEM_ACTOR_ADDR && final(rt).validated@.is_some(),
        // exactly one message per entry, in order, value 0
        r.is_ok() ==> ({
            let entries = rt_state::<State>(old(rt).state_id@).entries@;
            &&& final(rt).sends@.len() == entries.len()
            &&& forall|i: int| 0 <= i < entries.len() ==> {
                    &&& (#[trigger] final(rt).sends@[i]).to == entries[i].receiver
                    &&& final(rt).sends@[i].method == entries[i].method_num
                    &&& final(rt).sends@[i].value == 0
                    &&& final(rt).sends@[i].params.is_none()
                }
        }),
//@ loop 0 iter=it
            invariant
                !rt.in_tx@,
                rt.msg == old(rt).msg,
                rt.validated@.is_some(),
                it.seq() == rt_state::<State>(old(rt).state_id@).entries@,
                rt.sends@.len() == it.index@,
                forall|i: int| 0 <= i < it.index@ ==> {
                    &&& (#[trigger] rt.sends@[i]).to == it.seq()[i].receiver
                    &&& rt.sends@[i].method == it.seq()[i].method_num
                    &&& rt.sends@[i].value == 0
                    &&& rt.sends@[i].params.is_none()
                },
//@ end

} // verus!
fn main() {}
