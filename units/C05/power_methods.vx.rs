// unit: power actor methods — claim/pledge updates by miners, the cron queue and the end-of-epoch processing (C05, C02, C03; caller clauses C11)
//@ include prelude/core.rs
//@ include prelude/ipld.rs
//@ include prelude/rt.rs
//@ include prelude/singletons.rs
//@ include prelude/policy.rs
//@ include prelude/power.rs
//@ include prelude/cbor.rs
macro_rules! error { ($($t:tt)*) => { () } }
macro_rules! debug { ($($t:tt)*) => { () } }
verus! {
//@ include units/shared/power_state.inc
//@ const actors/power/src/state.rs CRON_QUEUE_HAMT_BITWIDTH
//@ const actors/power/src/state.rs CRON_QUEUE_AMT_BITWIDTH
//@ const actors/power/src/state.rs CLAIMS_CONFIG
//@ item actors/power/src/state.rs CronEvent
//@ item actors/power/src/types.rs UpdateClaimedPowerParams
//@ item actors/power/src/types.rs EnrollCronEventParams
//@ item actors/power/src/types.rs UpdatePledgeTotalParams
//@ include prelude/power_cron_assumed.rs

pub open spec fn claims_of(s: State) -> Map<Address, Claim> { map2_decode::<Address, Claim>(s.claims) }
pub open spec fn queue_of(s: State) -> Map<BytesKey, Seq<CronEvent>> { mmap_decode(s.cron_event_queue) }

//@ fn actors/power/src/state.rs State::load_claims
    ensures vx_store_ok() ==> r.is_ok(), r.is_ok() ==> r->Ok_0.view() == claims_of(*self),
//@ end
//@ fn actors/power/src/state.rs State::save_claims
    ensures
        vx_store_ok() ==> r.is_ok(),
        r.is_ok() ==> claims_of(*final(self)) == old(claims).view() && *final(self) == (State { claims: final(self).claims, ..*old(self) }),
        r.is_err() ==> *final(self) == *old(self),
//@ end
//@ fn actors/power/src/state.rs State::validate_miner_has_claim
    ensures r.is_ok() ==> claims_of(*self).dom().contains(*miner_addr),
//@ end
//@ fn actors/power/src/state.rs State::append_cron_event
    ensures
        r.is_ok() ==> final(events).view() == old(events).view().insert(epoch_key_spec(epoch), mm_get(old(events).view(), epoch_key_spec(epoch)).push(event)),
        // the scan start never moves past an enrolled event
        final(self).first_cron_epoch == (if epoch < old(self).first_cron_epoch { epoch } else { old(self).first_cron_epoch }),
        *final(self) == (State { first_cron_epoch: final(self).first_cron_epoch, ..*old(self) }),
//@ end

// ======================= UpdatePledgeTotal (C03) =======================
//@ fn actors/power/src/lib.rs Actor::update_pledge_total closure=0 as=upt_tx0 params="st: &mut State, rt: &mut Rt, params: UpdatePledgeTotalParams" retty="Result<(), ActorError>"
    ensures
        *final(rt) == *old(rt),
        // only a miner that holds a claim; the total moves by exactly the delta and never goes negative
        /*C11*/ /*C03*/ r.is_ok() ==> claims_of(*old(st)).dom().contains(old(rt).msg.caller),
        r.is_ok() ==> final(st).total_pledge_collateral@ == old(st).total_pledge_collateral@ + params.pledge_delta@ && final(st).total_pledge_collateral@ >= 0
            && *final(st) == (State { total_pledge_collateral: final(st).total_pledge_collateral, ..*old(st) }),
//@ end
//@ fn actors/power/src/lib.rs Actor::update_pledge_total free tx0="State;upt_tx0;&mut __vx_st, rt, params"
    requires !old(rt).in_tx@, old(rt).tx_log@.len() == 0, old(rt).validated@.is_none(),
    ensures
        /*C11*/ r.is_ok() ==> old(rt).caller_type@ == Some(Type::Miner) && final(rt).validated@.is_some(),
        final(rt).sends == old(rt).sends,
        r.is_ok() ==> final(rt).tx_log@.len() == 1 && ({
            let s0 = rt_state::<State>(old(rt).state_id@);
            let s1 = rt_state::<State>(final(rt).tx_log@[0]);
            claims_of(s0).dom().contains(old(rt).msg.caller)
                && s1.total_pledge_collateral@ == s0.total_pledge_collateral@ + params.pledge_delta@ && s1.total_pledge_collateral@ >= 0
        }),
//@ end

// ======================= UpdateClaimedPower (C02) =======================
//@ fn actors/power/src/lib.rs Actor::update_claimed_power closure=0 as=ucp_tx0 params="st: &mut State, rt: &mut Rt, miner_addr: Address, params: UpdateClaimedPowerParams" retty="Result<(), ActorError>"
    requires i64::MIN < old(st).miner_above_min_power_count < i64::MAX,
    ensures
        *final(rt) == *old(rt),
        r.is_ok() ==> claims_of(*old(st)).dom().contains(miner_addr) && ({
            let oc = claims_of(*old(st))[miner_addr];
            let nc = claims_of(*final(st))[miner_addr];
            // exactly the calling miner's claim moves, by exactly the reported delta; the network totals follow the consensus-minimum rule
            &&& claims_of(*final(st)) == claims_of(*old(st)).insert(miner_addr, nc)
            &&& nc.raw_byte_power@ == oc.raw_byte_power@ + params.raw_byte_delta@ && nc.quality_adj_power@ == oc.quality_adj_power@ + params.quality_adjusted_delta@
            &&& nc.raw_byte_power@ >= 0 && nc.quality_adj_power@ >= 0
            &&& final(st).total_raw_byte_power@ == old(st).total_raw_byte_power@ - contrib_raw(oc) + contrib_raw(nc)
            &&& final(st).total_quality_adj_power@ == old(st).total_quality_adj_power@ - contrib_qa(oc) + contrib_qa(nc)
            &&& final(st).total_bytes_committed@ == old(st).total_bytes_committed@ + params.raw_byte_delta@
            &&& final(st).total_pledge_collateral == old(st).total_pledge_collateral && final(st).cron_event_queue == old(st).cron_event_queue
        }),
//@ end
//@ fn actors/power/src/lib.rs Actor::update_claimed_power free tx0="State;ucp_tx0;&mut __vx_st, rt, miner_addr, params"
    requires
        !old(rt).in_tx@, old(rt).tx_log@.len() == 0, old(rt).validated@.is_none(),
        i64::MIN < rt_state::<State>(old(rt).state_id@).miner_above_min_power_count < i64::MAX,
    ensures
        /*C11*/ r.is_ok() ==> old(rt).caller_type@ == Some(Type::Miner) && final(rt).validated@.is_some(),
        final(rt).sends == old(rt).sends,
        r.is_ok() ==> final(rt).tx_log@.len() == 1 && ({
            let s0 = rt_state::<State>(old(rt).state_id@);
            let s1 = rt_state::<State>(final(rt).tx_log@[0]);
            let m = old(rt).msg.caller;
            claims_of(s0).dom().contains(m) && claims_of(s1) == claims_of(s0).insert(m, claims_of(s1)[m])
                && claims_of(s1)[m].raw_byte_power@ == claims_of(s0)[m].raw_byte_power@ + params.raw_byte_delta@
                && claims_of(s1)[m].quality_adj_power@ == claims_of(s0)[m].quality_adj_power@ + params.quality_adjusted_delta@
        }),
//@ end

// ======================= EnrollCronEvent (C05) =======================
//@ fn actors/power/src/lib.rs Actor::enroll_cron_event closure=0 as=ece_tx0 params="st: &mut State, rt: &mut Rt, params: &EnrollCronEventParams, miner_event: CronEvent" retty="Result<(), ActorError>"
    ensures
        *final(rt) == *old(rt),
        r.is_ok() ==> ({
            let k = epoch_key_spec(params.event_epoch);
            // the callback is appended under its epoch, nothing else in the queue moves, and the scan start does not skip it
            &&& queue_of(*final(st)) == queue_of(*old(st)).insert(k, mm_get(queue_of(*old(st)), k).push(miner_event))
            &&& final(st).first_cron_epoch <= params.event_epoch && final(st).first_cron_epoch <= old(st).first_cron_epoch
            &&& *final(st) == (State { first_cron_epoch: final(st).first_cron_epoch, cron_event_queue: final(st).cron_event_queue, ..*old(st) })
        }),
//@ end


// ======================= the end-of-epoch processing of deferred cron events (C05) =======================
//@ item runtime/src/builtin/reward/mod.rs ThisEpochRewardReturn
pub mod ext {
    pub mod miner {
        use super::super::*;
//@ const actors/power/src/ext.rs ON_DEFERRED_CRON_EVENT_METHOD
//@ item actors/power/src/ext.rs DeferredCronEventParams
    }
    pub mod reward {
//@ const actors/power/src/ext.rs UPDATE_NETWORK_KPI
        /// `ext::reward::Method::ThisEpochReward as MethodNum` (enum discriminant 3)
        pub const THIS_EPOCH_REWARD_METHOD: u64 = 3;
    }
}
/// event i of the epochs first..=last, in queue order, as a flat predicate
pub open spec fn due(q: Map<BytesKey, Seq<CronEvent>>, first: ChainEpoch, last: ChainEpoch, ev: CronEvent) -> bool {
    exists|e: ChainEpoch, j: int| first <= e <= last && 0 <= j < mm_get(q, epoch_key_spec(e)).len() && #[trigger] mm_get(q, epoch_key_spec(e))[j] == ev
}

pub proof fn lemma_push_contains(s: Seq<CronEvent>, a: CronEvent)
    ensures forall|x: CronEvent| s.contains(x) ==> #[trigger] s.push(a).contains(x), s.push(a).contains(a)
{
    assert forall|x: CronEvent| s.contains(x) implies #[trigger] s.push(a).contains(x) by {
        let i = choose|i: int| 0 <= i < s.len() && s[i] == x;
        assert(s.push(a)[i] == x);
    }
    assert(s.push(a)[s.len() as int] == a);
}
pub open spec fn key_inj() -> bool { forall|a: ChainEpoch, b: ChainEpoch| #[trigger] epoch_key_spec(a) == #[trigger] epoch_key_spec(b) ==> a == b }

// ---- phase 1: collect the due events of miners that still hold a claim, and clear those epochs from the queue
//@ fn actors/power/src/lib.rs Actor::process_deferred_cron_events closure=0 as=pdce_tx0 params="st: &mut State, rt: &mut Rt, rt_epoch: ChainEpoch, cron_events: &mut Vec<CronEvent>" retty="Result<(), ActorError>" derefs=cron_events r20
    requires
        old(cron_events)@.len() == 0, rt_epoch < i64::MAX,
        // cron runs every epoch, so the scan window is never empty (also: vstd specifies `a..=b` only for a <= b)
        old(st).first_cron_epoch <= rt_epoch,
    ensures
        *final(rt) == *old(rt),
        vx_store_ok() ==> r.is_ok(),
        r.is_ok() ==> ({
            let q0 = queue_of(*old(st));
            let q1 = queue_of(*final(st));
            let first = old(st).first_cron_epoch;
            // the scan window moves past the current epoch; nothing else in the state changes
            &&& *final(st) == (State { first_cron_epoch: (rt_epoch + 1) as ChainEpoch, cron_event_queue: final(st).cron_event_queue, ..*old(st) })
            // every collected event was due (epoch in first..=now) and belongs to a miner with a claim
            &&& (forall|i: int| 0 <= i < final(cron_events)@.len() ==> due(q0, first, rt_epoch, #[trigger] final(cron_events)@[i])
                    && claims_of(*old(st)).dom().contains(final(cron_events)@[i].miner_addr))
            // every due event of a miner with a claim was collected: no callback is skipped
            &&& (forall|e: ChainEpoch, j: int| first <= e <= rt_epoch && 0 <= j < mm_get(q0, epoch_key_spec(e)).len()
                    && claims_of(*old(st)).dom().contains((#[trigger] mm_get(q0, epoch_key_spec(e))[j]).miner_addr)
                    ==> final(cron_events)@.contains(mm_get(q0, epoch_key_spec(e))[j]))
            // the processed epochs are cleared, later ones are untouched
            &&& (forall|e: ChainEpoch| first <= e <= rt_epoch ==> mm_get(q1, #[trigger] epoch_key_spec(e)).len() == 0)
            &&& (forall|e: ChainEpoch| e > rt_epoch ==> mm_get(q1, #[trigger] epoch_key_spec(e)) == mm_get(q0, epoch_key_spec(e)))
        }),
//@ entry
        proof { axiom_epoch_key_injective(); }
//@ before "push (evt)"
                        proof { lemma_push_contains(cron_events@, evt); }
//@ loop 0 iter=it0
            invariant
                key_inj(), *rt == *old(rt), *st == *old(st), claims.view() == claims_of(*st), rt_epoch < i64::MAX,
                it0.index@ <= it0.seq().len(),
                st.first_cron_epoch <= rt_epoch, it0.seq().len() == rt_epoch - st.first_cron_epoch + 1,
                forall|i: int| 0 <= i < it0.seq().len() ==> it0.seq()[i] == st.first_cron_epoch + i,
                forall|i: int| 0 <= i < cron_events@.len() ==> due(queue_of(*st), st.first_cron_epoch, rt_epoch, #[trigger] cron_events@[i])
                    && claims.view().dom().contains(cron_events@[i].miner_addr),
                forall|e: ChainEpoch, j: int| st.first_cron_epoch <= e < st.first_cron_epoch + it0.index@ && 0 <= j < mm_get(queue_of(*st), epoch_key_spec(e)).len()
                    && claims.view().dom().contains((#[trigger] mm_get(queue_of(*st), epoch_key_spec(e))[j]).miner_addr)
                    ==> cron_events@.contains(mm_get(queue_of(*st), epoch_key_spec(e))[j]),
                forall|e: ChainEpoch| st.first_cron_epoch <= e < st.first_cron_epoch + it0.index@ ==> mm_get(events.view(), #[trigger] epoch_key_spec(e)).len() == 0,
                forall|e: ChainEpoch| e >= st.first_cron_epoch + it0.index@ ==> mm_get(events.view(), #[trigger] epoch_key_spec(e)) == mm_get(queue_of(*st), epoch_key_spec(e)),
//@ loop 1 iter=it1
                invariant
                    key_inj(), *rt == *old(rt), *st == *old(st), claims.view() == claims_of(*st), rt_epoch < i64::MAX,
                    st.first_cron_epoch <= epoch <= rt_epoch,
                    it1.seq() == mm_get(queue_of(*st), epoch_key_spec(epoch)), it1.index@ <= it1.seq().len(),
                    forall|i: int| 0 <= i < cron_events@.len() ==> due(queue_of(*st), st.first_cron_epoch, rt_epoch, #[trigger] cron_events@[i])
                        && claims.view().dom().contains(cron_events@[i].miner_addr),
                    forall|e: ChainEpoch, j: int| st.first_cron_epoch <= e < epoch && 0 <= j < mm_get(queue_of(*st), epoch_key_spec(e)).len()
                        && claims.view().dom().contains((#[trigger] mm_get(queue_of(*st), epoch_key_spec(e))[j]).miner_addr)
                        ==> cron_events@.contains(mm_get(queue_of(*st), epoch_key_spec(e))[j]),
                    forall|j: int| 0 <= j < it1.index@ && claims.view().dom().contains((#[trigger] it1.seq()[j]).miner_addr) ==> cron_events@.contains(it1.seq()[j]),
//@ end

// ---- phase 3: miners whose callback failed lose their claim ("removal of miner power"); errors here are swallowed too
pub open spec fn pw_bounds(s: State) -> bool { 0 <= s.miner_above_min_power_count < i64::MAX - 0x1_0000_0000 && s.miner_count > i64::MIN + 0x1_0000_0000 }
//@ fn actors/power/src/lib.rs Actor::process_deferred_cron_events closure=1 as=pdce_tx1 params="st: &mut State, rt: &mut Rt, failed_miner_crons: Vec<Address>" retty="Result<(), ActorError>" r20
    requires pw_bounds(*old(st)), failed_miner_crons@.len() < 0x1_0000_0000,
    ensures
        *final(rt) == *old(rt),
        vx_store_ok() ==> r.is_ok(),
        r.is_ok() ==> ({
            let c0 = claims_of(*old(st));
            let c1 = claims_of(*final(st));
            // claims of miners whose callback did not fail are untouched
            &&& (forall|a: Address| !failed_miner_crons@.contains(a) ==> (#[trigger] c1.dom().contains(a) == c0.dom().contains(a)) && (c1.dom().contains(a) ==> c1[a] == c0[a]))
            &&& final(st).cron_event_queue == old(st).cron_event_queue && final(st).first_cron_epoch == old(st).first_cron_epoch
            &&& final(st).total_pledge_collateral == old(st).total_pledge_collateral
        }),
//@ loop 0 iter=it
            invariant
                *rt == *old(rt), it.seq() == failed_miner_crons@, it.index@ <= it.seq().len(), it.seq().len() < 0x1_0000_0000,
                -it.index@ <= st.miner_above_min_power_count < i64::MAX - 0x1_0000_0000 + it.index@, st.miner_count > i64::MIN + 0x1_0000_0000 - it.index@,
                st.cron_event_queue == old(st).cron_event_queue && st.first_cron_epoch == old(st).first_cron_epoch && st.total_pledge_collateral == old(st).total_pledge_collateral,
                st.claims == old(st).claims,
                forall|a: Address| !failed_miner_crons@.contains(a) ==> (#[trigger] claims.view().dom().contains(a) == claims_of(*old(st)).dom().contains(a))
                    && (claims.view().dom().contains(a) ==> claims.view()[a] == claims_of(*old(st))[a]),
//@ end

// ---- the whole step
pub open spec fn cron_send_ok(m: SendRec, ev: CronEvent) -> bool {
    m.to == ev.miner_addr && m.method == ext::miner::ON_DEFERRED_CRON_EVENT_METHOD && m.value == 0
}
//@ fn actors/power/src/lib.rs Actor::process_deferred_cron_events free tx0="State;pdce_tx0;&mut __vx_st, rt, rt_epoch, &mut cron_events" tx1="State;pdce_tx1;&mut __vx_st, rt, failed_miner_crons"
    requires
        !old(rt).in_tx@, old(rt).epoch < i64::MAX,
        rt_state::<State>(old(rt).state_id@).first_cron_epoch <= old(rt).epoch,
        // representation bounds of the counters hold in every committed power state (the callbacks re-enter this actor)
        forall|id: int| pw_bounds(#[trigger] rt_state::<State>(id)),
    ensures
        // "the end-of-epoch cron tick and every callback it dispatches ... succeed": no callback outcome can make this step fail
        vx_store_ok() && !old(rt).read_only ==> r.is_ok(),
        r.is_ok() ==> final(rt).tx_log@.len() >= old(rt).tx_log@.len() + 1 && final(rt).sends@.len() >= old(rt).sends@.len() && ({
            let s0 = rt_state::<State>(old(rt).state_id@);
            let s1 = rt_state::<State>(final(rt).tx_log@[old(rt).tx_log@.len() as int]);
            let n0 = old(rt).sends@.len() as int;
            // the scan window moves on, the processed epochs leave the queue
            &&& s1.first_cron_epoch == old(rt).epoch + 1
            &&& (forall|e: ChainEpoch| s0.first_cron_epoch <= e <= old(rt).epoch ==> mm_get(queue_of(s1), #[trigger] epoch_key_spec(e)).len() == 0)
            // only callbacks of miners holding a claim are dispatched, as OnDeferredCronEvent with no value; earlier sends are untouched
            &&& (forall|j: int| 0 <= j < n0 ==> final(rt).sends@[j] == old(rt).sends@[j])
            &&& (forall|j: int| n0 <= j < final(rt).sends@.len() ==> (#[trigger] final(rt).sends@[j]).method == ext::miner::ON_DEFERRED_CRON_EVENT_METHOD && final(rt).sends@[j].value == 0
                    && claims_of(s0).dom().contains(final(rt).sends@[j].to))
            // every due event of a miner with a claim is dispatched: nobody's proving-deadline callback is skipped
            &&& (forall|e: ChainEpoch, j: int| s0.first_cron_epoch <= e <= old(rt).epoch && 0 <= j < mm_get(queue_of(s0), epoch_key_spec(e)).len()
                    && claims_of(s0).dom().contains((#[trigger] mm_get(queue_of(s0), epoch_key_spec(e))[j]).miner_addr)
                    ==> exists|k: int| n0 <= k < final(rt).sends@.len() && (#[trigger] final(rt).sends@[k]).to == mm_get(queue_of(s0), epoch_key_spec(e))[j].miner_addr)
        }),
//@ before "let mut failed_miner_crons"
        let ghost n_sends0 = rt.sends@.len() as int;
        let ghost tx0_id = rt.tx_log@.last();
        let ghost evs = cron_events@;
        proof { axiom_vec_len_wasm32(&cron_events); }
//@ before "if ! failed_miner_crons . is_empty ()"
        proof {
            assert(rt.sends@.len() == n_sends0 + evs.len());
            assert forall|j: int| n_sends0 <= j < rt.sends@.len() implies cron_send_ok(#[trigger] rt.sends@[j], evs[j - n_sends0]) by {
                let jj = j - n_sends0;
                assert(cron_send_ok(rt.sends@[n_sends0 + jj], evs[jj]));
            }
            assert forall|x: CronEvent| evs.contains(x) implies exists|k: int| n_sends0 <= k < rt.sends@.len() && (#[trigger] rt.sends@[k]).to == x.miner_addr by {
                let i = choose|i: int| 0 <= i < evs.len() && evs[i] == x;
                assert(cron_send_ok(rt.sends@[n_sends0 + i], evs[i]));
            }
        }
//@ loop 0 iter=it
            invariant
                !rt.in_tx@, rt.read_only == old(rt).read_only, rt.epoch == old(rt).epoch, it.index@ <= it.seq().len(), it.seq() == evs,
                rt.tx_log@.len() == old(rt).tx_log@.len() + 1, rt.tx_log@[old(rt).tx_log@.len() as int] == tx0_id,
                n_sends0 == old(rt).sends@.len(), rt.sends@.len() == n_sends0 + it.index@,
                forall|j: int| 0 <= j < n_sends0 ==> rt.sends@[j] == old(rt).sends@[j],
                forall|j: int| 0 <= j < it.index@ ==> cron_send_ok(#[trigger] rt.sends@[n_sends0 + j], it.seq()[j]),
                forall|id: int| pw_bounds(#[trigger] rt_state::<State>(id)),
                failed_miner_crons@.len() <= it.index@, it.seq().len() < 0x1_0000_0000,
//@ end

// ======================= OnEpochTickEnd (C05, C02) =======================
//@ fn actors/power/src/lib.rs Actor::on_epoch_tick_end closure=0 as=oete_tx0 params="st: &mut State, rt: &mut Rt" retty="Result<Option<IpldBlock>, ActorError>"
    ensures
        *final(rt) == *old(rt),
        vx_store_ok() ==> r.is_ok(),
        // the per-epoch snapshot is the current total under the consensus-minimum rule, and the current pledge total
        r.is_ok() ==> final(st).this_epoch_pledge_collateral@ == old(st).total_pledge_collateral@
            && (old(st).miner_above_min_power_count < 4 ==> final(st).this_epoch_raw_byte_power@ == old(st).total_bytes_committed@ && final(st).this_epoch_quality_adj_power@ == old(st).total_qa_bytes_committed@)
            && (old(st).miner_above_min_power_count >= 4 ==> final(st).this_epoch_raw_byte_power@ == old(st).total_raw_byte_power@ && final(st).this_epoch_quality_adj_power@ == old(st).total_quality_adj_power@)
            && final(st).claims == old(st).claims && final(st).cron_event_queue == old(st).cron_event_queue && final(st).first_cron_epoch == old(st).first_cron_epoch
            && final(st).total_pledge_collateral == old(st).total_pledge_collateral,
//@ end
//@ fn actors/power/src/lib.rs Actor::on_epoch_tick_end free tx0="State;oete_tx0;&mut __vx_st, rt" sub0="Self :: process_deferred_cron_events=>process_deferred_cron_events" sub1="ext :: reward :: Method :: ThisEpochReward as MethodNum=>ext::reward::THIS_EPOCH_REWARD_METHOD"
    requires
        !old(rt).in_tx@, old(rt).sends@.len() == 0, old(rt).validated@.is_none(), old(rt).epoch < i64::MAX,
        forall|id: int| pw_bounds(#[trigger] rt_state::<State>(id)),
        // cron runs every epoch: the scan window of every committed state ends at or before the current epoch
        forall|id: int| (#[trigger] rt_state::<State>(id)).first_cron_epoch <= old(rt).epoch,
    ensures
        /*C11*/ r.is_ok() ==> old(rt).msg.caller == CRON_ACTOR_ADDR,
        // the tick can fail only if the store does, the activation is read-only, the caller is not cron, or the reward actor's two calls fail:
        // never because of a miner callback
        (vx_store_ok() && !old(rt).read_only && old(rt).msg.caller == CRON_ACTOR_ADDR && final(rt).sends@.len() >= 1 && final(rt).sends@[0].ok
            && deser_ok::<ThisEpochRewardReturn>(final(rt).sends@[0].ret) && (final(rt).sends@.len() >= 2 ==> final(rt).sends@.last().ok || final(rt).sends@.last().to != REWARD_ACTOR_ADDR)) ==> r.is_ok(),
        r.is_ok() ==> final(rt).sends@.len() >= 2 && final(rt).sends@[0].to == REWARD_ACTOR_ADDR && final(rt).sends@.last().to == REWARD_ACTOR_ADDR
            && final(rt).sends@.last().method == ext::reward::UPDATE_NETWORK_KPI,
//@ end
} // verus!
fn main() {}
