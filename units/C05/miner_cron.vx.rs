// unit: miner proving-deadline cron callback — handle_proving_deadline composes the deadline step, the fees and the notifications (C05, C15, C03, C02)
//@ include prelude/core.rs
//@ include prelude/ipld.rs
//@ include prelude/bitfield.rs
//@ include prelude/rt.rs
//@ include prelude/singletons.rs
//@ include prelude/policy.rs
//@ include prelude/cbor.rs
verus! {
//@ item actors/miner/src/policy.rs VestSpec
//@ item runtime/src/builtin/reward/smooth/alpha_beta_filter.rs FilterEstimate
}
//@ include prelude/miner_vesting.rs
//@ include prelude/miner_ext.rs
use std::cmp;
use std::ops;
macro_rules! log_debug { ($($t:tt)*) => { () } }
macro_rules! info { ($($t:tt)*) => { () } }
verus! {
//@ include units/shared/miner_funds.inc
//@ include units/shared/miner_methods.inc
//@ include units/shared/miner_deadline.inc
//@ include prelude/miner_cron_assumed.rs
//@ item actors/miner/src/types.rs CronEventPayload
//@ const actors/miner/src/types.rs CRON_EVENT_PROVING_DEADLINE
//@ const actors/miner/src/types.rs CRON_EVENT_PROCESS_EARLY_TERMINATIONS
pub type CronEvent = i64;

pub open spec fn is_power_update(s: SendRec) -> bool { s.to == STORAGE_POWER_ACTOR_ADDR && s.method == ext::power::UPDATE_CLAIMED_POWER_METHOD }
pub open spec fn is_cron_enrol(s: SendRec) -> bool { s.to == STORAGE_POWER_ACTOR_ADDR && s.method == ext::power::ENROLL_CRON_EVENT_METHOD }

//@ fn actors/miner/src/lib.rs request_update_power
    requires !old(rt).in_tx@,
    ensures
        // the power actor is told exactly this delta (nothing when it is zero); the call fails iff the power actor refuses
        delta.raw@ == 0 && delta.qa@ == 0 ==> r.is_ok() && *final(rt) == *old(rt),
        !(delta.raw@ == 0 && delta.qa@ == 0) ==> rt_frame(old(rt), final(rt)) && final(rt).sends@.len() <= old(rt).sends@.len() + 1
            && (forall|i: int| 0 <= i < old(rt).sends@.len() ==> final(rt).sends@[i] == old(rt).sends@[i]),
        !(delta.raw@ == 0 && delta.qa@ == 0) && r.is_ok() ==> rt_pushed(old(rt), final(rt)) && is_power_update(final(rt).sends@.last()) && final(rt).sends@.last().ok
            && final(rt).sends@.last().value == 0
            && exists|p: ext::power::UpdateClaimedPowerParams| final(rt).sends@.last().params == Some(IpldBlock { h: #[trigger] cbor_hash(p) })
                && p.raw_byte_delta@ == delta.raw@ && p.quality_adjusted_delta@ == delta.qa@,
//@ end
//@ fn actors/miner/src/lib.rs enroll_cron_event
    requires !old(rt).in_tx@,
    ensures
        rt_frame(old(rt), final(rt)), old(rt).sends@.len() <= final(rt).sends@.len() <= old(rt).sends@.len() + 1,
        forall|i: int| 0 <= i < old(rt).sends@.len() ==> final(rt).sends@[i] == old(rt).sends@[i],
        r.is_ok() ==> rt_pushed(old(rt), final(rt)) && is_cron_enrol(final(rt).sends@.last()) && final(rt).sends@.last().ok && final(rt).sends@.last().value == 0
            && exists|p: ext::power::EnrollCronEventParams| final(rt).sends@.last().params == Some(IpldBlock { h: #[trigger] cbor_hash(p) })
                && p.event_epoch == event_epoch && p.payload.h == cbor_hash(cb),
//@ end
//@ fn actors/miner/src/lib.rs have_pending_early_terminations
    ensures r == !(state.early_terminations@ =~= vstd::set::Set::<u64>::empty()),
//@ end

// ======================= handle_proving_deadline: the transaction closure =======================
//@ fn actors/miner/src/lib.rs handle_proving_deadline closure=0 as=hpd_tx0 params="state: &mut State, rt: &mut Rt, reward_smoothed: &FilterEstimate, quality_adj_power_smoothed: &FilterEstimate, had_early_terminations: &mut bool, power_delta_total: &mut PowerPair, penalty_total: &mut TokenAmount, pledge_delta_total: &mut TokenAmount, continue_cron: &mut bool" retty="Result<State, ActorError>" derefs=had_early_terminations,power_delta_total,penalty_total,pledge_delta_total,continue_cron suball0="log :: debug !=>log_debug !" sub2="fil_actors_runtime :: EPOCHS_IN_DAY=>EPOCHS_IN_DAY_VX"
    requires
        st_wf(*old(state)), pol_ok(rt_policy()), small(old(state).proving_period_start as int), 0 <= old(rt).epoch < 0x1000_0000_0000_0000,
        deadlines_of(*old(state)).is_some() ==> deadlines_of(*old(state))->Some_0.due@.len() == rt_policy().wpost_period_deadlines,
        old(power_delta_total).raw@ == 0 && old(power_delta_total).qa@ == 0, old(pledge_delta_total)@ == 0,
    ensures
        *final(rt) == *old(rt),
        r.is_ok() ==> ({
            let s0 = *old(state);
            let s1 = *final(state);
            let di = di_at(rt_policy(), s0.proving_period_start, old(rt).epoch);
            &&& r->Ok_0 == s1 && st_wf(s1)
            &&& (old(rt).epoch < 0x0800_0000_0000_0000 ==> small(s1.proving_period_start as int))
            &&& s1.deadlines == s1.deadlines
            // "after each tick its recorded deadline is the one containing the next epoch": the cursor moves to the next deadline
            &&& di.open <= old(rt).epoch < di.close && s1.current_deadline == (di.index + 1) % (rt_policy().wpost_period_deadlines as int)
            &&& s1.proving_period_start == (if (di.index + 1) % (rt_policy().wpost_period_deadlines as int) == 0 { di.period_start + rt_policy().wpost_proving_period } else { s0.proving_period_start as int })
            &&& *final(had_early_terminations) == !(s0.early_terminations@ =~= vstd::set::Set::<u64>::empty())
            // C15/C01: what is burnt now is non-negative and never more than the unlocked balance; the rest stays fee debt
            &&& final(penalty_total)@ >= 0 && final(penalty_total)@ <= unlocked(s1, old(rt).balance@) && s1.fee_debt@ >= 0
            // C03: the pledge delta reported to the power actor is exactly the change of vesting funds + initial pledge
            &&& final(pledge_delta_total)@ == (s1.locked_funds@ + s1.initial_pledge@) - (s0.locked_funds@ + s0.initial_pledge@)
            // C05: the callback is kept alive exactly while the miner still has deposits, pledge or vesting funds
            &&& *final(continue_cron) == (s1.pre_commit_deposits@ != 0 || s1.initial_pledge@ != 0 || s1.locked_funds@ != 0)
            &&& (!*final(continue_cron) ==> !s1.deadline_cron_active) && (*final(continue_cron) ==> s1.deadline_cron_active == s0.deadline_cron_active)
        }),
//@ end

// ======================= handle_proving_deadline: the whole callback =======================
//@ fn actors/miner/src/lib.rs schedule_early_termination_work sub0="info !=>info !"
    requires !old(rt).in_tx@, old(rt).epoch < i64::MAX,
    ensures
        rt_frame(old(rt), final(rt)), old(rt).sends@.len() <= final(rt).sends@.len() <= old(rt).sends@.len() + 1,
        forall|i: int| 0 <= i < old(rt).sends@.len() ==> final(rt).sends@[i] == old(rt).sends@[i],
//@ end
pub open spec fn proving_enrol(m: SendRec, epoch: int) -> bool {
    is_cron_enrol(m) && m.ok && exists|p: ext::power::EnrollCronEventParams| m.params == Some(IpldBlock { h: #[trigger] cbor_hash(p) })
        && p.event_epoch == epoch && p.payload.h == cbor_hash(CronEventPayload { event_type: CRON_EVENT_PROVING_DEADLINE })
}
//@ fn actors/miner/src/lib.rs handle_proving_deadline tx0="State;hpd_tx0;&mut __vx_st, rt, reward_smoothed, quality_adj_power_smoothed, &mut had_early_terminations, &mut power_delta_total, &mut penalty_total, &mut pledge_delta_total, &mut continue_cron" suball0="info !=>info !"
    requires
        !old(rt).in_tx@, old(rt).tx_log@.len() == 0, old(rt).sends@.len() == 0,
        st_wf(rt_state::<State>(old(rt).state_id@)), pol_ok(rt_policy()), small(rt_state::<State>(old(rt).state_id@).proving_period_start as int),
        0 <= old(rt).epoch < 0x0800_0000_0000_0000,
        deadlines_of(rt_state::<State>(old(rt).state_id@)).is_some() ==> deadlines_of(rt_state::<State>(old(rt).state_id@))->Some_0.due@.len() == rt_policy().wpost_period_deadlines,
    ensures
        r.is_ok() ==> final(rt).tx_log@.len() >= 1 && ({
            let s0 = rt_state::<State>(old(rt).state_id@);
            let s1 = rt_state::<State>(final(rt).tx_log@[0]);
            let di = di_at(rt_policy(), s0.proving_period_start, old(rt).epoch);
            let delta = (s1.locked_funds@ + s1.initial_pledge@) - (s0.locked_funds@ + s0.initial_pledge@);
            let keep = s1.pre_commit_deposits@ != 0 || s1.initial_pledge@ != 0 || s1.locked_funds@ != 0;
            let s = final(rt).sends@;
            &&& st_wf(s1)
            // "after each tick its recorded deadline is the one containing the next epoch"
            &&& di.open <= old(rt).epoch < di.close && s1.current_deadline == (di.index + 1) % (rt_policy().wpost_period_deadlines as int)
            // "while a miner has sectors, deposits or vesting funds it has exactly one pending proving-deadline callback":
            // the callback re-enrols itself — for the last epoch of the deadline that contains the next epoch — exactly while funds remain
            &&& (keep ==> exists|k: int| 0 <= k < s.len() && proving_enrol(#[trigger] s[k], di_at(rt_policy(), s1.proving_period_start, (old(rt).epoch + 1) as ChainEpoch).close - 1))
            &&& (!keep ==> !s1.deadline_cron_active)
            // C03: the power actor is told exactly the change of vesting funds + initial pledge
            &&& (delta != 0 ==> exists|k: int| 0 <= k < s.len() && is_pledge_note(#[trigger] s[k]) && s[k].ok
                    && exists|d: TokenAmount| s[k].params == Some(IpldBlock { h: #[trigger] cbor_hash(d) }) && d@ == delta)
        }),
//@ after "notify_pledge_changed (rt , & pledge_delta_total)"
        let ghost n_note = rt.sends@.len() as int;
        let ghost s_note = rt.sends@;
//@ before "let has_early_terminations"
        let ghost n1 = rt.sends@.len() as int;
        let ghost s_mid = rt.sends@;
        proof {
            assert(forall|i: int| 0 <= i < n_note ==> s_mid[i] == s_note[i]);
            if pledge_delta_total@ != 0 { assert(n_note >= 1 && is_pledge_note(s_mid[n_note - 1]) && s_mid[n_note - 1].ok); }
            if continue_cron { assert(proving_enrol(s_mid[n1 - 1], di_at(rt_policy(), state.proving_period_start, (curr_epoch + 1) as ChainEpoch).close - 1)); }
        }
//@ before "Ok (())"
        proof {
            assert(forall|i: int| 0 <= i < n1 ==> rt.sends@[i] == s_mid[i]);
            let s1g = rt_state::<State>(rt.tx_log@[0]);
            assert(s1g == state);
            assert(rt.sends@.len() >= n1 && n1 >= n_note);
            if pledge_delta_total@ != 0 {
                let k = n_note - 1;
                assert(0 <= k < rt.sends@.len());
                assert(is_pledge_note(rt.sends@[k]) && rt.sends@[k].ok);
                assert(rt.sends@[k].params == Some(IpldBlock { h: cbor_hash(pledge_delta_total) }));
                assert(exists|d: TokenAmount| rt.sends@[k].params == Some(IpldBlock { h: #[trigger] cbor_hash(d) }) && d@ == pledge_delta_total@);
                assert(exists|kk: int| 0 <= kk < rt.sends@.len() && is_pledge_note(#[trigger] rt.sends@[kk]) && rt.sends@[kk].ok
                    && exists|d: TokenAmount| rt.sends@[kk].params == Some(IpldBlock { h: #[trigger] cbor_hash(d) }) && d@ == pledge_delta_total@);
            }
            if continue_cron {
                let e = di_at(rt_policy(), s1g.proving_period_start, (curr_epoch + 1) as ChainEpoch).close - 1;
                assert(0 <= n1 - 1 < rt.sends@.len());
                assert(proving_enrol(rt.sends@[n1 - 1], e));
                assert(exists|kk: int| 0 <= kk < rt.sends@.len() && proving_enrol(#[trigger] rt.sends@[kk], e));
            }
        }
//@ end
// ======================= on_deferred_cron_event: the miner's cron callback as the power actor invokes it =======================
//@ item actors/miner/src/types.rs DeferredCronEventParams
//@ include prelude/miner_cron_payload.rs
//@ fn actors/miner/src/lib.rs Actor::on_deferred_cron_event free ret=res
    requires
        !old(rt).in_tx@, old(rt).tx_log@.len() == 0, old(rt).sends@.len() == 0,
        st_wf(rt_state::<State>(old(rt).state_id@)), pol_ok(rt_policy()), small(rt_state::<State>(old(rt).state_id@).proving_period_start as int),
        0 <= old(rt).epoch < 0x0800_0000_0000_0000,
        deadlines_of(rt_state::<State>(old(rt).state_id@)).is_some() ==> deadlines_of(rt_state::<State>(old(rt).state_id@))->Some_0.due@.len() == rt_policy().wpost_period_deadlines,
    ensures
        // only the power actor's cron may call it
        /*C11*/ /*C05*/ res.is_ok() ==> old(rt).msg.caller == STORAGE_POWER_ACTOR_ADDR,
        // a successful callback leaves the miner solvent: the balance covers pre-commit deposits + vesting funds + initial pledge
        /*C01*/ /*C05*/ res.is_ok() ==> st_solvent(rt_state::<State>(final(rt).state_id@), final(rt).balance@),
//@ end
} // verus!
fn main() {}
