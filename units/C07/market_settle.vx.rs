// unit: market deal settlement — the caller protocol around State::process_deal_update / process_slashed_deal (C07):
//   SettleDealPayments (transaction closure + whole method), OnMinerSectorsTerminate (closure + whole method), and the
//   per-deal loop of CronTick (R21 region, nothing sliced away). What the contracts say, in one line each:
//   * a settled deal that goes on is written back with ONLY last_updated_epoch changed, to exactly the current epoch;
//   * the state handed to the payment helper is the one stored under the id, with the proposal stored under the same id;
//   * a finished / terminated deal loses state and proposal together and leaves (or is queued to leave) the sector index;
//   * a deal marked for termination is never settled by SettleDealPayments; failing entries leave the deal state alone;
//   * summaries carry the helper's amounts; the burn after the transaction is exactly the accumulated penalties.
// State helpers are re-contracted here (copied from units/shared/market_state.inc, strengthened for error-swallowing callers).
//@ include prelude/core.rs
//@ include prelude/ipld.rs
//@ include prelude/rt.rs
//@ include prelude/singletons.rs
//@ include prelude/bitfield.rs
//@ include prelude/batch.rs
//@ include prelude/policy.rs
use std::cmp::{max, min};
use std::collections::BTreeMap;
verus! {
//@ include units/shared/balance_table.inc
//@ include units/shared/set.inc

pub struct PaddedPieceSize(pub u64);
pub type AllocationID = u64;
//@ item actors/market/src/deal.rs Label
//@ item actors/market/src/deal.rs DealProposal
//@ item actors/market/src/deal.rs DealState attr="#[derive(Clone, Copy)]"
//@ item actors/market/src/state.rs Reason
//@ item actors/market/src/state.rs State
//@ item actors/market/src/state.rs PendingProposalsSet
//@ item actors/market/src/state.rs LoadDealState
//@ item actors/market/src/types.rs SettleDealPaymentsParams
//@ item actors/market/src/types.rs SettleDealPaymentsReturn
//@ item actors/market/src/types.rs DealSettlementSummary
//@ const actors/market/src/state.rs PENDING_PROPOSALS_CONFIG
//@ const runtime/src/builtin/shared.rs FIRST_ACTOR_SPECIFIC_EXIT_CODE
//@ const actors/market/src/lib.rs EX_DEAL_EXPIRED
pub type DealArray<'bs, BS> = Array<DealProposal, &'bs BS>;
pub type DealMetaArray<'bs, BS> = Array<DealState, &'bs BS>;
pub type PendingDealAllocationsMap<BS> = Map2<BS, DealID, AllocationID>;
pub const PENDING_ALLOCATIONS_CONFIG: Config = DEFAULT_HAMT_CONFIG;

// ======================= spec (same definitions as units/shared/market_state.inc) =======================
pub open spec fn esc(s: State) -> Map<Address, TokenAmount> { map2_decode::<Address, TokenAmount>(s.escrow_table) }
pub open spec fn lck(s: State) -> Map<Address, TokenAmount> { map2_decode::<Address, TokenAmount>(s.locked_table) }
pub open spec fn pend(s: State) -> vstd::set::Set<Cid> { map2_decode::<Cid, ()>(s.pending_proposals).dom() }
pub open spec fn props_m(s: State) -> Map<u64, DealProposal> { array_decode::<DealProposal>(s.proposals) }
pub open spec fn dstates_m(s: State) -> Map<u64, DealState> { array_decode::<DealState>(s.states) }
/// both balance tables are well formed (no negative entry)
pub open spec fn wf2(s: State) -> bool { bt_wf(esc(s)) && bt_wf(lck(s)) }
/// per-participant escrow invariant of C06: 0 <= locked[a] <= escrow[a]
pub open spec fn jinv(s: State) -> bool { jinv_t(s.escrow_table, s.locked_table) }
/// (the same, as a predicate of the two table roots: callers that only pass the invariant along hide this definition)
pub open spec fn jinv_t(e: Cid, l: Cid) -> bool {
    let em = map2_decode::<Address, TokenAmount>(e);
    let lm = map2_decode::<Address, TokenAmount>(l);
    &&& bt_wf(em)
    &&& bt_wf(lm)
    &&& forall|a: Address| #[trigger] bal(lm, a) <= bal(em, a)
}
pub open spec fn d2(k: Address, a1: Address, x1: int, a2: Address, x2: int) -> int {
    (if k == a1 { x1 } else { 0 }) + (if k == a2 { x2 } else { 0 })
}
pub open spec fn moved(m1: Map<Address, TokenAmount>, m2: Map<Address, TokenAmount>, a1: Address, x1: int, a2: Address, x2: int) -> bool {
    forall|k: Address| #[trigger] bal(m2, k) == bal(m1, k) + d2(k, a1, x1, a2, x2)
}
pub open spec fn rest_eq(a: State, b: State) -> bool {
    &&& a.proposals == b.proposals
    &&& a.states == b.states
    &&& a.next_id == b.next_id
    &&& a.deal_ops_by_epoch == b.deal_ops_by_epoch
    &&& a.last_cron == b.last_cron
    &&& a.pending_deal_allocation_ids == b.pending_deal_allocation_ids
    &&& a.provider_sectors == b.provider_sectors
}
pub open spec fn totals_eq(a: State, b: State) -> bool {
    &&& a.total_client_locked_collateral@ == b.total_client_locked_collateral@
    &&& a.total_provider_locked_collateral@ == b.total_provider_locked_collateral@
    &&& a.total_client_storage_fee@ == b.total_client_storage_fee@
}
pub open spec fn deal_wf(d: DealProposal) -> bool {
    &&& 0 <= d.start_epoch <= d.end_epoch
    &&& d.storage_price_per_epoch@ >= 0
    &&& d.provider_collateral@ >= 0
    &&& d.client_collateral@ >= 0
}
pub open spec fn fee(d: DealProposal) -> int { d.storage_price_per_epoch@ * (d.end_epoch - d.start_epoch) }
pub open spec fn imax(a: int, b: int) -> int { if a >= b { a } else { b } }
pub open spec fn imin(a: int, b: int) -> int { if a <= b { a } else { b } }
pub open spec fn clamp(d: DealProposal, e: int) -> int { imax(d.start_epoch as int, imin(d.end_epoch as int, e)) }
/// total owed to the provider for storage up to (not including) epoch e
pub open spec fn paid_upto(d: DealProposal, e: int) -> int { d.storage_price_per_epoch@ * (clamp(d, e) - d.start_epoch) }
/// effective "paid so far" marker of a deal state
pub open spec fn lu_eff(d: DealProposal, s: DealState) -> int { if s.last_updated_epoch == EPOCH_UNDEFINED { d.start_epoch as int } else { s.last_updated_epoch as int } }
pub open spec fn state_wf(s: DealState) -> bool {
    s.last_updated_epoch >= -1 && s.slash_epoch >= -1 && s.sector_start_epoch >= -1
}
pub proof fn lemma_pay_window(d: DealProposal, a: int, b: int)
    requires d.storage_price_per_epoch@ >= 0
    ensures
        paid_upto(d, a) - paid_upto(d, b) == d.storage_price_per_epoch@ * (clamp(d, a) - clamp(d, b)),
        a >= b ==> paid_upto(d, a) - paid_upto(d, b) >= 0,
{
    let p = d.storage_price_per_epoch@;
    let (x, y, s0) = (clamp(d, a), clamp(d, b), d.start_epoch as int);
    assert(p * (x - s0) - p * (y - s0) == p * (x - y)) by (nonlinear_arith);
    if a >= b {
        assert(x >= y);
        assert(p * (x - y) >= 0) by (nonlinear_arith) requires p >= 0, x >= y;
    }
}

// ======================= State helpers on the settlement path =======================
// Contracts copied from units/shared/market_state.inc and STRENGTHENED for callers that swallow errors (SettleDealPayments
// turns a helper's Err into a per-deal failure code and goes on): the precondition is reduced to well-formed tables (`wf2`,
// which every path re-establishes, also the failing ones), the C06 invariant `jinv` is carried as `jinv(old) ==> jinv(final)`
// where that is true, and the effect of an Err is stated.
//@ fn actors/market/src/deal.rs DealProposal::duration
    requires 0 <= self.start_epoch, 0 <= self.end_epoch,
    ensures r == self.end_epoch - self.start_epoch,
//@ end
//@ fn actors/market/src/deal.rs DealProposal::total_storage_fee
    requires deal_wf(*self),
    ensures r@ == fee(*self),
//@ end
//@ fn actors/market/src/deal.rs DealProposal::provider_balance_requirement
    ensures r@ == self.provider_collateral@,
//@ end
//@ fn actors/market/src/policy.rs collateral_penalty_for_deal_activation_missed
    ensures r@ == provider_collateral@,     // "burnt in full on ... missed activation"
//@ end


// ---- pending proposals (contracts as in units/shared/market_state.inc) ----
//@ fn actors/market/src/state.rs State::load_pending_deals
    ensures r.is_ok() ==> r->Ok_0.0.view().dom() == pend(*self),
//@ end
//@ fn actors/market/src/state.rs State::save_pending_deals
    ensures
        r.is_ok() ==> pend(*final(self)) == old(pending_deals).0.view().dom(),
        r.is_ok() ==> *final(self) == (State { pending_proposals: final(self).pending_proposals, ..*old(self) }),
        r.is_err() ==> *final(self) == *old(self),
//@ end
//@ fn actors/market/src/state.rs State::remove_pending_deal
    ensures
        r.is_ok() ==> pend(*final(self)) == pend(*old(self)).remove(pending_deal_key),
        r.is_ok() ==> (r->Ok_0.is_some() <==> pend(*old(self)).contains(pending_deal_key)),
        r.is_ok() ==> *final(self) == (State { pending_proposals: final(self).pending_proposals, ..*old(self) }),
        r.is_err() ==> *final(self) == *old(self),
//@ end

//@ fn actors/market/src/state.rs State::unlock_balance
    requires bt_wf(lck(*old(self))),
    ensures
        rest_eq(*old(self), *final(self)),
        final(self).escrow_table == old(self).escrow_table,
        final(self).pending_proposals == old(self).pending_proposals,
        bt_wf(lck(*final(self))),
        r.is_ok() ==> 0 <= amount@ <= bal(lck(*old(self)), *addr)
            && moved(lck(*old(self)), lck(*final(self)), *addr, -amount@, *addr, 0)
            && (jinv(*old(self)) ==> jinv(*final(self)))
            && final(self).total_client_locked_collateral@ == old(self).total_client_locked_collateral@ - (if lock_reason is ClientCollateral { amount@ } else { 0 })
            && final(self).total_client_storage_fee@ == old(self).total_client_storage_fee@ - (if lock_reason is ClientStorageFee { amount@ } else { 0 })
            && final(self).total_provider_locked_collateral@ == old(self).total_provider_locked_collateral@ - (if lock_reason is ProviderCollateral { amount@ } else { 0 }),
        // a failed unlock leaves both tables as they were (only a locked total may have been decremented)
        r.is_err() ==> final(self).locked_table == old(self).locked_table,
//@ end

//@ fn actors/market/src/state.rs State::transfer_balance
    requires wf2(*old(self)),
    ensures
        rest_eq(*old(self), *final(self)),
        final(self).pending_proposals == old(self).pending_proposals,
        wf2(*final(self)),
        jinv(*old(self)) ==> jinv(*final(self)),            // also when it fails half way (locked only ever shrinks before escrow moves)
        // funds move from the payer's locked escrow to the payee's free escrow, atto for atto
        r.is_ok() ==> 0 <= amount@ <= bal(lck(*old(self)), *from_addr),
        r.is_ok() ==> moved(esc(*old(self)), esc(*final(self)), *from_addr, -amount@, *to_addr, amount@),
        r.is_ok() ==> moved(lck(*old(self)), lck(*final(self)), *from_addr, -amount@, *from_addr, 0),
        r.is_ok() ==> final(self).total_client_storage_fee@ == old(self).total_client_storage_fee@ - amount@,
        r.is_ok() ==> final(self).total_client_locked_collateral@ == old(self).total_client_locked_collateral@,
        r.is_ok() ==> final(self).total_provider_locked_collateral@ == old(self).total_provider_locked_collateral@,
//@ end

//@ fn actors/market/src/state.rs State::slash_balance
    requires wf2(*old(self)),
    ensures
        rest_eq(*old(self), *final(self)),
        final(self).pending_proposals == old(self).pending_proposals,
        wf2(*final(self)),
        r.is_ok() ==> 0 <= amount@ <= bal(lck(*old(self)), *addr)
            && moved(esc(*old(self)), esc(*final(self)), *addr, -amount@, *addr, 0)
            && moved(lck(*old(self)), lck(*final(self)), *addr, -amount@, *addr, 0)
            && (jinv(*old(self)) ==> jinv(*final(self)))
            && final(self).total_client_locked_collateral@ == old(self).total_client_locked_collateral@ - (if lock_reason is ClientCollateral { amount@ } else { 0 })
            && final(self).total_client_storage_fee@ == old(self).total_client_storage_fee@ - (if lock_reason is ClientStorageFee { amount@ } else { 0 })
            && final(self).total_provider_locked_collateral@ == old(self).total_provider_locked_collateral@ - (if lock_reason is ProviderCollateral { amount@ } else { 0 }),
//@ end

//@ fn actors/market/src/state.rs deal_get_payment_remaining
    requires 0 <= deal.start_epoch, 0 <= deal.end_epoch, slash_epoch >= -1,
    ensures
        r.is_ok() <==> slash_epoch <= deal.end_epoch && deal.start_epoch <= deal.end_epoch,
        r.is_ok() ==> r->Ok_0@ == deal.storage_price_per_epoch@ * (deal.end_epoch - imax(slash_epoch as int, deal.start_epoch as int)),
//@ end

//@ fn actors/market/src/state.rs State::process_deal_expired
    requires wf2(*old(self)),
    ensures
        rest_eq(*old(self), *final(self)),
        final(self).escrow_table == old(self).escrow_table,
        final(self).pending_proposals == old(self).pending_proposals,
        wf2(*final(self)),
        jinv(*old(self)) ==> jinv(*final(self)),            // only unlocks: holds on every path
        // both collaterals are released, nothing else moves
        r.is_ok() ==> moved(lck(*old(self)), lck(*final(self)), deal.provider, -deal.provider_collateral@, deal.client, -deal.client_collateral@),
        r.is_ok() ==> final(self).total_provider_locked_collateral@ == old(self).total_provider_locked_collateral@ - deal.provider_collateral@,
        r.is_ok() ==> final(self).total_client_locked_collateral@ == old(self).total_client_locked_collateral@ - deal.client_collateral@,
        r.is_ok() ==> final(self).total_client_storage_fee@ == old(self).total_client_storage_fee@,
        r.is_ok() ==> state.sector_start_epoch != EPOCH_UNDEFINED,
//@ end

//@ fn actors/market/src/state.rs State::process_deal_init_timed_out
    requires wf2(*old(self)), deal_wf(*deal),
    ensures
        rest_eq(*old(self), *final(self)),
        final(self).pending_proposals == old(self).pending_proposals,
        wf2(*final(self)),
        // missed activation: provider collateral burnt in full, client fully refunded (fee and collateral unlocked)
        r.is_ok() ==> r->Ok_0@ == deal.provider_collateral@,
        r.is_ok() ==> moved(esc(*old(self)), esc(*final(self)), deal.provider, -deal.provider_collateral@, deal.provider, 0),
        r.is_ok() ==> moved(lck(*old(self)), lck(*final(self)), deal.client, -(fee(*deal) + deal.client_collateral@), deal.provider, -deal.provider_collateral@),
        r.is_ok() ==> final(self).total_client_storage_fee@ == old(self).total_client_storage_fee@ - fee(*deal),
        r.is_ok() ==> final(self).total_client_locked_collateral@ == old(self).total_client_locked_collateral@ - deal.client_collateral@,
        r.is_ok() ==> final(self).total_provider_locked_collateral@ == old(self).total_provider_locked_collateral@ - deal.provider_collateral@,
        r.is_ok() && jinv(*old(self)) ==> jinv(*final(self)),
//@ end

//@ fn actors/market/src/state.rs State::process_deal_update ret=res
    requires wf2(*old(self)), deal_wf(*deal), state_wf(*state), epoch >= 0,
    ensures
        rest_eq(*old(self), *final(self)),
        wf2(*final(self)),
        // un-slashed deals: the C06 invariant survives every path, also a failure half way
        state.slash_epoch == EPOCH_UNDEFINED && jinv(*old(self)) ==> jinv(*final(self)),
        // a settlement of a deal that has not started changes no balance and pays nothing
        res.is_ok() && deal.start_epoch > epoch ==>
            final(self).escrow_table == old(self).escrow_table && final(self).locked_table == old(self).locked_table
            && totals_eq(*old(self), *final(self))
            && res->Ok_0.0@ == 0 && res->Ok_0.1@ == 0 && !res->Ok_0.2 && !res->Ok_0.3,
        res.is_ok() ==> !(state.last_updated_epoch != EPOCH_UNDEFINED && state.last_updated_epoch > epoch),
        // legacy deal marked for termination (only cron still meets these): deleted, not "completed", provider collateral slashed in full
        res.is_ok() && deal.start_epoch <= epoch && state.slash_epoch != EPOCH_UNDEFINED ==>
            res->Ok_0.0@ == deal.provider_collateral@ && !res->Ok_0.2 && res->Ok_0.3,
        // the un-slashed case (the only one reachable once terminations are synchronous)
        res.is_ok() && deal.start_epoch <= epoch && state.slash_epoch == EPOCH_UNDEFINED && lu_eff(*deal, *state) <= deal.end_epoch ==> ({
            let d = *deal;
            // exactly the epochs in [max(start, last_updated), min(end, epoch)): no epoch twice, none skipped
            let pay = paid_upto(d, epoch as int) - paid_upto(d, lu_eff(d, *state));
            let done = epoch >= d.end_epoch;
            let pc = if done { d.provider_collateral@ } else { 0 };
            let cc = if done { d.client_collateral@ } else { 0 };
            &&& res->Ok_0.0@ == 0
            &&& res->Ok_0.1@ == pay
            &&& pay >= 0
            &&& res->Ok_0.2 == done && res->Ok_0.3 == done
            &&& moved(esc(*old(self)), esc(*final(self)), d.client, -pay, d.provider, pay)
            &&& moved(lck(*old(self)), lck(*final(self)), d.client, -(pay + cc), d.provider, -pc)
            &&& final(self).total_client_storage_fee@ == old(self).total_client_storage_fee@ - pay
            &&& final(self).total_client_locked_collateral@ == old(self).total_client_locked_collateral@ - cc
            &&& final(self).total_provider_locked_collateral@ == old(self).total_provider_locked_collateral@ - pc
        }),
//@ entry
        proof { lemma_pay_window(*deal, epoch as int, lu_eff(*deal, *state)); }
//@ end

// ======================= the proposal and deal-state tables =======================
// derive(Clone) of DealProposal re-stated in prelude/market_clone.rs (TRUSTED: a clone equals its source)
//@ include prelude/market_clone.rs
//@ fn actors/market/src/state.rs find_proposal
    ensures
        r.is_ok() ==> (r->Ok_0.is_some() <==> proposals.view().dom().contains(deal_id)),
        r.is_ok() && r->Ok_0.is_some() ==> r->Ok_0->Some_0 == proposals.view()[deal_id],
//@ end
//@ fn actors/market/src/state.rs get_proposal
    ensures
        r.is_ok() ==> proposals.view().dom().contains(id) && r->Ok_0 == proposals.view()[id],
//@ end
//@ fn actors/market/src/state.rs find_deal_state
    ensures
        r.is_ok() ==> (r->Ok_0.is_some() <==> states.view().dom().contains(deal_id)),
        r.is_ok() && r->Ok_0.is_some() ==> r->Ok_0->Some_0 == states.view()[deal_id],
//@ end
//@ fn actors/market/src/state.rs State::load_proposals
    ensures r.is_ok() ==> r->Ok_0.view() == props_m(*self),
//@ end
//@ fn actors/market/src/state.rs State::get_proposal
    // the proposal returned is the one stored under this id
    ensures r.is_ok() ==> props_m(*self).dom().contains(id) && r->Ok_0 == props_m(*self)[id],
//@ end
//@ fn actors/market/src/state.rs State::find_proposal
    ensures
        r.is_ok() ==> (r->Ok_0.is_some() <==> props_m(*self).dom().contains(deal_id)),
        r.is_ok() && r->Ok_0.is_some() ==> r->Ok_0->Some_0 == props_m(*self)[deal_id],
//@ end
//@ fn actors/market/src/state.rs State::load_deal_states
    ensures r.is_ok() ==> r->Ok_0.view() == dstates_m(*self),
//@ end
//@ fn actors/market/src/state.rs State::save_deal_states
    ensures
        r.is_ok() ==> dstates_m(*final(self)) == old(states).view() && *final(self) == (State { states: final(self).states, ..*old(self) }),
        r.is_err() ==> *final(self) == *old(self),
        final(states).view() == old(states).view(),
//@ end
//@ fn actors/market/src/state.rs State::find_deal_state
    ensures
        r.is_ok() ==> (r->Ok_0.is_some() <==> dstates_m(*self).dom().contains(deal_id)),
        r.is_ok() && r->Ok_0.is_some() ==> r->Ok_0->Some_0 == dstates_m(*self)[deal_id],
//@ end
//@ fn actors/market/src/state.rs State::remove_deal_state
    ensures
        r.is_ok() ==> (r->Ok_0.is_some() <==> dstates_m(*old(self)).dom().contains(deal_id)) && dstates_m(*final(self)) == dstates_m(*old(self)).remove(deal_id)
            && *final(self) == (State { states: final(self).states, ..*old(self) }),
        r.is_err() ==> *final(self) == *old(self),
//@ end
//@ fn actors/market/src/state.rs State::remove_proposal
    ensures
        r.is_ok() ==> (r->Ok_0.is_some() <==> props_m(*old(self)).dom().contains(deal_id)) && props_m(*final(self)) == props_m(*old(self)).remove(deal_id)
            && *final(self) == (State { proposals: final(self).proposals, ..*old(self) }),
        r.is_err() ==> *final(self) == *old(self),
//@ end
/// "Delete proposal and state simultaneously": Ok only if both existed, and then both are gone and nothing else changed
//@ fn actors/market/src/state.rs State::remove_completed_deal
    ensures
        r.is_ok() ==> dstates_m(*old(self)).dom().contains(deal_id) && props_m(*old(self)).dom().contains(deal_id)
            && dstates_m(*final(self)) == dstates_m(*old(self)).remove(deal_id)
            && props_m(*final(self)) == props_m(*old(self)).remove(deal_id)
            && *final(self) == (State { states: final(self).states, proposals: final(self).proposals, ..*old(self) }),
//@ end
//@ fn actors/market/src/state.rs State::load_pending_deal_allocation_ids
    ensures r.is_ok() ==> r->Ok_0.view() == map2_decode::<DealID, AllocationID>(old(self).pending_deal_allocation_ids), *final(self) == *old(self),
//@ end
//@ fn actors/market/src/state.rs State::save_pending_deal_allocation_ids
    ensures
        r.is_ok() ==> *final(self) == (State { pending_deal_allocation_ids: final(self).pending_deal_allocation_ids, ..*old(self) }),
        r.is_err() ==> *final(self) == *old(self),
//@ end
//@ fn actors/market/src/state.rs State::remove_pending_deal_allocation_id
    ensures
        r.is_ok() ==> *final(self) == (State { pending_deal_allocation_ids: final(self).pending_deal_allocation_ids, ..*old(self) }),
        r.is_err() ==> *final(self) == *old(self),
//@ end

//@ fn actors/market/src/state.rs State::get_active_deal_or_process_timeout
    requires wf2(*old(self)), deal_wf(*deal_proposal),
    ensures
        // on every path: the deal-state table, the id counter, the cron queue and the sector index are not written,
        // the tables stay well formed, and the only proposal that can disappear is this one
        final(self).states == old(self).states, final(self).next_id == old(self).next_id,
        final(self).deal_ops_by_epoch == old(self).deal_ops_by_epoch, final(self).last_cron == old(self).last_cron,
        final(self).provider_sectors == old(self).provider_sectors,
        wf2(*final(self)),
        props_m(*final(self)) == props_m(*old(self)) || props_m(*final(self)) == props_m(*old(self)).remove(deal_id),
        // an activated deal is just loaded; before the start epoch nothing happens — whatever the result
        dstates_m(*old(self)).dom().contains(deal_id) || curr_epoch < deal_proposal.start_epoch ==> *final(self) == *old(self),
        r.is_ok() && dstates_m(*old(self)).dom().contains(deal_id) ==> r->Ok_0 == LoadDealState::Loaded(dstates_m(*old(self))[deal_id]),
        r.is_ok() && !dstates_m(*old(self)).dom().contains(deal_id) && curr_epoch < deal_proposal.start_epoch ==> r->Ok_0 == LoadDealState::TooEarly,
        // "a proposal not activated by its start epoch is removed with the provider's collateral burnt and the client fully refunded"
        r.is_ok() && !dstates_m(*old(self)).dom().contains(deal_id) && curr_epoch >= deal_proposal.start_epoch ==> ({
            let d = *deal_proposal;
            &&& r->Ok_0 matches LoadDealState::ProposalExpired(slashed) && slashed@ == d.provider_collateral@
            &&& moved(esc(*old(self)), esc(*final(self)), d.provider, -d.provider_collateral@, d.provider, 0)
            &&& moved(lck(*old(self)), lck(*final(self)), d.client, -(fee(d) + d.client_collateral@), d.provider, -d.provider_collateral@)
            &&& props_m(*old(self)).dom().contains(deal_id) && props_m(*final(self)) == props_m(*old(self)).remove(deal_id)
            &&& pend(*old(self)).contains(*dcid) && pend(*final(self)) == pend(*old(self)).remove(*dcid)
        }),
        // the C06 invariant survives unless the time-out processing itself failed half way (then the proposal is still there)
        jinv(*old(self)) && (r.is_ok() || (props_m(*old(self)).dom().contains(deal_id) && !props_m(*final(self)).dom().contains(deal_id))) ==> jinv(*final(self)),
//@ end

//@ include prelude/market_settle_assumed.rs

// ======================= SettleDealPayments: the transaction closure =======================
/// what happened to one deal id of the batch (ghost; one per entry, in batch order)
pub enum Outcome {
    /// get_proposal failed (always the case for an id with no stored proposal): reported as EX_DEAL_EXPIRED
    NoProposal,
    /// deal_cid failed
    CidFailed,
    /// get_active_deal_or_process_timeout failed
    LoadFailed,
    /// proposal not activated and its start epoch not reached: zero-payment success
    TooEarly,
    /// proposal not activated by its start epoch: removed, penalty accumulated, reported as EX_DEAL_EXPIRED
    Expired,
    /// process_deal_update failed
    UpdateFailed,
    /// settled, deal goes on: state written back with last_updated_epoch = now
    Kept,
    /// settled for the last time: state and proposal removed, queued for removal from the sector index
    Removed,
}
pub open spec fn is_succ(o: Outcome) -> bool { o is TooEarly || o is Kept || o is Removed }
/// the observable variables of the closure at a loop head
pub ghost struct Snap {
    pub sn: Map<u64, DealState>,
    pub pn: Map<u64, DealProposal>,
    pub nds: Seq<(DealID, DealState)>,
    pub q: Map<ActorID, Map<SectorNumber, Seq<DealID>>>,
    pub codes: Seq<u32>,
    pub setts: Seq<DealSettlementSummary>,
    pub total: int,
    pub jv: bool,
    pub esc: Map<Address, TokenAmount>,
    pub lck: Map<Address, TokenAmount>,
}
pub open spec fn snap_of(st: State, nds: Seq<(DealID, DealState)>, q: Map<ActorID, Map<SectorNumber, Seq<DealID>>>, codes: Seq<u32>, setts: Seq<DealSettlementSummary>, total: int) -> Snap {
    Snap { sn: dstates_m(st), pn: props_m(st), nds, q, codes, setts, total, jv: jinv(st), esc: esc(st), lck: lck(st) }
}
pub open spec fn upd(s: DealState, e: ChainEpoch) -> DealState { DealState { last_updated_epoch: e, ..s } }
pub open spec fn k_early(s: Map<u64, DealState>, p: Map<u64, DealProposal>, e: ChainEpoch, k: u64) -> bool { p.dom().contains(k) && !s.dom().contains(k) && e < p[k].start_epoch }
pub open spec fn k_timeout(s: Map<u64, DealState>, p: Map<u64, DealProposal>, e: ChainEpoch, k: u64) -> bool { p.dom().contains(k) && !s.dom().contains(k) && e >= p[k].start_epoch }
pub open spec fn k_active(s: Map<u64, DealState>, p: Map<u64, DealProposal>, k: u64) -> bool { p.dom().contains(k) && s.dom().contains(k) }
/// the amount one settlement at epoch e owes for deal d whose state is s
pub open spec fn pay_now(d: DealProposal, s: DealState, e: ChainEpoch) -> int { paid_upto(d, e as int) - paid_upto(d, lu_eff(d, s)) }
pub open spec fn quiet(a: Snap, b: Snap) -> bool {
    b.sn == a.sn && b.pn == a.pn && b.nds == a.nds && b.q == a.q && b.setts == a.setts && b.total == a.total && (a.jv ==> b.jv)
}
/// the two balance tables (escrow, locked)
pub type Bals = (Map<Address, TokenAmount>, Map<Address, TokenAmount>);
/// what one entry does to the balance tables: exactly what the ONE helper call it stands for does, nothing for entries that
/// stop before a helper ran; nothing is claimed for an entry whose helper failed half way (UpdateFailed, LoadFailed of a timed-out proposal)
pub open spec fn bal_step(o: Outcome, k: u64, x: Bals, y: Bals, s: Map<u64, DealState>, p: Map<u64, DealProposal>, e: ChainEpoch) -> bool {
    let d = p[k];
    match o {
        Outcome::NoProposal | Outcome::CidFailed | Outcome::TooEarly => y == x,
        Outcome::LoadFailed => !k_timeout(s, p, e, k) ==> y == x,
        Outcome::UpdateFailed => true,
        // missed activation: provider collateral leaves escrow (to be burnt), client fee and collateral are unlocked
        Outcome::Expired => moved(x.0, y.0, d.provider, -d.provider_collateral@, d.provider, 0)
            && moved(x.1, y.1, d.client, -(fee(d) + d.client_collateral@), d.provider, -d.provider_collateral@),
        // one settlement: the client pays the provider for exactly the epochs since the marker; collaterals released at the end
        Outcome::Kept => lu_eff(d, s[k]) <= d.end_epoch ==> moved(x.0, y.0, d.client, -pay_now(d, s[k], e), d.provider, pay_now(d, s[k], e))
            && moved(x.1, y.1, d.client, -pay_now(d, s[k], e), d.provider, 0),
        Outcome::Removed => lu_eff(d, s[k]) <= d.end_epoch ==> moved(x.0, y.0, d.client, -pay_now(d, s[k], e), d.provider, pay_now(d, s[k], e))
            && moved(x.1, y.1, d.client, -(pay_now(d, s[k], e) + d.client_collateral@), d.provider, -d.provider_collateral@),
    }
}
/// one loop iteration for deal id k, seen from outside: from snapshot a to snapshot b with outcome o
pub open spec fn step(a: Snap, b: Snap, e: ChainEpoch, k: u64, o: Outcome) -> bool {
    let c = b.codes.last();
    &&& b.codes == a.codes.push(c)
    &&& bal_step(o, k, (a.esc, a.lck), (b.esc, b.lck), a.sn, a.pn, e)
    &&& match o {
        Outcome::NoProposal => c == EX_DEAL_EXPIRED.value && quiet(a, b),
        Outcome::CidFailed => a.pn.dom().contains(k) && quiet(a, b),
        Outcome::LoadFailed => {
            &&& a.pn.dom().contains(k)
            &&& b.sn == a.sn && b.nds == a.nds && b.q == a.q && b.setts == a.setts && b.total == a.total
            &&& (b.pn == a.pn || (b.pn == a.pn.remove(k) && k_timeout(a.sn, a.pn, e, k)))
            &&& (a.jv && (!k_timeout(a.sn, a.pn, e, k) || !b.pn.dom().contains(k)) ==> b.jv)
        },
        Outcome::TooEarly => {
            &&& k_early(a.sn, a.pn, e, k) && c == 0
            &&& b.sn == a.sn && b.pn == a.pn && b.nds == a.nds && b.q == a.q && b.total == a.total && (a.jv ==> b.jv)
            &&& b.setts == a.setts.push(b.setts.last()) && !b.setts.last().completed && b.setts.last().payment@ == 0
        },
        Outcome::Expired => {
            &&& k_timeout(a.sn, a.pn, e, k) && c == EX_DEAL_EXPIRED.value
            &&& b.sn == a.sn && b.pn == a.pn.remove(k) && b.nds == a.nds && b.q == a.q && b.setts == a.setts && (a.jv ==> b.jv)
            &&& b.total == a.total + a.pn[k].provider_collateral@
        },
        Outcome::UpdateFailed => k_active(a.sn, a.pn, k) && a.sn[k].slash_epoch == EPOCH_UNDEFINED && quiet(a, b),
        Outcome::Kept => {
            let d = a.pn[k];
            let s = a.sn[k];
            &&& k_active(a.sn, a.pn, k) && s.slash_epoch == EPOCH_UNDEFINED && c == 0
            &&& b.sn == a.sn && b.pn == a.pn && b.q == a.q && b.total == a.total && (a.jv ==> b.jv)
            // the state queued for write-back is the loaded one with only last_updated_epoch changed, to exactly now
            &&& b.nds == a.nds.push((k, upd(s, e)))
            &&& b.setts == a.setts.push(b.setts.last()) && !b.setts.last().completed
            &&& (lu_eff(d, s) <= d.end_epoch ==> b.setts.last().payment@ == pay_now(d, s, e) && e < d.end_epoch)
        },
        Outcome::Removed => {
            let d = a.pn[k];
            let s = a.sn[k];
            &&& k_active(a.sn, a.pn, k) && s.slash_epoch == EPOCH_UNDEFINED && c == 0
            &&& b.sn == a.sn.remove(k) && b.pn == a.pn.remove(k) && b.nds == a.nds && b.total == a.total && (a.jv ==> b.jv)
            &&& queue_pushed(a.q, b.q, d.provider.id, s.sector_number, k)
            &&& b.setts == a.setts.push(b.setts.last()) && b.setts.last().completed
            &&& (lu_eff(d, s) <= d.end_epoch ==> b.setts.last().payment@ == pay_now(d, s, e) && d.start_epoch <= e && e >= d.end_epoch)
        },
    }
}
/// q2 is q1 with deal d appended to the list under [p][s] (created when missing)
pub open spec fn queue_pushed(q1: Map<ActorID, Map<SectorNumber, Seq<DealID>>>, q2: Map<ActorID, Map<SectorNumber, Seq<DealID>>>, p: ActorID, s: SectorNumber, d: DealID) -> bool {
    let m1 = if q1.dom().contains(p) { q1[p] } else { Map::<SectorNumber, Seq<DealID>>::empty() };
    let l1 = if m1.dom().contains(s) { m1[s] } else { Seq::<DealID>::empty() };
    q2 == q1.insert(p, m1.insert(s, l1.push(d)))
}
pub open spec fn step_any(a: Snap, b: Snap, e: ChainEpoch, k: u64) -> bool {
    ||| step(a, b, e, k, Outcome::NoProposal)
    ||| step(a, b, e, k, Outcome::CidFailed)
    ||| step(a, b, e, k, Outcome::LoadFailed)
    ||| step(a, b, e, k, Outcome::TooEarly)
    ||| step(a, b, e, k, Outcome::Expired)
    ||| step(a, b, e, k, Outcome::UpdateFailed)
    ||| step(a, b, e, k, Outcome::Kept)
    ||| step(a, b, e, k, Outcome::Removed)
}
/// stored proposals are well formed and name their parties by ID address (established at publication)
pub open spec fn props_ok(p: Map<u64, DealProposal>) -> bool {
    forall|k: u64| #[trigger] p.dom().contains(k) ==> deal_wf(p[k]) && p[k].client.proto == 0 && p[k].provider.proto == 0
}
pub open spec fn states_ok(s: Map<u64, DealState>) -> bool {
    forall|k: u64| #[trigger] s.dom().contains(k) ==> state_wf(s[k])
}
pub open spec fn sub_map<V>(a: Map<u64, V>, b: Map<u64, V>) -> bool {
    forall|k: u64| #[trigger] a.dom().contains(k) ==> b.dom().contains(k) && a[k] == b[k]
}
pub open spec fn has_key(ds: Seq<(DealID, DealState)>, id: DealID) -> bool { exists|a: int| 0 <= a < ds.len() && #[trigger] ds[a].0 == id }
pub open spec fn keys_distinct(ds: Seq<(DealID, DealState)>) -> bool { forall|a: int, b: int| 0 <= a < b < ds.len() ==> ds[a].0 != ds[b].0 }
pub open spec fn done_before(ids: Seq<u64>, n: int, k: u64) -> bool { exists|j: int| 0 <= j < n && #[trigger] ids[j] == k }
/// number of successful entries among the first j
pub open spec fn nsucc(tr: Seq<Outcome>, j: int) -> int
    decreases j
{ if j <= 0 { 0 } else { nsucc(tr, j - 1) + if is_succ(tr[j - 1]) { 1int } else { 0int } } }
/// sum of the penalties of the timed-out proposals among the first n entries
pub open spec fn pen_sum(tr: Seq<Outcome>, ids: Seq<u64>, p0: Map<u64, DealProposal>, n: int) -> int
    decreases n
{ if n <= 0 { 0 } else { pen_sum(tr, ids, p0, n - 1) + if tr[n - 1] is Expired { p0[ids[n - 1]].provider_collateral@ } else { 0int } } }
/// the summary returned for a successful entry: the amount process_deal_update reported for the LOADED state and the proposal stored under the same id
pub open spec fn sett_ok(x: DealSettlementSummary, o: Outcome, k: u64, s0: Map<u64, DealState>, p0: Map<u64, DealProposal>, e: ChainEpoch) -> bool {
    match o {
        Outcome::TooEarly => !x.completed && x.payment@ == 0,
        Outcome::Kept => !x.completed && (lu_eff(p0[k], s0[k]) <= p0[k].end_epoch ==> x.payment@ == pay_now(p0[k], s0[k], e) && e < p0[k].end_epoch),
        Outcome::Removed => x.completed && (lu_eff(p0[k], s0[k]) <= p0[k].end_epoch ==> x.payment@ == pay_now(p0[k], s0[k], e) && p0[k].start_epoch <= e && e >= p0[k].end_epoch),
        _ => true,
    }
}
/// entry j failed inside the time-out processing and left the proposal behind (the only way the C06 invariant can be lost)
pub open spec fn dirty_at(tr: Seq<Outcome>, ids: Seq<u64>, pn: Map<u64, DealProposal>, s0: Map<u64, DealState>, p0: Map<u64, DealProposal>, e: ChainEpoch, j: int) -> bool {
    tr[j] is LoadFailed && k_timeout(s0, p0, e, ids[j]) && pn.dom().contains(ids[j])
}
/// per-entry facts while the loop runs (x: current snapshot)
pub open spec fn out_ok(o: Outcome, k: u64, c: u32, x: Snap, s0: Map<u64, DealState>, p0: Map<u64, DealProposal>, e: ChainEpoch) -> bool {
    let hs = x.sn.dom().contains(k);
    let hp = x.pn.dom().contains(k);
    let hk = has_key(x.nds, k);
    match o {
        Outcome::NoProposal => c == EX_DEAL_EXPIRED.value && hs == s0.dom().contains(k) && hp == p0.dom().contains(k) && !hk,
        Outcome::CidFailed => p0.dom().contains(k) && hp && hs == s0.dom().contains(k) && !hk,
        Outcome::LoadFailed => p0.dom().contains(k) && hs == s0.dom().contains(k) && !hk && (hp || k_timeout(s0, p0, e, k)),
        Outcome::TooEarly => k_early(s0, p0, e, k) && c == 0 && hp && !hs && !hk,
        Outcome::Expired => k_timeout(s0, p0, e, k) && c == EX_DEAL_EXPIRED.value && !hp && !hs && !hk,
        Outcome::UpdateFailed => k_active(s0, p0, k) && s0[k].slash_epoch == EPOCH_UNDEFINED && hs && hp && !hk,
        Outcome::Kept => k_active(s0, p0, k) && s0[k].slash_epoch == EPOCH_UNDEFINED && c == 0 && hs && hp && hk,
        Outcome::Removed => k_active(s0, p0, k) && s0[k].slash_epoch == EPOCH_UNDEFINED && c == 0 && !hs && !hp && !hk
            && queued(x.q, p0[k].provider.id, s0[k].sector_number, k),
    }
}
pub open spec fn nds_ok(x: Snap, s0: Map<u64, DealState>, e: ChainEpoch) -> bool {
    forall|a: int| 0 <= a < x.nds.len() ==> x.sn.dom().contains((#[trigger] x.nds[a]).0) && x.nds[a].1 == upd(s0[x.nds[a].0], e)
}
pub open spec fn untouched(x: Snap, s0: Map<u64, DealState>, p0: Map<u64, DealProposal>, ids: Seq<u64>, n: int) -> bool {
    forall|k: u64| !#[trigger] done_before(ids, n, k) ==> (s0.dom().contains(k) ==> x.sn.dom().contains(k)) && (p0.dom().contains(k) ==> x.pn.dom().contains(k)) && !has_key(x.nds, k)
}
pub open spec fn outs_ok(tr: Seq<Outcome>, x: Snap, s0: Map<u64, DealState>, p0: Map<u64, DealProposal>, e: ChainEpoch, ids: Seq<u64>, n: int) -> bool {
    forall|j: int| 0 <= j < n ==> #[trigger] out_ok(tr[j], ids[j], x.codes[j], x, s0, p0, e)
}
pub open spec fn setts_ok(tr: Seq<Outcome>, x: Snap, s0: Map<u64, DealState>, p0: Map<u64, DealProposal>, e: ChainEpoch, ids: Seq<u64>, n: int) -> bool {
    &&& x.setts.len() == nsucc(tr, n)
    &&& forall|j: int| 0 <= j < n && is_succ(#[trigger] tr[j]) ==> 0 <= nsucc(tr, j) < x.setts.len() && sett_ok(x.setts[nsucc(tr, j)], tr[j], ids[j], s0, p0, e)
}
/// what is known after `n` entries have been folded in (opaque inside the closure: only the lemmas look into it)
#[verifier::opaque]
pub open spec fn strong(tr: Seq<Outcome>, bs: Seq<Bals>, x: Snap, s0: Map<u64, DealState>, p0: Map<u64, DealProposal>, j0: bool, e: ChainEpoch, ids: Seq<u64>, n: int) -> bool {
    &&& tr.len() == n && x.codes.len() == n
    &&& sub_map(x.sn, s0) && sub_map(x.pn, p0)
    &&& untouched(x, s0, p0, ids, n)
    &&& keys_distinct(x.nds) && nds_ok(x, s0, e)
    &&& outs_ok(tr, x, s0, p0, e, ids, n)
    &&& setts_ok(tr, x, s0, p0, e, ids, n)
    &&& x.total == pen_sum(tr, ids, p0, n)
    &&& (j0 && (forall|j: int| 0 <= j < n ==> !#[trigger] dirty_at(tr, ids, x.pn, s0, p0, e, j)) ==> x.jv)
    &&& bs.len() == n + 1 && bs[n] == (x.esc, x.lck) && bals_ok(tr, bs, s0, p0, e, ids, n)
}
/// the balance tables evolve entry by entry as bal_step says
pub open spec fn bals_ok(tr: Seq<Outcome>, bs: Seq<Bals>, s0: Map<u64, DealState>, p0: Map<u64, DealProposal>, e: ChainEpoch, ids: Seq<u64>, n: int) -> bool {
    forall|j: int| 0 <= j < n ==> #[trigger] bal_step(tr[j], ids[j], bs[j], bs[j + 1], s0, p0, e)
}
pub proof fn lemma_push_key(ds: Seq<(DealID, DealState)>, x: (DealID, DealState))
    requires keys_distinct(ds), !has_key(ds, x.0)
    ensures keys_distinct(ds.push(x)), forall|id: u64| #[trigger] has_key(ds.push(x), id) <==> has_key(ds, id) || id == x.0
{
    let n = ds.push(x);
    assert forall|a: int, b: int| 0 <= a < b < n.len() implies n[a].0 != n[b].0 by {
        if b == ds.len() { if n[a].0 == x.0 { assert(ds[a].0 == x.0); } }
    }
    assert forall|id: u64| #[trigger] has_key(n, id) <==> has_key(ds, id) || id == x.0 by {
        if has_key(n, id) { let a = choose|a: int| 0 <= a < n.len() && #[trigger] n[a].0 == id; if a < ds.len() { assert(ds[a].0 == id); } }
        if has_key(ds, id) { let a = choose|a: int| 0 <= a < ds.len() && #[trigger] ds[a].0 == id; assert(n[a].0 == id); }
        if id == x.0 { assert(n[ds.len() as int].0 == id); }
    }
}
/// set_all with distinct keys: the new map is the old one plus exactly the listed entries
pub proof fn lemma_set_all(m: Map<u64, DealState>, ds: Seq<(DealID, DealState)>)
    requires keys_distinct(ds)
    ensures
        forall|k: u64| #[trigger] set_all(m, ds).dom().contains(k) <==> m.dom().contains(k) || has_key(ds, k),
        forall|a: int| 0 <= a < ds.len() ==> set_all(m, ds)[(#[trigger] ds[a]).0] == ds[a].1,
        forall|k: u64| m.dom().contains(k) && !has_key(ds, k) ==> #[trigger] set_all(m, ds)[k] == m[k],
    decreases ds.len()
{
    if ds.len() > 0 {
        let t = ds.drop_last();
        lemma_set_all(m, t);
        assert(set_all(m, ds) == set_all(m, t).insert(ds.last().0, ds.last().1));
        assert(ds.last() == ds[ds.len() - 1]);
        assert forall|k: u64| #[trigger] set_all(m, ds).dom().contains(k) <==> m.dom().contains(k) || has_key(ds, k) by {
            if has_key(ds, k) { let a = choose|a: int| 0 <= a < ds.len() && #[trigger] ds[a].0 == k; if a < t.len() { assert(t[a].0 == k); } }
            if has_key(t, k) { let a = choose|a: int| 0 <= a < t.len() && #[trigger] t[a].0 == k; assert(ds[a].0 == k); }
            if k == ds.last().0 { assert(ds[ds.len() - 1].0 == k); }
        }
        assert forall|a: int| 0 <= a < ds.len() implies set_all(m, ds)[(#[trigger] ds[a]).0] == ds[a].1 by {
            if a < t.len() { assert(t[a] == ds[a]); assert(ds[a].0 != ds[ds.len() - 1].0); }
        }
        assert forall|k: u64| m.dom().contains(k) && !has_key(ds, k) implies #[trigger] set_all(m, ds)[k] == m[k] by {
            assert(k != ds.last().0) by { if k == ds.last().0 { assert(ds[ds.len() - 1].0 == k); } }
            assert(!has_key(t, k)) by { if has_key(t, k) { let a = choose|a: int| 0 <= a < t.len() && #[trigger] t[a].0 == k; assert(ds[a].0 == k); } }
        }
    }
}
pub proof fn lemma_nsucc_prefix(tr: Seq<Outcome>, o: Outcome, j: int)
    requires 0 <= j <= tr.len()
    ensures nsucc(tr.push(o), j) == nsucc(tr, j), 0 <= nsucc(tr, j) <= j
    decreases j
{
    if j > 0 { lemma_nsucc_prefix(tr, o, j - 1); assert(tr.push(o)[j - 1] == tr[j - 1]); }
}
pub proof fn lemma_nsucc_mono(tr: Seq<Outcome>, i: int, j: int)
    requires 0 <= i <= j
    ensures nsucc(tr, i) <= nsucc(tr, j), i < j && is_succ(tr[i]) ==> nsucc(tr, i) < nsucc(tr, j)
    decreases j - i
{
    if i < j { lemma_nsucc_mono(tr, i, j - 1); if i == j - 1 { assert(nsucc(tr, j) == nsucc(tr, i) + if is_succ(tr[i]) { 1int } else { 0int }); } }
}
pub proof fn lemma_pen_prefix(tr: Seq<Outcome>, o: Outcome, ids: Seq<u64>, p0: Map<u64, DealProposal>, n: int)
    requires 0 <= n <= tr.len()
    ensures pen_sum(tr.push(o), ids, p0, n) == pen_sum(tr, ids, p0, n)
    decreases n
{
    if n > 0 { lemma_pen_prefix(tr, o, ids, p0, n - 1); assert(tr.push(o)[n - 1] == tr[n - 1]); }
}
pub proof fn lemma_queue_pushed(q1: Map<ActorID, Map<SectorNumber, Seq<DealID>>>, q2: Map<ActorID, Map<SectorNumber, Seq<DealID>>>, p: ActorID, s: SectorNumber, d: DealID)
    requires queue_pushed(q1, q2, p, s, d)
    ensures
        queued(q2, p, s, d),
        forall|p2: ActorID, s2: SectorNumber, d2: DealID| queued(q1, p2, s2, d2) ==> #[trigger] queued(q2, p2, s2, d2),
        forall|p2: ActorID, s2: SectorNumber, d2: DealID| #[trigger] queued(q2, p2, s2, d2) ==> queued(q1, p2, s2, d2) || (p2 == p && s2 == s && d2 == d),
{
    let m1 = if q1.dom().contains(p) { q1[p] } else { Map::<SectorNumber, Seq<DealID>>::empty() };
    let l1 = if m1.dom().contains(s) { m1[s] } else { Seq::<DealID>::empty() };
    let l2 = l1.push(d);
    assert(l2[l1.len() as int] == d);
    assert(q2[p][s] == l2);
    assert forall|p2: ActorID, s2: SectorNumber, d2: DealID| queued(q1, p2, s2, d2) implies #[trigger] queued(q2, p2, s2, d2) by {
        if p2 == p && s2 == s {
            let a = choose|a: int| 0 <= a < l1.len() && l1[a] == d2;
            assert(l2[a] == d2);
        }
    }
    assert forall|p2: ActorID, s2: SectorNumber, d2: DealID| #[trigger] queued(q2, p2, s2, d2) implies queued(q1, p2, s2, d2) || (p2 == p && s2 == s && d2 == d) by {
        if p2 == p && s2 == s {
            let a = choose|a: int| 0 <= a < l2.len() && l2[a] == d2;
            if a < l1.len() { assert(l1[a] == d2); }
        }
    }
}
/// nothing processed yet
pub proof fn lemma_init(st0: State, codes: Seq<u32>, setts: Seq<DealSettlementSummary>, e: ChainEpoch, ids: Seq<u64>)
    requires codes.len() == 0, setts.len() == 0
    ensures strong(Seq::empty(), seq![(esc(st0), lck(st0))], snap_of(st0, Seq::empty(), Map::empty(), codes, setts, 0), dstates_m(st0), props_m(st0), jinv(st0), e, ids, 0)
{
    reveal(strong);
    let x = snap_of(st0, Seq::empty(), Map::empty(), codes, setts, 0);
    assert forall|k: u64| !has_key(x.nds, k) by { }
}
/// one loop iteration preserves `strong`
pub proof fn lemma_fold(tr: Seq<Outcome>, bs: Seq<Bals>, a: Snap, b: Snap, s0: Map<u64, DealState>, p0: Map<u64, DealProposal>, j0: bool, e: ChainEpoch, ids: Seq<u64>, n: int, o: Outcome)
    requires strong(tr, bs, a, s0, p0, j0, e, ids, n), 0 <= n < ids.len(), ascending(ids), step(a, b, e, ids[n], o),
    ensures strong(tr.push(o), bs.push((b.esc, b.lck)), b, s0, p0, j0, e, ids, n + 1)
{
    reveal(strong);
    let k = ids[n];
    let tr2 = tr.push(o);
    let c = b.codes.last();
    assert(!done_before(ids, n, k)) by {
        if done_before(ids, n, k) { let j = choose|j: int| 0 <= j < n && #[trigger] ids[j] == k; assert(ids[j] < ids[n]); }
    }
    assert(!has_key(a.nds, k));
    assert(a.sn.dom().contains(k) == s0.dom().contains(k));
    assert(a.pn.dom().contains(k) == p0.dom().contains(k));
    if o is Kept { lemma_push_key(a.nds, (k, upd(a.sn[k], e))); }
    if o is Removed { lemma_queue_pushed(a.q, b.q, p0[k].provider.id, s0[k].sector_number, k); }
    // names of earlier entries differ from k
    assert forall|j: int| 0 <= j < n implies ids[j] != k by { assert(ids[j] < ids[n]); }
    assert(sub_map(b.sn, s0) && sub_map(b.pn, p0));
    assert(untouched(b, s0, p0, ids, n + 1)) by {
        assert forall|k2: u64| !#[trigger] done_before(ids, n + 1, k2) implies (s0.dom().contains(k2) ==> b.sn.dom().contains(k2)) && (p0.dom().contains(k2) ==> b.pn.dom().contains(k2)) && !has_key(b.nds, k2) by {
            assert(k2 != k) by { if k2 == k { assert(ids[n] == k2); } }
            assert(!done_before(ids, n, k2)) by {
                if done_before(ids, n, k2) { let j = choose|j: int| 0 <= j < n && #[trigger] ids[j] == k2; assert(ids[j] == k2); }
            }
        }
    }
    assert(keys_distinct(b.nds) && nds_ok(b, s0, e)) by {
        assert forall|x: int| 0 <= x < b.nds.len() implies b.sn.dom().contains((#[trigger] b.nds[x]).0) && b.nds[x].1 == upd(s0[b.nds[x].0], e) by {
            if x < a.nds.len() {
                assert(b.nds[x] == a.nds[x]);
                assert(a.nds[x].0 != k);
            }
        }
    }
    assert(outs_ok(tr2, b, s0, p0, e, ids, n + 1)) by {
        assert forall|j: int| 0 <= j < n + 1 implies #[trigger] out_ok(tr2[j], ids[j], b.codes[j], b, s0, p0, e) by {
            if j < n {
                assert(tr2[j] == tr[j] && b.codes[j] == a.codes[j] && ids[j] != k);
                assert(out_ok(tr[j], ids[j], a.codes[j], a, s0, p0, e));
            } else {
                assert(tr2[j] == o && b.codes[j] == c && ids[j] == k);
            }
        }
    }
    lemma_nsucc_prefix(tr, o, n);
    lemma_pen_prefix(tr, o, ids, p0, n);
    assert(tr2[n] == o);
    assert(setts_ok(tr2, b, s0, p0, e, ids, n + 1)) by {
        assert forall|j: int| 0 <= j < n + 1 && is_succ(#[trigger] tr2[j]) implies 0 <= nsucc(tr2, j) < b.setts.len() && sett_ok(b.setts[nsucc(tr2, j)], tr2[j], ids[j], s0, p0, e) by {
            lemma_nsucc_prefix(tr, o, j);
            if j < n {
                assert(tr2[j] == tr[j]);
                assert(b.setts[nsucc(tr, j)] == a.setts[nsucc(tr, j)]);
            }
        }
    }
    assert(j0 && (forall|j: int| 0 <= j < n + 1 ==> !#[trigger] dirty_at(tr2, ids, b.pn, s0, p0, e, j)) ==> b.jv) by {
        if j0 && (forall|j: int| 0 <= j < n + 1 ==> !#[trigger] dirty_at(tr2, ids, b.pn, s0, p0, e, j)) {
            assert forall|j: int| 0 <= j < n implies !#[trigger] dirty_at(tr, ids, a.pn, s0, p0, e, j) by {
                assert(!dirty_at(tr2, ids, b.pn, s0, p0, e, j));
                assert(tr2[j] == tr[j] && ids[j] != k);
            }
            assert(a.jv);
            assert(!dirty_at(tr2, ids, b.pn, s0, p0, e, n));
        }
    }
    let bs2 = bs.push((b.esc, b.lck));
    assert(bals_ok(tr2, bs2, s0, p0, e, ids, n + 1)) by {
        assert forall|j: int| 0 <= j < n + 1 implies #[trigger] bal_step(tr2[j], ids[j], bs2[j], bs2[j + 1], s0, p0, e) by {
            if j < n {
                assert(tr2[j] == tr[j] && bs2[j] == bs[j] && bs2[j + 1] == bs[j + 1]);
                assert(bal_step(tr[j], ids[j], bs[j], bs[j + 1], s0, p0, e));
            } else {
                assert(bs2[n] == (a.esc, a.lck) && bs2[n + 1] == (b.esc, b.lck));
                assert(bal_step(o, k, (a.esc, a.lck), (b.esc, b.lck), a.sn, a.pn, e));
                if a.sn.dom().contains(k) { assert(a.sn[k] == s0[k]); }
                if a.pn.dom().contains(k) { assert(a.pn[k] == p0[k]); }
            }
        }
    }
}
/// the deal-state table keeps "never paid beyond the end": a stored marker is never later than the deal's end epoch
pub open spec fn lu_ok(s: Map<u64, DealState>, p: Map<u64, DealProposal>) -> bool {
    forall|k: u64| #[trigger] s.dom().contains(k) && p.dom().contains(k) ==> s[k].last_updated_epoch <= p[k].end_epoch
}
/// per-entry facts of the finished transaction (s1/p1: tables written back, psec1: the sector index written back)
pub open spec fn fin_ok(o: Outcome, k: u64, c: u32, s0: Map<u64, DealState>, p0: Map<u64, DealProposal>, e: ChainEpoch, s1: Map<u64, DealState>, p1: Map<u64, DealProposal>, psec1: Cid) -> bool {
    let hs = s1.dom().contains(k);
    let hp = p1.dom().contains(k);
    // "entries that fail change nothing of that deal's state"
    let same_state = hs == s0.dom().contains(k) && (hs ==> s1[k] == s0[k]);
    match o {
        Outcome::NoProposal => c == EX_DEAL_EXPIRED.value && same_state && hp == p0.dom().contains(k),
        Outcome::CidFailed => p0.dom().contains(k) && hp && same_state,
        Outcome::LoadFailed => p0.dom().contains(k) && same_state && (hp || k_timeout(s0, p0, e, k)),
        Outcome::TooEarly => k_early(s0, p0, e, k) && c == 0 && hp && !hs,
        Outcome::Expired => k_timeout(s0, p0, e, k) && c == EX_DEAL_EXPIRED.value && !hp && !hs,
        // "a deal marked for termination is never settled here": every settled (or attempted) deal had slash_epoch unset
        Outcome::UpdateFailed => k_active(s0, p0, k) && s0[k].slash_epoch == EPOCH_UNDEFINED && same_state && hp,
        // "the deal state written back is the loaded state with ONLY last_updated_epoch changed, to exactly the current epoch"
        Outcome::Kept => k_active(s0, p0, k) && s0[k].slash_epoch == EPOCH_UNDEFINED && c == 0 && hs && s1[k] == upd(s0[k], e) && hp,
        // "a deal that is removed is removed from the deal-state table ... and from its provider's sector→deal index"
        Outcome::Removed => k_active(s0, p0, k) && s0[k].slash_epoch == EPOCH_UNDEFINED && c == 0 && !hs && !hp
            && !sector_deals_of(psec1, p0[k].provider.id, s0[k].sector_number).contains(k),
    }
}
/// postcondition of the SettleDealPayments transaction closure, for the ghost trace `tr` of per-entry outcomes
pub open spec fn sdp_post(tr: Seq<Outcome>, bs: Seq<Bals>, st0: State, st1: State, e: ChainEpoch, ids: Seq<u64>, codes: Seq<u32>, setts: Seq<DealSettlementSummary>, total: int) -> bool {
    let (s0, p0, s1, p1) = (dstates_m(st0), props_m(st0), dstates_m(st1), props_m(st1));
    let n = ids.len() as int;
    &&& tr.len() == n && codes.len() == n
    // the id counter, the cron queue and the cron cursor are not written
    &&& st1.next_id == st0.next_id && st1.deal_ops_by_epoch == st0.deal_ops_by_epoch && st1.last_cron == st0.last_cron
    // no proposal or deal state appears or changes except as listed per entry; ids outside the batch are untouched
    &&& sub_map(p1, p0)
    &&& (forall|k: u64| #[trigger] s1.dom().contains(k) ==> s0.dom().contains(k))
    &&& (forall|k: u64| !ids.contains(k) ==> (#[trigger] s1.dom().contains(k) == s0.dom().contains(k)) && (s0.dom().contains(k) ==> s1[k] == s0[k]) && (p1.dom().contains(k) == p0.dom().contains(k)))
    &&& (forall|j: int| 0 <= j < n ==> #[trigger] fin_ok(tr[j], ids[j], codes[j], s0, p0, e, s1, p1, st1.provider_sectors))
    // the sector index only loses entries
    &&& (forall|p: ActorID, s: SectorNumber, d: DealID| #[trigger] sector_deals_of(st1.provider_sectors, p, s).contains(d) ==> sector_deals_of(st0.provider_sectors, p, s).contains(d))
    // one summary per successful entry, in batch order
    &&& setts.len() == nsucc(tr, n)
    &&& (forall|j: int| 0 <= j < n && is_succ(#[trigger] tr[j]) ==> 0 <= nsucc(tr, j) < setts.len() && sett_ok(setts[nsucc(tr, j)], tr[j], ids[j], s0, p0, e))
    // the amount to burn is the sum of the penalties of the timed-out proposals
    &&& total == pen_sum(tr, ids, p0, n)
    // table invariants are kept; markers never pass the end epoch
    &&& wf2(st1) && props_ok(p1) && states_ok(s1) && (lu_ok(s0, p0) ==> lu_ok(s1, p1))
    // the balance tables go from (escrow, locked) of st0 to those of st1 through one bal_step per entry: no entry moves funds twice
    &&& bs.len() == n + 1 && bs[0] == (esc(st0), lck(st0)) && bs[n] == (esc(st1), lck(st1)) && bals_ok(tr, bs, s0, p0, e, ids, n)
    // C06: the escrow invariant survives unless a time-out processing failed half way and left its proposal behind
    &&& (jinv(st0) && (forall|j: int| 0 <= j < n ==> !#[trigger] dirty_at(tr, ids, p1, s0, p0, e, j)) ==> jinv(st1))
}
/// the closure's postcondition: some trace of per-entry outcomes explains the result
pub open spec fn sdp_post_ex(st0: State, st1: State, e: ChainEpoch, ids: Seq<u64>, codes: Seq<u32>, setts: Seq<DealSettlementSummary>, total: int) -> bool {
    exists|tr: Seq<Outcome>, bs: Seq<Bals>| #[trigger] sdp_post(tr, bs, st0, st1, e, ids, codes, setts, total)
}
pub proof fn lemma_final(tr: Seq<Outcome>, bs: Seq<Bals>, x: Snap, st0: State, st1: State, e: ChainEpoch, ids: Seq<u64>, idset: vstd::set::Set<u64>)
    requires
        strong(tr, bs, x, dstates_m(st0), props_m(st0), jinv(st0), e, ids, ids.len() as int), ascending(ids), e >= 0,
        bs[0] == (esc(st0), lck(st0)), x.esc == esc(st1), x.lck == lck(st1),
        forall|k: u64| ids.contains(k) <==> idset.contains(k),
        props_ok(props_m(st0)), states_ok(dstates_m(st0)),
        dstates_m(st1) == set_all(x.sn, x.nds), props_m(st1) == x.pn, wf2(st1), x.jv == jinv(st1),
        st1.next_id == st0.next_id && st1.deal_ops_by_epoch == st0.deal_ops_by_epoch && st1.last_cron == st0.last_cron,
        forall|p: ActorID, s: SectorNumber, d: DealID| #[trigger] sector_deals_of(st1.provider_sectors, p, s).contains(d)
            <==> sector_deals_of(st0.provider_sectors, p, s).contains(d) && !queued(x.q, p, s, d),
    ensures sdp_post(tr, bs, st0, st1, e, ids, x.codes, x.setts, x.total)
{
    reveal(strong);
    let (s0, p0, s1, p1) = (dstates_m(st0), props_m(st0), dstates_m(st1), props_m(st1));
    let n = ids.len() as int;
    lemma_set_all(x.sn, x.nds);
    assert forall|k: u64| #[trigger] s1.dom().contains(k) implies s0.dom().contains(k) by {
        if has_key(x.nds, k) { let a = choose|a: int| 0 <= a < x.nds.len() && #[trigger] x.nds[a].0 == k; assert(x.sn.dom().contains(x.nds[a].0)); }
    }
    assert forall|k: u64| !ids.contains(k) implies (#[trigger] s1.dom().contains(k) == s0.dom().contains(k)) && (s0.dom().contains(k) ==> s1[k] == s0[k]) && (p1.dom().contains(k) == p0.dom().contains(k)) by {
        assert(!done_before(ids, n, k)) by {
            if done_before(ids, n, k) { let j = choose|j: int| 0 <= j < n && #[trigger] ids[j] == k; assert(ids.contains(k)); }
        }
    }
    assert forall|j: int| 0 <= j < n implies #[trigger] fin_ok(tr[j], ids[j], x.codes[j], s0, p0, e, s1, p1, st1.provider_sectors) by {
        let k = ids[j];
        assert(out_ok(tr[j], k, x.codes[j], x, s0, p0, e));
        if has_key(x.nds, k) {
            let a = choose|a: int| 0 <= a < x.nds.len() && #[trigger] x.nds[a].0 == k;
            assert(s1[x.nds[a].0] == x.nds[a].1);
        }
    }
    assert(states_ok(s1)) by {
        assert forall|k: u64| #[trigger] s1.dom().contains(k) implies state_wf(s1[k]) by {
            if has_key(x.nds, k) {
                let a = choose|a: int| 0 <= a < x.nds.len() && #[trigger] x.nds[a].0 == k;
                assert(s1[x.nds[a].0] == x.nds[a].1);
                assert(x.sn.dom().contains(x.nds[a].0));
            }
        }
    }
    if lu_ok(s0, p0) {
        assert forall|k: u64| #[trigger] s1.dom().contains(k) && p1.dom().contains(k) implies s1[k].last_updated_epoch <= p1[k].end_epoch by {
            if has_key(x.nds, k) {
                let a = choose|a: int| 0 <= a < x.nds.len() && #[trigger] x.nds[a].0 == k;
                assert(s1[x.nds[a].0] == x.nds[a].1);
                // k is a Kept entry: settled before its end
                assert(done_before(ids, n, k));
                let j = choose|j: int| 0 <= j < n && #[trigger] ids[j] == k;
                assert(out_ok(tr[j], k, x.codes[j], x, s0, p0, e));
                assert(tr[j] is Kept);
                assert(sett_ok(x.setts[nsucc(tr, j)], tr[j], ids[j], s0, p0, e));
            }
        }
    }
    assert(tr.len() == n && x.codes.len() == n);
    assert(sub_map(p1, p0));
    assert(forall|j: int| 0 <= j < n ==> #[trigger] fin_ok(tr[j], ids[j], x.codes[j], s0, p0, e, s1, p1, st1.provider_sectors));
    assert(forall|p: ActorID, s: SectorNumber, d: DealID| #[trigger] sector_deals_of(st1.provider_sectors, p, s).contains(d) ==> sector_deals_of(st0.provider_sectors, p, s).contains(d));
    assert(x.setts.len() == nsucc(tr, n));
    assert(forall|j: int| 0 <= j < n && is_succ(#[trigger] tr[j]) ==> 0 <= nsucc(tr, j) < x.setts.len() && sett_ok(x.setts[nsucc(tr, j)], tr[j], ids[j], s0, p0, e));
    assert(x.total == pen_sum(tr, ids, p0, n));
    assert(props_ok(p1));
    assert(lu_ok(s0, p0) ==> lu_ok(s1, p1));
    assert(jinv(st0) && (forall|j: int| 0 <= j < n ==> !#[trigger] dirty_at(tr, ids, p1, s0, p0, e, j)) ==> jinv(st1));
}

/// loop-head form of the invariant: either nothing is pending (cur is the folded snapshot) or exactly one iteration is
/// (`expired`: the pending iteration went through the ProposalExpired arm — get_active_deal_or_process_timeout returned Ok — so
/// its outcome is Expired and nothing weaker; seen from the snapshots alone it could be mistaken for a LoadFailed)
pub open spec fn pending(prev: Snap, cur: Snap, e: ChainEpoch, ids: Seq<u64>, pi: int, i: int, expired: bool) -> bool {
    (pi == i && cur == prev) || (pi + 1 == i && (if expired { step(prev, cur, e, ids[pi], Outcome::Expired) } else { step_any(prev, cur, e, ids[pi]) }))
}
/// st is sx after put_deal_states and remove_sector_deal_ids: only `states` and `provider_sectors` differ
pub open spec fn exit_state(sx: State, st: State) -> bool {
    st == (State { states: st.states, provider_sectors: st.provider_sectors, ..sx })
}

//@ fn actors/market/src/lib.rs Actor::settle_deal_payments closure=0 as=sdp_tx0 params="st: &mut State, rt: &mut Rt, params: &SettleDealPaymentsParams, curr_epoch: ChainEpoch, batch_gen: &mut BatchReturnGen, settlements: &mut Vec<DealSettlementSummary>, total_slashed: &mut TokenAmount" retty="Result<(), ActorError>" derefs=batch_gen,settlements,total_slashed ret=res r19=0 sub0="let deal_id = & __vx_v0 [__vx_i0]=>let deal_id = __vx_v0[__vx_i0]" sub1="BTreeMap :: < ActorID , BTreeMap < SectorNumber , Vec < DealID > > > :: new ()=>DealsToRemove::new()" suball0=". entry=>. vx_at" suball1=". or_default ()=>"
    requires
        wf2(*old(st)), props_ok(props_m(*old(st))), states_ok(dstates_m(*old(st))),
        curr_epoch >= 0,
        old(batch_gen).codes().len() == 0, old(settlements)@.len() == 0, old(total_slashed)@ == 0,
    ensures
        *final(rt) == (Rt { events: final(rt).events, ..*old(rt) }),
        final(batch_gen).expect() == old(batch_gen).expect(),
        res.is_ok() ==> bf_seq_ok(params.deal_ids@) && bf_seq(params.deal_ids@).len() <= usize::MAX,
        res.is_ok() ==> sdp_post_ex(*old(st), *final(st), curr_epoch, bf_seq(params.deal_ids@), final(batch_gen).codes(), final(settlements)@, final(total_slashed)@),
//@ entry
        // the closure never looks into the table invariants: it only passes them from one helper to the next
        hide(bt_wf);
        hide(jinv_t);
        hide(ascending);
        let ghost s0 = dstates_m(*st);
        let ghost p0 = props_m(*st);
        let ghost st0 = *st;
        let ghost ids = bf_seq(params.deal_ids@);
        let ghost mut tr: Seq<Outcome> = Seq::empty();
        let ghost mut pi: int = 0;
        let ghost mut expired: bool = false;
        let ghost mut bs: Seq<Bals> = seq![(esc(*st), lck(*st))];
        let ghost mut prev: Snap = snap_of(*st, Seq::empty(), Map::empty(), batch_gen.codes(), settlements@, total_slashed@);
        proof { lemma_init(*st, batch_gen.codes(), settlements@, curr_epoch, ids); }
//@ loop 0
                invariant
                    __vx_i0 <= __vx_v0.len(), __vx_v0@ == ids, ascending(ids),
                    *rt == (Rt { events: rt.events, ..*old(rt) }),
                    batch_gen.expect() == old(batch_gen).expect(),
                    wf2(*st), props_ok(props_m(*st)), states_ok(dstates_m(*st)), curr_epoch >= 0,
                    st.next_id == st0.next_id, st.deal_ops_by_epoch == st0.deal_ops_by_epoch, st.last_cron == st0.last_cron, st.provider_sectors == st0.provider_sectors,
                    0 <= pi <= ids.len(),
                    strong(tr, bs, prev, s0, p0, jinv(st0), curr_epoch, ids, pi), bs.len() == pi + 1, bs[0] == (esc(st0), lck(st0)),
                    pending(prev, snap_of(*st, new_deal_states@, provider_deals_to_remove@, batch_gen.codes(), settlements@, total_slashed@), curr_epoch, ids, pi, __vx_i0 as int, expired),
                decreases __vx_v0.len() - __vx_i0,
//@ loopstart 0
                proof {
                    let cur = snap_of(*st, new_deal_states@, provider_deals_to_remove@, batch_gen.codes(), settlements@, total_slashed@);
                    if pi + 1 == __vx_i0 {
                        let o = if expired { Outcome::Expired } else { choose|o: Outcome| step(prev, cur, curr_epoch, ids[pi], o) };
                        lemma_fold(tr, bs, prev, cur, s0, p0, jinv(st0), curr_epoch, ids, pi, o);
                        tr = tr.push(o);
                        bs = bs.push((cur.esc, cur.lck));
                        pi = pi + 1;
                    }
                    prev = cur;
                    expired = false;
                }
//@ after "LoadDealState :: ProposalExpired"
                        proof { expired = true; }
//@ before "Ok (())"
        proof {
            let nds = new_deal_states@;
            let q = provider_deals_to_remove@;
            // the state at loop exit: the one put_deal_states / remove_sector_deal_ids started from
            let sx = choose|sx: State| #[trigger] set_all(dstates_m(sx), nds) == dstates_m(*st) && exit_state(sx, *st)
                && pending(prev, snap_of(sx, nds, q, batch_gen.codes(), settlements@, total_slashed@), curr_epoch, ids, pi, ids.len() as int, expired);
            let cur = snap_of(sx, nds, q, batch_gen.codes(), settlements@, total_slashed@);
            if pi + 1 == ids.len() {
                let o = if expired { Outcome::Expired } else { choose|o: Outcome| step(prev, cur, curr_epoch, ids[pi], o) };
                lemma_fold(tr, bs, prev, cur, s0, p0, jinv(st0), curr_epoch, ids, pi, o);
                tr = tr.push(o);
                bs = bs.push((cur.esc, cur.lck));
                pi = pi + 1;
            }
            lemma_final(tr, bs, cur, st0, *st, curr_epoch, ids, params.deal_ids@);
            assert(sdp_post(tr, bs, st0, *st, curr_epoch, ids, batch_gen.codes(), settlements@, total_slashed@));
        }
//@ end

// ======================= SettleDealPayments: whole method =======================
/// the value burnt by this activation: what the (single) send appended to the send log carries, 0 when nothing was sent
pub open spec fn burn_value(sends0: Seq<SendRec>, sends1: Seq<SendRec>) -> int {
    if sends1.len() == sends0.len() { 0 } else { sends1.last().value }
}
/// "one burn send to the burnt-funds actor with exactly that value, none when zero"
pub open spec fn burn_shape(sends0: Seq<SendRec>, sends1: Seq<SendRec>) -> bool {
    ||| sends1 == sends0
    ||| (sends1.len() == sends0.len() + 1 && sends1 == sends0.push(sends1.last()) && ({
            let b = sends1.last();
            b.to == BURNT_FUNDS_ACTOR_ADDR && b.method == METHOD_SEND && b.value != 0 && b.ok && b.params.is_none()
        }))
}
//@ fn actors/market/src/lib.rs Actor::settle_deal_payments free tx0="State;sdp_tx0;&mut __vx_st, rt, &params, curr_epoch, &mut batch_gen, &mut settlements, &mut total_slashed" ret=res
    requires
        !old(rt).in_tx@, old(rt).tx_log@.len() == 0, old(rt).validated@.is_none(),
        old(rt).epoch >= 0,
        // state invariants: well-formed balance tables, stored proposals and deal states well formed
        wf2(rt_state::<State>(old(rt).state_id@)),
        props_ok(props_m(rt_state::<State>(old(rt).state_id@))),
        states_ok(dstates_m(rt_state::<State>(old(rt).state_id@))),
    ensures
        /*C11*/ res.is_ok() ==> final(rt).validated@.is_some(),
        // "total_slashed that is burnt after the transaction equals the sum of the penalties of timed-out proposals (one burn send
        // to the burnt-funds actor with exactly that value, none when zero)": the send log grows by at most that one send, and
        // its value is the `total` of the transaction's postcondition, which is pen_sum(..) — see sdp_post
        res.is_ok() ==> burn_shape(old(rt).sends@, final(rt).sends@),
        res.is_ok() ==> final(rt).tx_log@.len() == 1 && sdp_post_ex(
            rt_state::<State>(old(rt).state_id@), rt_state::<State>(final(rt).tx_log@[0]), old(rt).epoch, bf_seq(params.deal_ids@),
            res->Ok_0.results.codes(), res->Ok_0.settlements@, burn_value(old(rt).sends@, final(rt).sends@)),
//@ end

// ======================= OnMinerSectorsTerminate =======================
//@ item actors/market/src/types.rs OnMinerSectorsTerminateParams
//@ fn actors/market/src/state.rs State::process_slashed_deal
    requires wf2(*old(self)), deal_wf(*proposal), state_wf(*state),
    ensures
        rest_eq(*old(self), *final(self)),
        final(self).pending_proposals == old(self).pending_proposals,
        wf2(*final(self)),
        r.is_ok() ==> slashed_moves(*proposal, *state, (esc(*old(self)), lck(*old(self))), (esc(*final(self)), lck(*final(self)))),
        r.is_ok() ==> ({
            let d = *proposal;
            let n = imax(0, imin(d.end_epoch as int, state.slash_epoch as int) - imax(d.start_epoch as int, state.last_updated_epoch as int));
            let pay = d.storage_price_per_epoch@ * n;
            let refund = d.storage_price_per_epoch@ * (d.end_epoch - imax(state.slash_epoch as int, d.start_epoch as int));
            // provider collateral returned as slashed, in full
            &&& r->Ok_0@ == d.provider_collateral@
            &&& state.slash_epoch <= d.end_epoch
            &&& final(self).total_client_storage_fee@ == old(self).total_client_storage_fee@ - pay - refund
            &&& final(self).total_client_locked_collateral@ == old(self).total_client_locked_collateral@ - d.client_collateral@
            &&& final(self).total_provider_locked_collateral@ == old(self).total_provider_locked_collateral@ - d.provider_collateral@
            &&& (jinv(*old(self)) ==> jinv(*final(self)))
        }),
//@ end
/// what the termination of deal d (state s, with s.slash_epoch = the termination epoch) does to the balance tables:
/// the provider is paid for the epochs between the marker and the termination, the client gets back the unspent fee and
/// its collateral, the provider's collateral leaves escrow in full
pub open spec fn slashed_moves(d: DealProposal, s: DealState, x: Bals, y: Bals) -> bool {
    // paid now: price * max(0, min(end, slash) - max(start, last_updated))
    let n = imax(0, imin(d.end_epoch as int, s.slash_epoch as int) - imax(d.start_epoch as int, s.last_updated_epoch as int));
    let pay = d.storage_price_per_epoch@ * n;
    let refund = d.storage_price_per_epoch@ * (d.end_epoch - imax(s.slash_epoch as int, d.start_epoch as int));
    &&& forall|k: Address| #[trigger] bal(y.0, k) == bal(x.0, k) + d2(k, d.client, -pay, d.provider, pay) + d2(k, d.provider, -d.provider_collateral@, d.provider, 0)
    &&& forall|k: Address| #[trigger] bal(y.1, k) == bal(x.1, k) + d2(k, d.client, -(pay + refund + d.client_collateral@), d.provider, -d.provider_collateral@)
}

/// deal k (as stored when the transaction began) is terminated by this call: it exists and has not reached its end epoch
pub open spec fn is_term(p0: Map<u64, DealProposal>, k: u64, epoch: ChainEpoch) -> bool { p0.dom().contains(k) && p0[k].end_epoch > epoch }
pub ghost struct TSnap {
    pub sn: Map<u64, DealState>,
    pub pn: Map<u64, DealProposal>,
    pub total: int,
    pub esc: Map<Address, TokenAmount>,
    pub lck: Map<Address, TokenAmount>,
    pub jv: bool,
}
pub open spec fn tsnap_of(st: State, total: int) -> TSnap { TSnap { sn: dstates_m(st), pn: props_m(st), total, esc: esc(st), lck: lck(st), jv: jinv(st) } }
/// the state handed to process_slashed_deal: the loaded one with ONLY slash_epoch changed, to the termination epoch
pub open spec fn slashed_at(s: DealState, epoch: ChainEpoch) -> DealState { DealState { slash_epoch: epoch, ..s } }
/// one loop iteration of the termination for deal id k
pub open spec fn tstep(a: TSnap, b: TSnap, s0: Map<u64, DealState>, p0: Map<u64, DealProposal>, miner: Address, epoch: ChainEpoch, k: u64) -> bool {
    if is_term(p0, k, epoch) {
        // only the caller's own deals; state and proposal are deleted together; the collateral is accumulated in full;
        // balances move as process_slashed_deal says for the LOADED state with slash_epoch = the termination epoch
        &&& p0[k].provider == miner && s0.dom().contains(k) && a.sn.dom().contains(k) && a.pn.dom().contains(k)
        &&& b.sn == a.sn.remove(k) && b.pn == a.pn.remove(k)
        &&& b.total == a.total + p0[k].provider_collateral@
        &&& slashed_moves(p0[k], slashed_at(s0[k], epoch), (a.esc, a.lck), (b.esc, b.lck))
        &&& (a.jv ==> b.jv)
    } else {
        // a deal that is gone or already past its end is skipped: nothing changes
        b == a
    }
}
pub open spec fn tpending(prev: TSnap, cur: TSnap, s0: Map<u64, DealState>, p0: Map<u64, DealProposal>, miner: Address, epoch: ChainEpoch, ids: Seq<u64>, pi: int, i: int) -> bool {
    (pi == i && cur == prev) || (pi + 1 == i && tstep(prev, cur, s0, p0, miner, epoch, ids[pi]))
}
/// total collateral of the deals terminated among the first n listed ids
pub open spec fn term_sum(ids: Seq<u64>, p0: Map<u64, DealProposal>, epoch: ChainEpoch, n: int) -> int
    decreases n
{ if n <= 0 { 0 } else { term_sum(ids, p0, epoch, n - 1) + if is_term(p0, ids[n - 1], epoch) { p0[ids[n - 1]].provider_collateral@ } else { 0int } } }
pub proof fn lemma_term_sum_nonneg(ids: Seq<u64>, p0: Map<u64, DealProposal>, epoch: ChainEpoch, n: int)
    requires props_ok(p0)
    ensures term_sum(ids, p0, epoch, n) >= 0
    decreases n
{ if n > 0 { lemma_term_sum_nonneg(ids, p0, epoch, n - 1); } }
pub open spec fn tbal_step(k: u64, x: Bals, y: Bals, s0: Map<u64, DealState>, p0: Map<u64, DealProposal>, epoch: ChainEpoch) -> bool {
    if is_term(p0, k, epoch) { slashed_moves(p0[k], slashed_at(s0[k], epoch), x, y) } else { y == x }
}
#[verifier::opaque]
pub open spec fn tstrong(bs: Seq<Bals>, x: TSnap, s0: Map<u64, DealState>, p0: Map<u64, DealProposal>, j0: bool, miner: Address, epoch: ChainEpoch, ids: Seq<u64>, n: int) -> bool {
    &&& sub_map(x.sn, s0) && sub_map(x.pn, p0)
    // what has been removed so far: exactly the terminated deals among the first n ids, state and proposal together
    &&& (forall|k: u64| #[trigger] s0.dom().contains(k) && !x.sn.dom().contains(k) ==> done_before(ids, n, k) && is_term(p0, k, epoch) && p0[k].provider == miner)
    &&& (forall|k: u64| #[trigger] p0.dom().contains(k) && !x.pn.dom().contains(k) ==> done_before(ids, n, k) && is_term(p0, k, epoch) && p0[k].provider == miner)
    &&& (forall|j: int| 0 <= j < n && is_term(p0, #[trigger] ids[j], epoch) ==> !x.sn.dom().contains(ids[j]) && !x.pn.dom().contains(ids[j]) && s0.dom().contains(ids[j]))
    &&& x.total == term_sum(ids, p0, epoch, n)
    &&& bs.len() == n + 1 && bs[n] == (x.esc, x.lck)
    &&& (forall|j: int| 0 <= j < n ==> #[trigger] tbal_step(ids[j], bs[j], bs[j + 1], s0, p0, epoch))
    &&& (j0 ==> x.jv)
}
pub proof fn lemma_tinit(st0: State, miner: Address, epoch: ChainEpoch, ids: Seq<u64>)
    ensures tstrong(seq![(esc(st0), lck(st0))], tsnap_of(st0, 0), dstates_m(st0), props_m(st0), jinv(st0), miner, epoch, ids, 0)
{ reveal(tstrong); }
pub proof fn lemma_tfold(bs: Seq<Bals>, a: TSnap, b: TSnap, s0: Map<u64, DealState>, p0: Map<u64, DealProposal>, j0: bool, miner: Address, epoch: ChainEpoch, ids: Seq<u64>, n: int)
    requires tstrong(bs, a, s0, p0, j0, miner, epoch, ids, n), 0 <= n < ids.len(), tstep(a, b, s0, p0, miner, epoch, ids[n]),
    ensures tstrong(bs.push((b.esc, b.lck)), b, s0, p0, j0, miner, epoch, ids, n + 1)
{
    reveal(tstrong);
    let k = ids[n];
    let bs2 = bs.push((b.esc, b.lck));
    assert forall|k2: u64| done_before(ids, n, k2) implies done_before(ids, n + 1, k2) by {
        let j = choose|j: int| 0 <= j < n && #[trigger] ids[j] == k2; assert(ids[j] == k2);
    }
    assert(done_before(ids, n + 1, k)) by { assert(ids[n] == k); }
    assert forall|j: int| 0 <= j < n + 1 implies #[trigger] tbal_step(ids[j], bs2[j], bs2[j + 1], s0, p0, epoch) by {
        if j < n { assert(bs2[j] == bs[j] && bs2[j + 1] == bs[j + 1]); assert(tbal_step(ids[j], bs[j], bs[j + 1], s0, p0, epoch)); }
        else { assert(bs2[n] == (a.esc, a.lck) && bs2[n + 1] == (b.esc, b.lck)); }
    }
    assert forall|j: int| 0 <= j < n + 1 && is_term(p0, #[trigger] ids[j], epoch) implies !b.sn.dom().contains(ids[j]) && !b.pn.dom().contains(ids[j]) && s0.dom().contains(ids[j]) by { }
}
/// postcondition of the OnMinerSectorsTerminate transaction closure (ids: the deal ids listed under the terminated sectors)
pub open spec fn omst_post(bs: Seq<Bals>, st0: State, st1: State, miner: Address, epoch: ChainEpoch, ids: Seq<u64>, total: int) -> bool {
    let (s0, p0, s1, p1) = (dstates_m(st0), props_m(st0), dstates_m(st1), props_m(st1));
    let n = ids.len() as int;
    &&& st1.next_id == st0.next_id && st1.deal_ops_by_epoch == st0.deal_ops_by_epoch && st1.last_cron == st0.last_cron
    // no deal state or proposal is modified or created: entries only disappear ...
    &&& sub_map(s1, s0) && sub_map(p1, p0)
    // ... and only for unexpired deals of THIS provider listed under the terminated sectors, state and proposal together
    &&& (forall|k: u64| #[trigger] s0.dom().contains(k) && !s1.dom().contains(k) ==> ids.contains(k) && is_term(p0, k, epoch) && p0[k].provider == miner && !p1.dom().contains(k))
    &&& (forall|k: u64| #[trigger] p0.dom().contains(k) && !p1.dom().contains(k) ==> ids.contains(k) && is_term(p0, k, epoch) && p0[k].provider == miner && !s1.dom().contains(k))
    // every listed deal that has not reached its end is terminated: its state is deleted, so it can never be paid again
    &&& (forall|j: int| 0 <= j < n && is_term(p0, #[trigger] ids[j], epoch) ==> s0.dom().contains(ids[j]) && !s1.dom().contains(ids[j]) && !p1.dom().contains(ids[j]))
    // "provider collateral ... burnt in full on early termination": the amount returned for burning
    &&& total == term_sum(ids, p0, epoch, n)
    // balances: one process_slashed_deal per terminated deal, for the loaded state with slash_epoch = the termination epoch
    &&& bs.len() == n + 1 && bs[0] == (esc(st0), lck(st0)) && bs[n] == (esc(st1), lck(st1))
    &&& (forall|j: int| 0 <= j < n ==> #[trigger] tbal_step(ids[j], bs[j], bs[j + 1], s0, p0, epoch))
    &&& wf2(st1) && (jinv(st0) ==> jinv(st1))
}
pub open spec fn omst_post_ex(st0: State, st1: State, miner: Address, epoch: ChainEpoch, ids: Seq<u64>, total: int) -> bool {
    exists|bs: Seq<Bals>| #[trigger] omst_post(bs, st0, st1, miner, epoch, ids, total)
}
pub proof fn lemma_tfinal(bs: Seq<Bals>, x: TSnap, st0: State, st1: State, miner: Address, epoch: ChainEpoch, ids: Seq<u64>)
    requires
        tstrong(bs, x, dstates_m(st0), props_m(st0), jinv(st0), miner, epoch, ids, ids.len() as int), bs[0] == (esc(st0), lck(st0)),
        x == tsnap_of(st1, x.total), wf2(st1),
        st1.next_id == st0.next_id && st1.deal_ops_by_epoch == st0.deal_ops_by_epoch && st1.last_cron == st0.last_cron,
    ensures omst_post(bs, st0, st1, miner, epoch, ids, x.total)
{
    reveal(tstrong);
    let n = ids.len() as int;
    assert forall|k: u64| done_before(ids, n, k) implies ids.contains(k) by {
        let j = choose|j: int| 0 <= j < n && #[trigger] ids[j] == k; assert(ids[j] == k);
    }
}

//@ fn actors/market/src/lib.rs Actor::on_miner_sectors_terminate closure=0 as=omst_tx0 params="st: &mut State, rt: &mut Rt, params: &OnMinerSectorsTerminateParams, miner_addr: Address" retty="Result<TokenAmount, ActorError>" ret=res r19=0 sub0="let id = & __vx_v0 [__vx_i0]=>let id = __vx_v0[__vx_i0]"
    requires
        wf2(*old(st)), props_ok(props_m(*old(st))), states_ok(dstates_m(*old(st))),
        miner_addr.proto == 0, params.epoch >= 0,
    ensures
        *final(rt) == (Rt { events: final(rt).events, ..*old(rt) }),
        res.is_ok() ==> omst_post_ex(*old(st), (State { provider_sectors: old(st).provider_sectors, ..*final(st) }), miner_addr, params.epoch,
            popped_deal_ids(old(st).provider_sectors, miner_addr.id, bf_seq(params.sectors@)), res->Ok_0@),
        res.is_ok() ==> res->Ok_0@ >= 0,
        // the sector → deal lists of the terminated sectors are dropped from the index, all at once; no other list changes
        res.is_ok() ==> forall|p: ActorID, s: SectorNumber, d: DealID| #[trigger] sector_deals_of(final(st).provider_sectors, p, s).contains(d)
            <==> sector_deals_of(old(st).provider_sectors, p, s).contains(d) && !(p == miner_addr.id && params.sectors@.contains(s)),
//@ entry
        let ghost st0 = *st;
        let ghost s0 = dstates_m(*st);
        let ghost p0 = props_m(*st);
        let ghost ids = popped_deal_ids(st.provider_sectors, miner_addr.id, bf_seq(params.sectors@));
        let ghost mut pi: int = 0;
        let ghost mut bs: Seq<Bals> = seq![(esc(*st), lck(*st))];
        let ghost mut prev: TSnap = tsnap_of(*st, 0);
        proof { lemma_tinit(*st, miner_addr, params.epoch, ids); }
//@ loop 0
                invariant
                    __vx_i0 <= __vx_v0.len(), __vx_v0@ == ids,
                    *rt == (Rt { events: rt.events, ..*old(rt) }),
                    proposals.view() == p0, states.view() == s0, props_ok(p0), states_ok(s0), params.epoch >= 0,
                    wf2(*st),
                    st.next_id == st0.next_id, st.deal_ops_by_epoch == st0.deal_ops_by_epoch, st.last_cron == st0.last_cron,
                    forall|p: ActorID, s: SectorNumber, d: DealID| #[trigger] sector_deals_of(st.provider_sectors, p, s).contains(d)
                        <==> sector_deals_of(st0.provider_sectors, p, s).contains(d) && !(p == miner_addr.id && params.sectors@.contains(s)),
                    0 <= pi <= ids.len(), bs.len() == pi + 1, bs[0] == (esc(st0), lck(st0)),
                    tstrong(bs, prev, s0, p0, jinv(st0), miner_addr, params.epoch, ids, pi),
                    tpending(prev, tsnap_of(*st, total_slashed@), s0, p0, miner_addr, params.epoch, ids, pi, __vx_i0 as int),
                decreases __vx_v0.len() - __vx_i0,
//@ loopstart 0
                proof {
                    let cur = tsnap_of(*st, total_slashed@);
                    if pi + 1 == __vx_i0 {
                        lemma_tfold(bs, prev, cur, s0, p0, jinv(st0), miner_addr, params.epoch, ids, pi);
                        bs = bs.push((cur.esc, cur.lck));
                        pi = pi + 1;
                    }
                    prev = cur;
                }
//@ before "Ok (total_slashed)"
        proof {
            let cur = tsnap_of(*st, total_slashed@);
            if pi + 1 == ids.len() {
                lemma_tfold(bs, prev, cur, s0, p0, jinv(st0), miner_addr, params.epoch, ids, pi);
                bs = bs.push((cur.esc, cur.lck));
                pi = pi + 1;
            }
            let st1 = State { provider_sectors: st0.provider_sectors, ..*st };
            lemma_tfinal(bs, cur, st0, st1, miner_addr, params.epoch, ids);
            assert(omst_post(bs, st0, st1, miner_addr, params.epoch, ids, total_slashed@));
            lemma_term_sum_nonneg(ids, p0, params.epoch, ids.len() as int);
        }
//@ end

// ======================= OnMinerSectorsTerminate: whole method =======================
//@ fn actors/market/src/lib.rs Actor::on_miner_sectors_terminate free tx0="State;omst_tx0;&mut __vx_st, rt, &params, miner_addr" ret=res
    requires
        !old(rt).in_tx@, old(rt).tx_log@.len() == 0, old(rt).validated@.is_none(),
        old(rt).msg.caller.proto == 0,      // the immediate caller is always addressed by ID (FVM)
        params.epoch >= 0,
        wf2(rt_state::<State>(old(rt).state_id@)),
        props_ok(props_m(rt_state::<State>(old(rt).state_id@))),
        states_ok(dstates_m(rt_state::<State>(old(rt).state_id@))),
    ensures
        /*C11*/ res.is_ok() ==> old(rt).caller_type@ == Some(Type::Miner) && final(rt).validated@.is_some(),
        // the collateral of the terminated deals is burnt in full: one plain send of exactly that amount, none when it is zero
        res.is_ok() ==> burn_shape(old(rt).sends@, final(rt).sends@),
        res.is_ok() ==> final(rt).tx_log@.len() == 1 && ({
            let s0 = rt_state::<State>(old(rt).state_id@);
            let s1 = rt_state::<State>(final(rt).tx_log@[0]);
            omst_post_ex(s0, (State { provider_sectors: s0.provider_sectors, ..s1 }), old(rt).msg.caller, params.epoch,
                popped_deal_ids(s0.provider_sectors, old(rt).msg.caller.id, bf_seq(params.sectors@)), burn_value(old(rt).sends@, final(rt).sends@))
        }),
//@ end

// ======================= CronTick: the per-deal part (the inner loop over one epoch's deal ids) =======================
// Extracted with the R21 region rule (no slicing: every statement of the loop is kept): the statement
// `for deal_id in deal_ids { … }` of the transaction closure of cron_tick, lifted into a function of its own. The epoch loop
// around it, the re-scheduling (`new_updates_scheduled`, next_update_epoch), `remove_deals_by_epoch`, `last_cron` and the
// burn after the transaction are NOT under contract here.
/// the variables of the per-deal loop at a loop head
pub ghost struct CSnap {
    pub sn: Map<u64, DealState>,
    pub pn: Map<u64, DealProposal>,
    pub q: Map<ActorID, Map<SectorNumber, Seq<DealID>>>,
    pub sched: Map<ChainEpoch, Seq<DealID>>,
    pub slashed: int,
    pub esc: Map<Address, TokenAmount>,
    pub lck: Map<Address, TokenAmount>,
    pub jv: bool,
}
pub open spec fn csnap_of(st: State, q: Map<ActorID, Map<SectorNumber, Seq<DealID>>>, sched: Map<ChainEpoch, Seq<DealID>>, slashed: int) -> CSnap {
    CSnap { sn: dstates_m(st), pn: props_m(st), q, sched, slashed, esc: esc(st), lck: lck(st), jv: jinv(st) }
}
/// deal k is appended to the list of some epoch of the re-scheduling map
pub open spec fn sched_pushed(m1: Map<ChainEpoch, Seq<DealID>>, m2: Map<ChainEpoch, Seq<DealID>>, k: DealID) -> bool {
    exists|ne: ChainEpoch| m2 == m1.insert(ne, (#[trigger] sched_list(m1, ne)).push(k))
}
/// one iteration of the cron loop for deal id k at epoch e (only runs in which the tick does not abort)
pub open spec fn cstep(a: CSnap, b: CSnap, e: ChainEpoch, k: u64) -> bool {
    if !a.pn.dom().contains(k) {
        b == a                      // cleaned up by a manual settlement or a termination before this tick
    } else if !a.sn.dom().contains(k) {
        // never activated: a tick at or after the start epoch removes the proposal, burns the provider's collateral in full,
        // refunds the client (a tick before the start epoch aborts)
        let d = a.pn[k];
        &&& e >= d.start_epoch
        &&& b.sn == a.sn && b.pn == a.pn.remove(k) && b.q == a.q && b.sched == a.sched
        &&& b.slashed == a.slashed + d.provider_collateral@
        &&& moved(a.esc, b.esc, d.provider, -d.provider_collateral@, d.provider, 0)
        &&& moved(a.lck, b.lck, d.client, -(fee(d) + d.client_collateral@), d.provider, -d.provider_collateral@)
        &&& (a.jv ==> b.jv)
    } else if a.sn[k].last_updated_epoch == EPOCH_UNDEFINED {
        b == a                      // activated, never settled: left to explicit settlement (only its pending-proposal entry is dropped)
    } else {
        // legacy deal, settled by cron
        let d = a.pn[k];
        let s = a.sn[k];
        // either the deal is deleted (state and proposal together) and queued for removal from the sector index ...
        let removed = b.sn == a.sn.remove(k) && b.pn == a.pn.remove(k) && queue_pushed(a.q, b.q, d.provider.id, s.sector_number, k) && b.sched == a.sched;
        // ... or its state is written back with ONLY last_updated_epoch changed, to exactly the current epoch, and it is re-scheduled
        let kept = b.sn == a.sn.insert(k, upd(s, e)) && b.pn == a.pn && b.q == a.q && sched_pushed(a.sched, b.sched, k) && b.slashed == a.slashed;
        &&& (removed || kept)
        &&& s.last_updated_epoch <= e
        &&& (s.slash_epoch == EPOCH_UNDEFINED ==> (a.jv ==> b.jv))
        &&& (d.start_epoch > e ==> kept && b.esc == a.esc && b.lck == a.lck)
        // not marked for termination: pays exactly the epochs since the marker; done (and collaterals released) iff the end is reached
        &&& (d.start_epoch <= e && s.slash_epoch == EPOCH_UNDEFINED && lu_eff(d, s) <= d.end_epoch ==> ({
                let pay = pay_now(d, s, e);
                let done = e >= d.end_epoch;
                &&& (if done { removed } else { kept })
                &&& b.slashed == a.slashed
                &&& moved(a.esc, b.esc, d.client, -pay, d.provider, pay)
                &&& moved(a.lck, b.lck, d.client, -(pay + if done { d.client_collateral@ } else { 0 }), d.provider, -(if done { d.provider_collateral@ } else { 0 }))
            }))
        // legacy deal marked for termination: deleted, its provider collateral goes to the burn
        &&& (d.start_epoch <= e && s.slash_epoch != EPOCH_UNDEFINED ==> removed && b.slashed == a.slashed + d.provider_collateral@)
    }
}
pub open spec fn cpending(prev: CSnap, cur: CSnap, e: ChainEpoch, ids: Seq<u64>, pi: int, i: int) -> bool {
    (pi == i && cur == prev) || (pi + 1 == i && cstep(prev, cur, e, ids[pi]))
}
pub open spec fn cchain(cs: Seq<CSnap>, e: ChainEpoch, ids: Seq<u64>, n: int) -> bool {
    forall|j: int| 0 <= j < n ==> #[trigger] cstep(cs[j], cs[j + 1], e, ids[j])
}
/// postcondition of the per-deal cron loop: the loop acts like the sequence cs of single-deal steps
pub open spec fn cron_post(cs: Seq<CSnap>, st0: State, st1: State, x0: CSnap, x1: CSnap, e: ChainEpoch, ids: Seq<u64>) -> bool {
    let n = ids.len() as int;
    &&& cs.len() == n + 1 && cs[0] == x0 && cs[n] == x1 && cchain(cs, e, ids, n)
    &&& st1.next_id == st0.next_id && st1.deal_ops_by_epoch == st0.deal_ops_by_epoch && st1.last_cron == st0.last_cron && st1.provider_sectors == st0.provider_sectors
    &&& wf2(st1) && props_ok(props_m(st1)) && states_ok(dstates_m(st1))
}
pub open spec fn cron_post_ex(st0: State, st1: State, x0: CSnap, x1: CSnap, e: ChainEpoch, ids: Seq<u64>) -> bool {
    exists|cs: Seq<CSnap>| #[trigger] cron_post(cs, st0, st1, x0, x1, e, ids)
}
pub proof fn lemma_cpush(cs: Seq<CSnap>, b: CSnap, e: ChainEpoch, ids: Seq<u64>, n: int)
    requires cs.len() == n + 1, 0 <= n < ids.len(), cchain(cs, e, ids, n), cstep(cs[n], b, e, ids[n]),
    ensures cchain(cs.push(b), e, ids, n + 1)
{
    let c2 = cs.push(b);
    assert forall|j: int| 0 <= j < n + 1 implies #[trigger] cstep(c2[j], c2[j + 1], e, ids[j]) by {
        if j < n { assert(c2[j] == cs[j] && c2[j + 1] == cs[j + 1]); assert(cstep(cs[j], cs[j + 1], e, ids[j])); }
        else { assert(c2[n] == cs[n] && c2[n + 1] == b); }
    }
}
/// put_deal_states of a single entry is one insert
pub proof fn lemma_set_all_one()
    ensures forall|m: Map<u64, DealState>, s: Seq<(DealID, DealState)>| s.len() == 1 ==> #[trigger] set_all(m, s) == m.insert(s[0].0, s[0].1)
{
    assert forall|m: Map<u64, DealState>, s: Seq<(DealID, DealState)>| s.len() == 1 implies #[trigger] set_all(m, s) == m.insert(s[0].0, s[0].1) by {
        assert(s.drop_last().len() == 0);
        assert(set_all(m, s.drop_last()) == m);
        assert(s.last() == s[0]);
    }
}
//@ fn actors/market/src/lib.rs Actor::cron_tick region="for deal_id in deal_ids=>for deal_id in deal_ids" as=cron_deals params="st: &mut State, rt: &mut Rt, deal_ids: Vec<DealID>, curr_epoch: ChainEpoch, amount_slashed: &mut TokenAmount, provider_deals_to_remove: &mut DealsToRemove, new_updates_scheduled: &mut UpdatesScheduled" retty="Result<(), ActorError>" tail="Ok(())" derefs=amount_slashed ret=res r19=0 sub0="let deal_id = & __vx_v0 [__vx_i0]=>let deal_id = __vx_v0[__vx_i0]" suball0=". entry=>. vx_at" suball1=". or_default ()=>"
    requires
        wf2(*old(st)), props_ok(props_m(*old(st))), states_ok(dstates_m(*old(st))),
        0 <= curr_epoch < i64::MAX,
    ensures
        *final(rt) == (Rt { events: final(rt).events, ..*old(rt) }),
        res.is_ok() ==> cron_post_ex(*old(st), *final(st),
            csnap_of(*old(st), old(provider_deals_to_remove)@, old(new_updates_scheduled)@, old(amount_slashed)@),
            csnap_of(*final(st), final(provider_deals_to_remove)@, final(new_updates_scheduled)@, final(amount_slashed)@),
            curr_epoch, deal_ids@),
//@ entry
        let ghost st0 = *st;
        let ghost ids = deal_ids@;
        let ghost x0 = csnap_of(*st, provider_deals_to_remove@, new_updates_scheduled@, amount_slashed@);
        let ghost mut pi: int = 0;
        let ghost mut cs: Seq<CSnap> = seq![x0];
        let ghost mut prev: CSnap = x0;
//@ loop 0
            invariant
                __vx_i0 <= __vx_v0.len(), __vx_v0@ == ids,
                *rt == (Rt { events: rt.events, ..*old(rt) }),
                wf2(*st), props_ok(props_m(*st)), states_ok(dstates_m(*st)), 0 <= curr_epoch < i64::MAX,
                st.next_id == st0.next_id, st.deal_ops_by_epoch == st0.deal_ops_by_epoch, st.last_cron == st0.last_cron, st.provider_sectors == st0.provider_sectors,
                0 <= pi <= ids.len(), cs.len() == pi + 1, cs[0] == x0, cs[pi] == prev, cchain(cs, curr_epoch, ids, pi),
                cpending(prev, csnap_of(*st, provider_deals_to_remove@, new_updates_scheduled@, amount_slashed@), curr_epoch, ids, pi, __vx_i0 as int),
            decreases __vx_v0.len() - __vx_i0,
//@ loopstart 0
                proof {
                    let cur = csnap_of(*st, provider_deals_to_remove@, new_updates_scheduled@, amount_slashed@);
                    if pi + 1 == __vx_i0 {
                        lemma_cpush(cs, cur, curr_epoch, ids, pi);
                        cs = cs.push(cur);
                        pi = pi + 1;
                    }
                    prev = cur;
                }
//@ loopend 0
                proof { lemma_set_all_one(); }
//@ before "Ok (())"
        proof {
            let cur = csnap_of(*st, provider_deals_to_remove@, new_updates_scheduled@, amount_slashed@);
            if pi + 1 == ids.len() {
                lemma_cpush(cs, cur, curr_epoch, ids, pi);
                cs = cs.push(cur);
                pi = pi + 1;
            }
            assert(cron_post(cs, st0, *st, x0, cur, curr_epoch, ids));
        }
//@ end
} // verus!
fn main() {}
