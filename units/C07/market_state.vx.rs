// unit: market State — escrow/locked tables (C06), deal payment settlement (C07), deal ids (C08), solvency (C01)
//@ include prelude/core.rs
//@ include prelude/ipld.rs
use std::cmp::{max, min};
verus! {

//@ include units/shared/market_state.inc
} // verus!
fn main() {}
