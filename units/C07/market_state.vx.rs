// unit: market State — escrow/locked tables (C06), deal payment settlement (C07), deal ids (C08), solvency (C01)
//@ include prelude/core.rs
//@ include prelude/ipld.rs
use std::cmp::{max, min};
verus! {

//@ include units/shared/balance_table.inc
//@ include units/shared/set.inc

pub struct PaddedPieceSize(pub u64);
pub type AllocationID = u64;
//@ item actors/market/src/deal.rs Label
//@ item actors/market/src/deal.rs DealProposal
//@ item actors/market/src/deal.rs DealState attr="#[derive(Clone, Copy)]"
//@ item actors/market/src/state.rs Reason
//@ item actors/market/src/state.rs State
//@ item actors/market/src/state.rs PendingProposalsSet
//@ const actors/market/src/state.rs PENDING_PROPOSALS_CONFIG

// ======================= spec =======================
pub open spec fn esc(s: State) -> Map<Address, TokenAmount> { map2_decode::<Address, TokenAmount>(s.escrow_table) }
pub open spec fn lck(s: State) -> Map<Address, TokenAmount> { map2_decode::<Address, TokenAmount>(s.locked_table) }
pub open spec fn pend(s: State) -> vstd::set::Set<Cid> { map2_decode::<Cid, ()>(s.pending_proposals).dom() }

/// per-participant escrow invariant of C06: 0 <= locked[a] <= escrow[a]
pub open spec fn jinv(s: State) -> bool {
    &&& bt_wf(esc(s))
    &&& bt_wf(lck(s))
    &&& forall|a: Address| #[trigger] bal(lck(s), a) <= bal(esc(s), a)
}
pub open spec fn d2(k: Address, a1: Address, x1: int, a2: Address, x2: int) -> int {
    (if k == a1 { x1 } else { 0 }) + (if k == a2 { x2 } else { 0 })
}
/// table m2 is m1 with x1 added at a1 and x2 added at a2 (a1 may equal a2); every other key unchanged
pub open spec fn moved(m1: Map<Address, TokenAmount>, m2: Map<Address, TokenAmount>, a1: Address, x1: int, a2: Address, x2: int) -> bool {
    forall|k: Address| #[trigger] bal(m2, k) == bal(m1, k) + d2(k, a1, x1, a2, x2)
}
/// everything that is not a balance table or a locked total
pub open spec fn rest_eq(a: State, b: State) -> bool {
    &&& a.proposals == b.proposals
    &&& a.states == b.states
    &&& a.next_id == b.next_id
    &&& a.deal_ops_by_epoch == b.deal_ops_by_epoch
    &&& a.last_cron == b.last_cron
    &&& a.pending_deal_allocation_ids == b.pending_deal_allocation_ids
    &&& a.provider_sectors == b.provider_sectors
}
pub open spec fn totals_eq(a: State, b: State) -> bool {
    &&& a.total_client_locked_collateral@ == b.total_client_locked_collateral@
    &&& a.total_provider_locked_collateral@ == b.total_provider_locked_collateral@
    &&& a.total_client_storage_fee@ == b.total_client_storage_fee@
}
pub open spec fn deal_wf(d: DealProposal) -> bool {
    &&& 0 <= d.start_epoch <= d.end_epoch
    &&& d.storage_price_per_epoch@ >= 0
    &&& d.provider_collateral@ >= 0
    &&& d.client_collateral@ >= 0
}
pub open spec fn fee(d: DealProposal) -> int { d.storage_price_per_epoch@ * (d.end_epoch - d.start_epoch) }

// ======================= DealProposal helpers =======================
//@ fn actors/market/src/deal.rs DealProposal::duration
    requires 0 <= self.start_epoch, 0 <= self.end_epoch,
    ensures r == self.end_epoch - self.start_epoch,
//@ end
//@ fn actors/market/src/deal.rs DealProposal::total_storage_fee
    requires deal_wf(*self),
    ensures r@ == fee(*self),
//@ end
//@ fn actors/market/src/deal.rs DealProposal::client_balance_requirement
    requires deal_wf(*self),
    ensures r@ == self.client_collateral@ + fee(*self),
//@ end
//@ fn actors/market/src/deal.rs DealProposal::provider_balance_requirement
    ensures r@ == self.provider_collateral@,
//@ end
//@ fn actors/market/src/policy.rs collateral_penalty_for_deal_activation_missed
    ensures r@ == provider_collateral@,     // "burnt in full on ... missed activation"
//@ end

// ======================= escrow / locked tables (C06) =======================
//@ fn actors/market/src/state.rs State::add_balance_to_escrow_table
    requires jinv(*old(self)),
    ensures
        rest_eq(*old(self), *final(self)), totals_eq(*old(self), *final(self)),
        final(self).locked_table == old(self).locked_table,
        final(self).pending_proposals == old(self).pending_proposals,
        r.is_ok() ==> bal(esc(*old(self)), *addr) + amount@ >= 0
            && moved(esc(*old(self)), esc(*final(self)), *addr, amount@, *addr, 0)
            && (amount@ >= 0 ==> jinv(*final(self))),
        r.is_err() ==> *final(self) == *old(self),
//@ end

//@ fn actors/market/src/state.rs State::withdraw_balance_from_escrow_table
    requires jinv(*old(self)),
    ensures
        rest_eq(*old(self), *final(self)), totals_eq(*old(self), *final(self)),
        final(self).locked_table == old(self).locked_table,
        final(self).pending_proposals == old(self).pending_proposals,
        // "can withdraw exactly its escrow minus its locked amount" (capped by the request)
        r.is_ok() ==> ({
            let avail = bal(esc(*old(self)), *addr) - bal(lck(*old(self)), *addr);
            let ex = if amount@ <= avail { amount@ } else { avail };
            &&& r->Ok_0@ == ex
            &&& moved(esc(*old(self)), esc(*final(self)), *addr, if ex > 0 { -ex } else { 0 }, *addr, 0)
            &&& jinv(*final(self))
        }),
        r.is_err() ==> *final(self) == *old(self),
//@ end

//@ fn actors/market/src/state.rs State::balance_covered
    requires jinv(*self),
    ensures
        r.is_ok() ==> r->Ok_0 == (bal(lck(*self), addr) + amount_to_lock@ <= bal(esc(*self), addr)),
//@ end

//@ fn actors/market/src/state.rs State::maybe_lock_balance
    requires jinv(*old(self)),
    ensures
        rest_eq(*old(self), *final(self)), totals_eq(*old(self), *final(self)),
        final(self).escrow_table == old(self).escrow_table,
        final(self).pending_proposals == old(self).pending_proposals,
        // locks only what is covered by unlocked escrow
        r.is_ok() ==> amount@ >= 0
            && bal(lck(*old(self)), *addr) + amount@ <= bal(esc(*old(self)), *addr)
            && moved(lck(*old(self)), lck(*final(self)), *addr, amount@, *addr, 0)
            && jinv(*final(self)),
        r.is_err() ==> *final(self) == *old(self),
//@ end

//@ fn actors/market/src/state.rs State::lock_client_and_provider_balances
    requires jinv(*old(self)), deal_wf(*proposal),
    ensures
        rest_eq(*old(self), *final(self)),
        final(self).pending_proposals == old(self).pending_proposals,
        r.is_ok() ==> final(self).escrow_table == old(self).escrow_table
            && moved(lck(*old(self)), lck(*final(self)), proposal.client, proposal.client_collateral@ + fee(*proposal),
                     proposal.provider, proposal.provider_collateral@)
            && final(self).total_client_locked_collateral@ == old(self).total_client_locked_collateral@ + proposal.client_collateral@
            && final(self).total_client_storage_fee@ == old(self).total_client_storage_fee@ + fee(*proposal)
            && final(self).total_provider_locked_collateral@ == old(self).total_provider_locked_collateral@ + proposal.provider_collateral@
            && jinv(*final(self)),
//@ end

//@ fn actors/market/src/state.rs State::unlock_balance
    requires bt_wf(lck(*old(self))),
    ensures
        rest_eq(*old(self), *final(self)),
        final(self).escrow_table == old(self).escrow_table,
        final(self).pending_proposals == old(self).pending_proposals,
        r.is_ok() ==> 0 <= amount@ <= bal(lck(*old(self)), *addr)
            && moved(lck(*old(self)), lck(*final(self)), *addr, -amount@, *addr, 0)
            && bt_wf(lck(*final(self)))
            && (jinv(*old(self)) ==> jinv(*final(self)))
            && final(self).total_client_locked_collateral@ == old(self).total_client_locked_collateral@ - (if lock_reason is ClientCollateral { amount@ } else { 0 })
            && final(self).total_client_storage_fee@ == old(self).total_client_storage_fee@ - (if lock_reason is ClientStorageFee { amount@ } else { 0 })
            && final(self).total_provider_locked_collateral@ == old(self).total_provider_locked_collateral@ - (if lock_reason is ProviderCollateral { amount@ } else { 0 }),
//@ end

//@ fn actors/market/src/state.rs State::transfer_balance
    requires jinv(*old(self)),
    ensures
        rest_eq(*old(self), *final(self)),
        final(self).pending_proposals == old(self).pending_proposals,
        // funds move from the payer's locked escrow to the payee's free escrow, atto for atto
        r.is_ok() ==> 0 <= amount@ <= bal(lck(*old(self)), *from_addr),
        r.is_ok() ==> moved(esc(*old(self)), esc(*final(self)), *from_addr, -amount@, *to_addr, amount@),
        r.is_ok() ==> moved(lck(*old(self)), lck(*final(self)), *from_addr, -amount@, *from_addr, 0),
        r.is_ok() ==> final(self).total_client_storage_fee@ == old(self).total_client_storage_fee@ - amount@,
        r.is_ok() ==> final(self).total_client_locked_collateral@ == old(self).total_client_locked_collateral@,
        r.is_ok() ==> final(self).total_provider_locked_collateral@ == old(self).total_provider_locked_collateral@,
        r.is_ok() ==> jinv(*final(self)),
//@ end

//@ fn actors/market/src/state.rs State::slash_balance
    requires jinv(*old(self)),
    ensures
        rest_eq(*old(self), *final(self)),
        final(self).pending_proposals == old(self).pending_proposals,
        r.is_ok() ==> 0 <= amount@ <= bal(lck(*old(self)), *addr)
            && moved(esc(*old(self)), esc(*final(self)), *addr, -amount@, *addr, 0)
            && moved(lck(*old(self)), lck(*final(self)), *addr, -amount@, *addr, 0)
            && jinv(*final(self))
            && final(self).total_client_locked_collateral@ == old(self).total_client_locked_collateral@ - (if lock_reason is ClientCollateral { amount@ } else { 0 })
            && final(self).total_client_storage_fee@ == old(self).total_client_storage_fee@ - (if lock_reason is ClientStorageFee { amount@ } else { 0 })
            && final(self).total_provider_locked_collateral@ == old(self).total_provider_locked_collateral@ - (if lock_reason is ProviderCollateral { amount@ } else { 0 }),
//@ end

// ======================= deal ids (C08) =======================
//@ fn actors/market/src/state.rs State::generate_storage_deal_id
    requires old(self).next_id < u64::MAX,
    ensures
        r == old(self).next_id,                             // ids are handed out in increasing order ...
        final(self).next_id == old(self).next_id + 1,       // ... and never reused
        final(self).escrow_table == old(self).escrow_table, final(self).locked_table == old(self).locked_table,
        final(self).proposals == old(self).proposals, final(self).states == old(self).states,
        final(self).pending_proposals == old(self).pending_proposals,
        totals_eq(*old(self), *final(self)),
//@ end

// ======================= pending proposals (C08) =======================
//@ fn actors/market/src/state.rs State::load_pending_deals
    ensures r.is_ok() ==> r->Ok_0.0.view().dom() == pend(*self),
//@ end
//@ fn actors/market/src/state.rs State::save_pending_deals
    ensures
        r.is_ok() ==> pend(*final(self)) == old(pending_deals).0.view().dom(),
        r.is_err() ==> *final(self) == *old(self),
        final(self).escrow_table == old(self).escrow_table, final(self).locked_table == old(self).locked_table,
        rest_eq(*old(self), *final(self)), totals_eq(*old(self), *final(self)),
//@ end
//@ fn actors/market/src/state.rs State::has_pending_deal
    ensures r.is_ok() ==> r->Ok_0 == pend(*self).contains(*key),
//@ end
//@ fn actors/market/src/state.rs State::remove_pending_deal
    ensures
        r.is_ok() ==> pend(*final(self)) == pend(*old(self)).remove(pending_deal_key),
        r.is_ok() ==> (r->Ok_0.is_some() <==> pend(*old(self)).contains(pending_deal_key)),
        r.is_err() ==> *final(self) == *old(self),
        final(self).escrow_table == old(self).escrow_table, final(self).locked_table == old(self).locked_table,
        rest_eq(*old(self), *final(self)), totals_eq(*old(self), *final(self)),
//@ end

// ======================= deal payments (C07) =======================
// The statement's payment function, written from the property:
//   the provider is credited price-per-epoch for every epoch in [start, min(end, termination)).
pub open spec fn imax(a: int, b: int) -> int { if a >= b { a } else { b } }
pub open spec fn imin(a: int, b: int) -> int { if a <= b { a } else { b } }
pub open spec fn clamp(d: DealProposal, e: int) -> int { imax(d.start_epoch as int, imin(d.end_epoch as int, e)) }
/// total owed to the provider for storage up to (not including) epoch e
pub open spec fn paid_upto(d: DealProposal, e: int) -> int { d.storage_price_per_epoch@ * (clamp(d, e) - d.start_epoch) }
/// effective "paid so far" marker of a deal state
pub open spec fn lu_eff(d: DealProposal, s: DealState) -> int { if s.last_updated_epoch == EPOCH_UNDEFINED { d.start_epoch as int } else { s.last_updated_epoch as int } }
pub open spec fn state_wf(s: DealState) -> bool {
    s.last_updated_epoch >= -1 && s.slash_epoch >= -1 && s.sector_start_epoch >= -1
}

//@ fn actors/market/src/state.rs deal_get_payment_remaining
    requires 0 <= deal.start_epoch, 0 <= deal.end_epoch, slash_epoch >= -1,
    ensures
        r.is_ok() <==> slash_epoch <= deal.end_epoch && deal.start_epoch <= deal.end_epoch,
        // unspent fee: every epoch from max(slash, start) to end
        r.is_ok() ==> r->Ok_0@ == deal.storage_price_per_epoch@ * (deal.end_epoch - imax(slash_epoch as int, deal.start_epoch as int)),
//@ end

//@ fn actors/market/src/state.rs State::process_deal_expired
    requires jinv(*old(self)),
    ensures
        rest_eq(*old(self), *final(self)),
        final(self).escrow_table == old(self).escrow_table,
        final(self).pending_proposals == old(self).pending_proposals,
        // both collaterals are released, nothing else moves
        r.is_ok() ==> moved(lck(*old(self)), lck(*final(self)), deal.provider, -deal.provider_collateral@, deal.client, -deal.client_collateral@),
        r.is_ok() ==> final(self).total_provider_locked_collateral@ == old(self).total_provider_locked_collateral@ - deal.provider_collateral@,
        r.is_ok() ==> final(self).total_client_locked_collateral@ == old(self).total_client_locked_collateral@ - deal.client_collateral@,
        r.is_ok() ==> final(self).total_client_storage_fee@ == old(self).total_client_storage_fee@,
        r.is_ok() ==> jinv(*final(self)),
        r.is_ok() ==> state.sector_start_epoch != EPOCH_UNDEFINED,
//@ end

//@ fn actors/market/src/state.rs State::process_deal_init_timed_out
    requires jinv(*old(self)), deal_wf(*deal),
    ensures
        rest_eq(*old(self), *final(self)),
        final(self).pending_proposals == old(self).pending_proposals,
        // missed activation: provider collateral burnt in full, client fully refunded (fee and collateral unlocked)
        r.is_ok() ==> r->Ok_0@ == deal.provider_collateral@,
        r.is_ok() ==> moved(esc(*old(self)), esc(*final(self)), deal.provider, -deal.provider_collateral@, deal.provider, 0),
        r.is_ok() ==> moved(lck(*old(self)), lck(*final(self)), deal.client, -(fee(*deal) + deal.client_collateral@), deal.provider, -deal.provider_collateral@),
        r.is_ok() ==> final(self).total_client_storage_fee@ == old(self).total_client_storage_fee@ - fee(*deal),
        r.is_ok() ==> final(self).total_client_locked_collateral@ == old(self).total_client_locked_collateral@ - deal.client_collateral@,
        r.is_ok() ==> final(self).total_provider_locked_collateral@ == old(self).total_provider_locked_collateral@ - deal.provider_collateral@,
        r.is_ok() ==> jinv(*final(self)),
//@ end

//@ fn actors/market/src/state.rs State::process_slashed_deal
    requires jinv(*old(self)), deal_wf(*proposal), state_wf(*state),
    ensures
        rest_eq(*old(self), *final(self)),
        final(self).pending_proposals == old(self).pending_proposals,
        r.is_ok() ==> ({
            let d = *proposal;
            // paid now: price * max(0, min(end, slash) - max(start, last_updated))
            let n = imax(0, imin(d.end_epoch as int, state.slash_epoch as int) - imax(d.start_epoch as int, state.last_updated_epoch as int));
            let pay = d.storage_price_per_epoch@ * n;
            let refund = d.storage_price_per_epoch@ * (d.end_epoch - imax(state.slash_epoch as int, d.start_epoch as int));
            // provider collateral returned as slashed, in full
            &&& r->Ok_0@ == d.provider_collateral@
            &&& state.slash_epoch <= d.end_epoch
            // escrow: client pays `pay` to provider; provider loses its collateral
            &&& forall|k: Address| #[trigger] bal(esc(*final(self)), k) == bal(esc(*old(self)), k)
                    + d2(k, d.client, -pay, d.provider, pay) + d2(k, d.provider, -d.provider_collateral@, d.provider, 0)
            // locked: client's payment, unspent fee and collateral all leave the locked table, provider's collateral too
            &&& forall|k: Address| #[trigger] bal(lck(*final(self)), k) == bal(lck(*old(self)), k)
                    + d2(k, d.client, -(pay + refund + d.client_collateral@), d.provider, -d.provider_collateral@)
            &&& final(self).total_client_storage_fee@ == old(self).total_client_storage_fee@ - pay - refund
            &&& final(self).total_client_locked_collateral@ == old(self).total_client_locked_collateral@ - d.client_collateral@
            &&& final(self).total_provider_locked_collateral@ == old(self).total_provider_locked_collateral@ - d.provider_collateral@
            &&& jinv(*final(self))
        }),
//@ end

//@ fn actors/market/src/state.rs State::process_deal_update ret=res
    requires jinv(*old(self)), deal_wf(*deal), state_wf(*state), epoch >= 0,
    ensures
        rest_eq(*old(self), *final(self)),
        // a settlement of a deal that has not started changes no balance and pays nothing
        res.is_ok() && deal.start_epoch > epoch ==>
            final(self).escrow_table == old(self).escrow_table && final(self).locked_table == old(self).locked_table
            && totals_eq(*old(self), *final(self))
            && res->Ok_0.0@ == 0 && res->Ok_0.1@ == 0 && !res->Ok_0.2 && !res->Ok_0.3,
        res.is_ok() ==> !(state.last_updated_epoch != EPOCH_UNDEFINED && state.last_updated_epoch > epoch),
        // the un-slashed case (the only one reachable once terminations are synchronous)
        res.is_ok() && deal.start_epoch <= epoch && state.slash_epoch == EPOCH_UNDEFINED && lu_eff(*deal, *state) <= deal.end_epoch ==> ({
            let d = *deal;
            // exactly the epochs in [max(start, last_updated), min(end, epoch)): no epoch twice, none skipped
            let pay = paid_upto(d, epoch as int) - paid_upto(d, lu_eff(d, *state));
            let done = epoch >= d.end_epoch;
            let pc = if done { d.provider_collateral@ } else { 0 };
            let cc = if done { d.client_collateral@ } else { 0 };
            &&& res->Ok_0.0@ == 0
            &&& res->Ok_0.1@ == pay
            &&& pay >= 0
            &&& res->Ok_0.2 == done && res->Ok_0.3 == done
            &&& moved(esc(*old(self)), esc(*final(self)), d.client, -pay, d.provider, pay)
            &&& moved(lck(*old(self)), lck(*final(self)), d.client, -(pay + cc), d.provider, -pc)
            &&& final(self).total_client_storage_fee@ == old(self).total_client_storage_fee@ - pay
            &&& final(self).total_client_locked_collateral@ == old(self).total_client_locked_collateral@ - cc
            &&& final(self).total_provider_locked_collateral@ == old(self).total_provider_locked_collateral@ - pc
            &&& jinv(*final(self))
        }),
//@ entry
        proof { lemma_pay_window(*deal, epoch as int, lu_eff(*deal, *state)); }
//@ end

/// the payment for the window (b, a] is the price times the number of deal epochs in it, and is never negative
pub proof fn lemma_pay_window(d: DealProposal, a: int, b: int)
    requires d.storage_price_per_epoch@ >= 0
    ensures
        paid_upto(d, a) - paid_upto(d, b) == d.storage_price_per_epoch@ * (clamp(d, a) - clamp(d, b)),
        a >= b ==> paid_upto(d, a) - paid_upto(d, b) >= 0,
{
    let p = d.storage_price_per_epoch@;
    let (x, y, s0) = (clamp(d, a), clamp(d, b), d.start_epoch as int);
    assert(p * (x - s0) - p * (y - s0) == p * (x - y)) by (nonlinear_arith);
    if a >= b {
        assert(x >= y);
        assert(p * (x - y) >= 0) by (nonlinear_arith) requires p >= 0, x >= y;
    }
}

// ---- telescoping: any schedule of settlements pays the same total (pure lemma over the spec) ----
/// sum of the per-call payments for settlement epochs es[0] <= es[1] <= ... starting from marker `from`
pub open spec fn pay_seq(d: DealProposal, from: int, es: Seq<int>) -> int
    decreases es.len()
{
    if es.len() == 0 { 0 } else { (paid_upto(d, es[0]) - paid_upto(d, from)) + pay_seq(d, es[0], es.subrange(1, es.len() as int)) }
}
pub proof fn settlement_path_independent(d: DealProposal, from: int, es: Seq<int>)
    requires es.len() > 0
    ensures pay_seq(d, from, es) == paid_upto(d, es.last()) - paid_upto(d, from)
    decreases es.len()
{
    let tail = es.subrange(1, es.len() as int);
    assert(pay_seq(d, from, es) == (paid_upto(d, es[0]) - paid_upto(d, from)) + pay_seq(d, es[0], tail));
    if es.len() > 1 {
        settlement_path_independent(d, es[0], tail);
        assert(tail.last() == es.last());
    } else {
        assert(tail.len() == 0);
        assert(pay_seq(d, es[0], tail) == 0);
        assert(es.last() == es[0]);
    }
}
/// settled through the end, the provider has received exactly the whole storage fee
pub proof fn full_payment_is_fee(d: DealProposal, e: int)
    requires d.start_epoch <= d.end_epoch, e >= d.end_epoch
    ensures paid_upto(d, e) - paid_upto(d, d.start_epoch as int) == fee(d)
{
    assert(clamp(d, e) == d.end_epoch);
    assert(clamp(d, d.start_epoch as int) == d.start_epoch);
    assert(d.storage_price_per_epoch@ * (d.start_epoch - d.start_epoch) == 0) by (nonlinear_arith);
}

} // verus!
fn main() {}
