// unit: multisig actor methods — quorum, single execution, cancel rights, signer administration (C12; caller clauses for C11)
//@ include prelude/core.rs
//@ include prelude/ipld.rs
//@ include prelude/rt.rs
//@ include prelude/singletons.rs
//@ include prelude/slices.rs
//@ include prelude/indexmap.rs
//@ include prelude/btreeset.rs
verus! {

//@ const actors/multisig/src/types.rs SIGNERS_MAX
//@ item actors/multisig/src/types.rs TxnID attr="#[derive(Clone, Copy, PartialEq, Eq, Structural)]"
//@ item actors/multisig/src/types.rs Transaction
//@ item actors/multisig/src/state.rs State
//@ item actors/multisig/src/types.rs ConstructorParams
//@ item actors/multisig/src/types.rs ProposeParams
//@ item actors/multisig/src/types.rs ProposeReturn
//@ item actors/multisig/src/types.rs TxnIDParams
//@ item actors/multisig/src/types.rs ApproveReturn
//@ item actors/multisig/src/types.rs AddSignerParams
//@ item actors/multisig/src/types.rs RemoveSignerParams
//@ item actors/multisig/src/types.rs SwapSignerParams
//@ item actors/multisig/src/types.rs ChangeNumApprovalsThresholdParams
//@ item actors/multisig/src/types.rs LockBalanceParams
pub type PendingTxnMap<BS> = Map2<BS, TxnID, Transaction>;
pub const PENDING_TXN_CONFIG: Config = DEFAULT_HAMT_CONFIG;
impl MapKey for TxnID {}
//@ include prelude/multisig_assumed.rs

// ======================= abstract views =======================
pub struct TxV { pub to: Address, pub value: int, pub method: MethodNum, pub params: RawBytes, pub approved: Seq<Address> }
pub open spec fn tv(t: Transaction) -> TxV { TxV { to: t.to, value: t.value@, method: t.method, params: t.params, approved: t.approved@ } }
pub struct StV { pub signers: Seq<Address>, pub threshold: u64, pub next_tx_id: i64, pub initial_balance: int, pub start_epoch: ChainEpoch, pub unlock_duration: ChainEpoch, pub pending_txs: Cid }
pub open spec fn sv(s: State) -> StV {
    StV { signers: s.signers@, threshold: s.num_approvals_threshold, next_tx_id: s.next_tx_id.0, initial_balance: s.initial_balance@,
          start_epoch: s.start_epoch, unlock_duration: s.unlock_duration, pending_txs: s.pending_txs }
}
pub open spec fn txns_of(s: State) -> Map<TxnID, Transaction> { map2_decode::<TxnID, Transaction>(s.pending_txs) }
/// "1 <= threshold <= number of signers <= 256 always holds" (+ signers are distinct)
pub open spec fn ms_wf(s: State) -> bool {
    1 <= s.num_approvals_threshold <= s.signers@.len() <= 256 && s.signers@.no_duplicates()
}
/// everything but the pending-transaction table is untouched
pub open spec fn admin_eq(a: State, b: State) -> bool {
    a.signers@ == b.signers@ && a.num_approvals_threshold == b.num_approvals_threshold && a.initial_balance@ == b.initial_balance@
        && a.start_epoch == b.start_epoch && a.unlock_duration == b.unlock_duration
}

//@ include units/shared/ms_state.inc
//@ fn actors/multisig/src/state.rs State::is_signer
    ensures r == self.signers@.contains(*address),
//@ end

// ======================= signer administration (transaction closures) =======================
//@ fn actors/multisig/src/lib.rs Actor::add_signer closure=0 as=add_signer_tx0 params="st: &mut State, rt: &mut Rt, resolved_new_signer: u64, params: &AddSignerParams" retty="Result<(), ActorError>"
    requires ms_wf(*old(st)),
    ensures
        *final(rt) == *old(rt),
        r.is_ok() ==> ms_wf(*final(st))
            && !old(st).signers@.contains(Address { id: resolved_new_signer, proto: 0 })
            && final(st).signers@ == old(st).signers@.push(Address { id: resolved_new_signer, proto: 0 })
            && final(st).num_approvals_threshold == old(st).num_approvals_threshold + (if params.increase { 1int } else { 0int }),
        final(st).pending_txs == old(st).pending_txs, final(st).next_tx_id == old(st).next_tx_id,
        final(st).initial_balance@ == old(st).initial_balance@, final(st).start_epoch == old(st).start_epoch, final(st).unlock_duration == old(st).unlock_duration,
        r.is_err() ==> sv(*final(st)) == sv(*old(st)),
//@ end
//@ fn actors/multisig/src/lib.rs Actor::change_num_approvals_threshold closure=0 as=change_threshold_tx0 params="st: &mut State, rt: &mut Rt, params: &ChangeNumApprovalsThresholdParams" retty="Result<(), ActorError>"
    requires ms_wf(*old(st)),
    ensures
        *final(rt) == *old(rt),
        r.is_ok() <==> 1 <= params.new_threshold <= old(st).signers@.len(),
        r.is_ok() ==> ms_wf(*final(st)) && final(st).num_approvals_threshold == params.new_threshold,
        r.is_err() ==> final(st).num_approvals_threshold == old(st).num_approvals_threshold,
        final(st).signers == old(st).signers, final(st).pending_txs == old(st).pending_txs, final(st).next_tx_id == old(st).next_tx_id,
        final(st).initial_balance@ == old(st).initial_balance@, final(st).start_epoch == old(st).start_epoch, final(st).unlock_duration == old(st).unlock_duration,
//@ end
//@ fn actors/multisig/src/lib.rs Actor::lock_balance closure=0 as=lock_balance_tx0 params="st: &mut State, rt: &mut Rt, params: LockBalanceParams" retty="Result<(), ActorError>"
    ensures
        *final(rt) == *old(rt),
        // a lock-up can be set once and never modified afterwards
        r.is_ok() <==> old(st).unlock_duration == 0,
        r.is_ok() ==> final(st).start_epoch == params.start_epoch && final(st).unlock_duration == params.unlock_duration && final(st).initial_balance@ == params.amount@,
        r.is_err() ==> sv(*final(st)) == sv(*old(st)),
        final(st).signers == old(st).signers, final(st).num_approvals_threshold == old(st).num_approvals_threshold,
        final(st).pending_txs == old(st).pending_txs, final(st).next_tx_id == old(st).next_tx_id,
//@ end

// ======================= proposals and approvals =======================
/// pending ids are below the next id to be issued: a fresh id never collides
pub open spec fn ids_below(s: State) -> bool { forall|k: TxnID| #[trigger] txns_of(s).dom().contains(k) ==> k.0 < s.next_tx_id.0 }

//@ fn actors/multisig/src/lib.rs Actor::propose closure=0 as=propose_tx0 params="st: &mut State, rt: &mut Rt, proposer: Address, params: ProposeParams" retty="Result<(TxnID, Transaction), ActorError>" ret=res
    requires old(st).next_tx_id.0 < i64::MAX, ids_below(*old(st)),
    ensures
        *final(rt) == *old(rt), admin_eq(*old(st), *final(st)),
        /*C11*/ /*C12*/ res.is_ok() ==> old(st).signers@.contains(proposer),
        res.is_ok() ==> ({
            let (id, txn) = res->Ok_0;
            // "only signers can propose"
            &&& old(st).signers@.contains(proposer)
            // ids are unique and strictly increasing
            &&& id == old(st).next_tx_id && final(st).next_tx_id.0 == old(st).next_tx_id.0 + 1 && !txns_of(*old(st)).dom().contains(id)
            // the new pending transaction is exactly what was proposed, with no approvals yet
            &&& tv(txn) == TxV { to: params.to, value: params.value@, method: params.method, params: params.params, approved: Seq::empty() }
            &&& txns_of(*final(st)).dom() == txns_of(*old(st)).dom().insert(id) && tv(txns_of(*final(st))[id]) == tv(txn)
            &&& (forall|k: TxnID| k != id && txns_of(*old(st)).dom().contains(k) ==> #[trigger] txns_of(*final(st))[k] == txns_of(*old(st))[k])
            &&& ids_below(*final(st))
        }),
//@ end

//@ fn actors/multisig/src/lib.rs get_transaction rt=ref sub0="proposal_hash != calculated_hash=>vx_hash_ne(&proposal_hash, &calculated_hash)"
    ensures
        r.is_ok() ==> ptx.view().dom().contains(txn_id) && *r->Ok_0 == ptx.view()[txn_id],
        // an optional proposal hash must match the pending transaction exactly
        r.is_ok() && proposal_hash@.len() > 0 ==> proposal_hash@ == proposal_hash_spec(first_of(r->Ok_0.approved@), r->Ok_0.to, r->Ok_0.value@, r->Ok_0.method, r->Ok_0.params),
        !ptx.view().dom().contains(txn_id) ==> r.is_err(),
//@ end

//@ fn actors/multisig/src/lib.rs Actor::approve closure=0 as=approve_tx0 params="st: &mut State, rt: &mut Rt, approver: Address, params: TxnIDParams" retty="Result<(State, Transaction), ActorError>" ret=res
    ensures
        *final(rt) == *old(rt), sv(*final(st)) == sv(*old(st)),
        /*C11*/ /*C12*/ res.is_ok() ==> old(st).signers@.contains(approver),
        res.is_ok() ==> old(st).signers@.contains(approver) && sv(res->Ok_0.0) == sv(*old(st))
            && txns_of(*old(st)).dom().contains(params.id) && tv(res->Ok_0.1) == tv(txns_of(*old(st))[params.id]),
//@ end

//@ fn actors/multisig/src/lib.rs Actor::approve_transaction closure=0 as=approve_transaction_tx0 params="st: &mut State, rt: &mut Rt, tx_id: TxnID, txn: &mut Transaction" retty="Result<State, ActorError>" ret=res derefs=txn
    ensures
        *final(rt) == *old(rt), admin_eq(*old(st), *final(st)), final(st).next_tx_id == old(st).next_tx_id,
        // the caller is appended to the approvals, after the earlier ones (the first approver stays first)
        res.is_ok() ==> tv(*final(txn)) == (TxV { approved: old(txn).approved@.push(old(rt).msg.caller), ..tv(*old(txn)) }),
        res.is_ok() ==> txns_of(*final(st)).dom() == txns_of(*old(st)).dom().insert(tx_id) && tv(txns_of(*final(st))[tx_id]) == tv(*final(txn))
            && (forall|k: TxnID| k != tx_id && txns_of(*old(st)).dom().contains(k) ==> #[trigger] txns_of(*final(st))[k] == txns_of(*old(st))[k]),
        res.is_ok() ==> sv(res->Ok_0) == sv(*final(st)),
//@ end

// ======================= execution: quorum, lock, exactly one send =======================
//@ fn actors/multisig/src/lib.rs execute_transaction_if_approved closure=0 as=execute_tx0 params="st: &mut State, rt: &mut Rt, txn_id: TxnID" retty="Result<(), ActorError>"
    ensures
        *final(rt) == *old(rt), admin_eq(*old(st), *final(st)), final(st).next_tx_id == old(st).next_tx_id,
        // the transaction leaves the pending table (so it can never be sent twice); nothing else changes
        r.is_ok() ==> txns_of(*final(st)).dom() == txns_of(*old(st)).dom().remove(txn_id)
            && (forall|k: TxnID| k != txn_id && txns_of(*old(st)).dom().contains(k) ==> #[trigger] txns_of(*final(st))[k] == txns_of(*old(st))[k]),
//@ end

/// committed states are only appended
pub open spec fn log_ext(o: &Rt, f: &Rt) -> bool {
    f.tx_log@.len() >= o.tx_log@.len() && forall|i: int| 0 <= i < o.tx_log@.len() ==> f.tx_log@[i] == o.tx_log@[i]
}
pub open spec fn rt_frame_tx(o: &Rt, f: &Rt) -> bool {
    log_ext(o, f) && f.msg == o.msg && f.caller_type == o.caller_type && f.caller_namespace == o.caller_namespace && f.epoch == o.epoch && f.read_only == o.read_only
        && f.validated == o.validated && f.in_tx == o.in_tx && f.deleted == o.deleted
}

//@ fn actors/multisig/src/lib.rs execute_transaction_if_approved tx0="State;execute_tx0;&mut __vx_st, rt, txn_id" suball0="RawBytes :: new (r . data)=>RawBytes::from_block(r)" ret=res
    requires
        !old(rt).in_tx@,
        i64::MIN <= old(rt).epoch - st.start_epoch <= i64::MAX,
    ensures
        rt_frame_tx(old(rt), final(rt)),
        // below the threshold nothing happens at all
        txn.approved@.len() < st.num_approvals_threshold ==> res.is_ok() && !res->Ok_0.0 && *final(rt) == *old(rt),
        // "sent only when at least the current threshold ... has approved"
        res.is_ok() && res->Ok_0.0 ==> txn.approved@.len() >= st.num_approvals_threshold,
        txn.approved@.len() >= st.num_approvals_threshold && res.is_ok() ==> ({
            let s0 = rt_state::<State>(old(rt).state_id@);
            let s1 = rt_state::<State>(final(rt).tx_log@.last());
            let m = final(rt).sends@.last();
            &&& res->Ok_0.0
            // exactly one message, exactly the approved transaction
            &&& rt_pushed(old(rt), final(rt))
            &&& m.to == txn.to && m.method == txn.method && m.value == txn.value@ && m.params == Some(IpldBlock { h: txn.params.h })
            // "never leaves the wallet's balance below the amount still locked"
            &&& txn.value@ >= 0 && old(rt).balance@ >= txn.value@
            &&& (txn.value@ == 0 || old(rt).balance@ - txn.value@ >= locked_spec(st.initial_balance@, st.unlock_duration as int, old(rt).epoch - st.start_epoch))
            // "sent at most once": it is removed from the pending table, and that is committed before the send
            &&& final(rt).tx_log@.len() == old(rt).tx_log@.len() + 1
            &&& txns_of(s1).dom() == txns_of(s0).dom().remove(txn_id) && admin_eq(s0, s1)
            &&& m.root == old(rt).state_root
            // the callee's exit code is reported
            &&& (m.ok ==> res->Ok_0.2.value == 0)
        }),
        // an error (lock violated, state not writable) sends nothing
        res.is_err() ==> final(rt).sends == old(rt).sends,
//@ end

// ======================= approve_transaction: no double approval, then execute if the quorum is reached =======================
//@ fn actors/multisig/src/lib.rs Actor::approve_transaction free tx0="State;approve_transaction_tx0;&mut __vx_st, rt, tx_id, &mut txn" ret=res
    requires
        !old(rt).in_tx@,
        ({ let s0 = rt_state::<State>(old(rt).state_id@); i64::MIN <= old(rt).epoch - s0.start_epoch <= i64::MAX }),
    ensures
        rt_frame_tx(old(rt), final(rt)),
        // "distinct signers": the same caller cannot approve twice
        res.is_ok() ==> !txn.approved@.contains(old(rt).msg.caller),
        res.is_ok() ==> final(rt).tx_log@.len() >= old(rt).tx_log@.len() + 1 && ({
            let s0 = rt_state::<State>(old(rt).state_id@);
            let s1 = rt_state::<State>(final(rt).tx_log@[old(rt).tx_log@.len() as int]);
            let approved1 = txn.approved@.push(old(rt).msg.caller);
            // the approval is recorded first ...
            &&& txns_of(s1).dom() == txns_of(s0).dom().insert(tx_id) && tv(txns_of(s1)[tx_id]) == (TxV { approved: approved1, ..tv(txn) }) && admin_eq(s0, s1)
            // ... and the transaction is sent iff the approvals now reach the threshold recorded in that state
            &&& res->Ok_0.0 == (approved1.len() >= s0.num_approvals_threshold)
            &&& (!res->Ok_0.0 ==> final(rt).sends == old(rt).sends && final(rt).tx_log@.len() == old(rt).tx_log@.len() + 1)
            &&& (res->Ok_0.0 ==> rt_pushed(old(rt), final(rt)) && final(rt).tx_log@.len() == old(rt).tx_log@.len() + 2 && ({
                    let m = final(rt).sends@.last();
                    let s2 = rt_state::<State>(final(rt).tx_log@.last());
                    m.to == txn.to && m.method == txn.method && m.value == txn.value@ && m.params == Some(IpldBlock { h: txn.params.h })
                        && txn.value@ >= 0 && old(rt).balance@ >= txn.value@
                        && (txn.value@ == 0 || old(rt).balance@ - txn.value@ >= locked_spec(s0.initial_balance@, s0.unlock_duration as int, old(rt).epoch - s0.start_epoch))
                        && txns_of(s2).dom() == txns_of(s1).dom().remove(tx_id) && admin_eq(s1, s2)
                }))
        }),
        res.is_err() ==> final(rt).sends == old(rt).sends,
//@ loop 0 iter=it
            invariant
                *rt == *old(rt),
                forall|j: int| 0 <= j < it.index@ ==> txn.approved@[j] != old(rt).msg.caller,
//@ end

// ======================= purge_approvals: a removed signer's approvals vanish, order of the others is kept =======================
pub open spec fn purged(t: Transaction, a: Address) -> TxV { TxV { approved: remove_all(t.approved@, a), ..tv(t) } }
/// the purge list built by the first pass: exactly the pending transactions approved by `a`, each once, with their current value
pub open spec fn purge_list_ok(p: Seq<(TxnID, Transaction)>, m0: Map<TxnID, Transaction>, a: Address) -> bool {
    &&& forall|j: int| 0 <= j < p.len() ==> m0.dom().contains(#[trigger] p[j].0) && tv(p[j].1) == tv(m0[p[j].0]) && m0[p[j].0].approved@.contains(a)
    &&& forall|i: int, j: int| 0 <= i < j < p.len() ==> p[i].0 != p[j].0
}
pub open spec fn listed(p: Seq<(TxnID, Transaction)>, k: TxnID) -> bool { im_has(p, k) }


pub open spec fn done_before(p: Seq<(TxnID, Transaction)>, n: int, k: TxnID) -> bool { exists|j: int| 0 <= j < n && #[trigger] p[j].0 == k }
/// state of the pending table after the first n entries of the purge list have been processed
pub open spec fn purge_inv(m: Map<TxnID, Transaction>, m0: Map<TxnID, Transaction>, p: Seq<(TxnID, Transaction)>, n: int, a: Address) -> bool {
    forall|k: TxnID| #![trigger m.dom().contains(k)] #![trigger m0.dom().contains(k)] {
        &&& (!done_before(p, n, k) ==> (m.dom().contains(k) <==> m0.dom().contains(k)) && (m0.dom().contains(k) ==> m[k] == m0[k]))
        &&& (done_before(p, n, k) ==> (m.dom().contains(k) <==> remove_all(m0[k].approved@, a).len() > 0)
                && (m.dom().contains(k) ==> tv(m[k]) == purged(m0[k], a)))
    }
}
pub proof fn lemma_purge_step(m: Map<TxnID, Transaction>, m2: Map<TxnID, Transaction>, m0: Map<TxnID, Transaction>, p: Seq<(TxnID, Transaction)>, n: int, a: Address, t2: Transaction)
    requires
        purge_inv(m, m0, p, n, a), purge_list_ok(p, m0, a), 0 <= n < p.len(),
        tv(t2) == (TxV { approved: remove_all(p[n].1.approved@, a), ..tv(p[n].1) }),
        t2.approved@.len() > 0 ==> m2 == m.insert(p[n].0, t2),
        t2.approved@.len() == 0 ==> m2 == m.remove(p[n].0),
    ensures purge_inv(m2, m0, p, n + 1, a)
{
    let k0 = p[n].0;
    assert(!done_before(p, n, k0)) by {
        if done_before(p, n, k0) { let j = choose|j: int| 0 <= j < n && #[trigger] p[j].0 == k0; assert(p[j].0 != p[n].0); }
    }
    assert(done_before(p, n + 1, k0)) by { assert(p[n].0 == k0); }
    assert forall|k: TxnID| k != k0 implies done_before(p, n + 1, k) == done_before(p, n, k) by {
        if done_before(p, n + 1, k) { let j = choose|j: int| 0 <= j < n + 1 && #[trigger] p[j].0 == k; assert(j < n); }
        if done_before(p, n, k) { let j = choose|j: int| 0 <= j < n && #[trigger] p[j].0 == k; assert(0 <= j < n + 1 && p[j].0 == k); }
    }
    assert(m0.dom().contains(k0) && tv(p[n].1) == tv(m0[k0]));
    assert forall|k: TxnID| #![trigger m2.dom().contains(k)] #![trigger m0.dom().contains(k)] ({
        &&& (!done_before(p, n + 1, k) ==> (m2.dom().contains(k) <==> m0.dom().contains(k)) && (m0.dom().contains(k) ==> m2[k] == m0[k]))
        &&& (done_before(p, n + 1, k) ==> (m2.dom().contains(k) <==> remove_all(m0[k].approved@, a).len() > 0)
                && (m2.dom().contains(k) ==> tv(m2[k]) == purged(m0[k], a)))
    }) by {
        if k == k0 {
            assert(tv(t2).approved == remove_all(m0[k0].approved@, a));
        } else {
            assert(m.dom().contains(k) == m2.dom().contains(k));
            assert(m.dom().contains(k) ==> m2[k] == m[k]);
        }
    }
}

//@ fn actors/multisig/src/state.rs State::purge_approvals r16 sub0=": txn_ids_to_purge=>: txn_ids_to_purge.vx_into_vec()" sub1="txn . approved . retain (| approver | approver != addr)=>vx_retain_ne(&mut txn.approved, addr)"
    ensures
        admin_eq(*old(self), *final(self)), final(self).next_tx_id == old(self).next_tx_id,
        r.is_ok() ==> (forall|k: TxnID| #![trigger txns_of(*final(self)).dom().contains(k)] {
            let m0 = txns_of(*old(self));
            let m1 = txns_of(*final(self));
            // "approvals of removed or replaced signers do not count": the signer disappears from every approval list;
            // "cancelled only by its earliest remaining approver": the order of the remaining approvers is unchanged;
            // a transaction left without approvers is dropped; transactions the signer had not approved are untouched
            &&& (m1.dom().contains(k) <==> m0.dom().contains(k) && (!m0[k].approved@.contains(*addr) || remove_all(m0[k].approved@, *addr).len() > 0))
            &&& (m1.dom().contains(k) && m0[k].approved@.contains(*addr) ==> tv(m1[k]) == purged(m0[k], *addr))
            &&& (m1.dom().contains(k) && !m0[k].approved@.contains(*addr) ==> m1[k] == m0[k])
        }),
//@ loop 0 iter=it0
            invariant
                txns.view() == txns_of(*old(self)),
                purge_list_ok(txn_ids_to_purge@, txns.view(), *addr),
                forall|i: int| 0 <= i < it0.seq().len() ==> txns.view().dom().contains(#[trigger] it0.seq()[i].0) && *it0.seq()[i].1 == txns.view()[it0.seq()[i].0],
                forall|i: int| 0 <= i < it0.index@ ==> (txns.view()[#[trigger] it0.seq()[i].0].approved@.contains(*addr) ==> listed(txn_ids_to_purge@, it0.seq()[i].0)),
//@ loop 1 iter=it1
                invariant
                    txns.view() == txns_of(*old(self)),
                    purge_list_ok(txn_ids_to_purge@, txns.view(), *addr),
                    txns.view().dom().contains(tx_id) && *txn == txns.view()[tx_id],
                    it1.seq().len() == txn.approved@.len(), forall|j: int| 0 <= j < txn.approved@.len() ==> *(#[trigger] it1.seq()[j]) == txn.approved@[j],
                    forall|i: int| 0 <= i < it0.index@ ==> (txns.view()[#[trigger] it0.seq()[i].0].approved@.contains(*addr) ==> listed(txn_ids_to_purge@, it0.seq()[i].0)),
                    (exists|j: int| 0 <= j < it1.index@ && txn.approved@[j] == *addr) ==> listed(txn_ids_to_purge@, tx_id),
//@ loop 2 iter=it2
            invariant
                self.signers == old(self).signers, self.num_approvals_threshold == old(self).num_approvals_threshold, self.initial_balance == old(self).initial_balance,
                self.start_epoch == old(self).start_epoch, self.unlock_duration == old(self).unlock_duration, self.next_tx_id == old(self).next_tx_id,
                self.pending_txs == old(self).pending_txs,
                purge_list_ok(it2.seq(), txns_of(*old(self)), *addr),
                forall|k: TxnID| txns_of(*old(self)).dom().contains(k) && txns_of(*old(self))[k].approved@.contains(*addr) ==> listed(it2.seq(), k),
                purge_inv(txns.view(), txns_of(*old(self)), it2.seq(), it2.index@ as int, *addr),
//@ after "txn . approved . retain"
            let ghost m_pre = txns.view();
            let ghost t2 = txn;
//@ after "txns . set (& tx_id , txn)"
                proof { lemma_purge_step(m_pre, txns.view(), txns_of(*old(self)), it2.seq(), it2.index@ as int, *addr, t2); }
//@ after "txns . delete (& tx_id)"
                proof { lemma_purge_step(m_pre, txns.view(), txns_of(*old(self)), it2.seq(), it2.index@ as int, *addr, t2); }
//@ end


pub proof fn lemma_push_nodup(s: Seq<Address>, x: Address)
    ensures (s.no_duplicates() && !s.contains(x)) ==> s.push(x).no_duplicates()
{
    if s.no_duplicates() && !s.contains(x) {
        assert forall|i: int, j: int| 0 <= i < s.push(x).len() && 0 <= j < s.push(x).len() && i != j implies s.push(x)[i] != s.push(x)[j] by {
            if i < s.len() && j < s.len() {} else if i < s.len() { assert(s.contains(s[i])); } else if j < s.len() { assert(s.contains(s[j])); }
        }
    }
}
/// removing all occurrences of `a`: membership, length and distinctness of the rest
pub proof fn lemma_remove_all(s: Seq<Address>, a: Address)
    ensures
        forall|x: Address| #[trigger] remove_all(s, a).contains(x) <==> s.contains(x) && x != a,
        remove_all(s, a).len() <= s.len(),
        !s.contains(a) ==> remove_all(s, a) == s,
        s.no_duplicates() ==> remove_all(s, a).no_duplicates() && remove_all(s, a).len() == s.len() - (if s.contains(a) { 1int } else { 0int }),
        // the earliest remaining element is the first one that is not `a`
        remove_all(s, a).len() > 0 ==> (exists|i: int| 0 <= i < s.len() && s[i] == remove_all(s, a)[0] && s[i] != a && (forall|j: int| 0 <= j < i ==> s[j] == a)),
    decreases s.len()
{
    if s.len() == 0 {
    } else {
        let t = s.drop_last();
        lemma_remove_all(t, a);
        let rt_ = remove_all(t, a);
        assert(s == t.push(s.last()));
        assert forall|x: Address| #[trigger] remove_all(s, a).contains(x) <==> s.contains(x) && x != a by {
            if s.last() == a {
                if s.contains(x) && x != a { let i = choose|i: int| 0 <= i < s.len() && s[i] == x; assert(t[i] == x); }
                if rt_.contains(x) { let i = choose|i: int| 0 <= i < t.len() && t[i] == x; assert(s[i] == x); }
            } else {
                if remove_all(s, a).contains(x) {
                    let i = choose|i: int| 0 <= i < remove_all(s, a).len() && remove_all(s, a)[i] == x;
                    if i < rt_.len() { assert(rt_[i] == x); assert(rt_.contains(x)); let j = choose|j: int| 0 <= j < t.len() && t[j] == x; assert(s[j] == x); }
                    else { assert(x == s.last()); assert(s[s.len() - 1] == x); }
                }
                if s.contains(x) && x != a {
                    let i = choose|i: int| 0 <= i < s.len() && s[i] == x;
                    if i < t.len() { assert(t[i] == x); assert(rt_.contains(x)); let j = choose|j: int| 0 <= j < rt_.len() && rt_[j] == x; assert(remove_all(s, a)[j] == x); }
                    else { assert(remove_all(s, a)[rt_.len() as int] == x); }
                }
            }
        }
        if !s.contains(a) {
            assert(!t.contains(a)) by { if t.contains(a) { let i = choose|i: int| 0 <= i < t.len() && t[i] == a; assert(s[i] == a); } }
            assert(s.last() != a) by { if s.last() == a { assert(s[s.len() - 1] == a); } }
            assert(remove_all(s, a) =~= s);
        }
        if s.no_duplicates() {
            assert(t.no_duplicates());
            if s.last() == a {
                assert(!t.contains(a)) by { if t.contains(a) { let i = choose|i: int| 0 <= i < t.len() && t[i] == a; assert(s[i] == s[s.len() - 1]); } }
                assert(s.contains(a)) by { assert(s[s.len() - 1] == a); }
            } else {
                assert(!rt_.contains(s.last())) by { if rt_.contains(s.last()) { assert(t.contains(s.last())); let i = choose|i: int| 0 <= i < t.len() && t[i] == s.last(); assert(s[i] == s[s.len() - 1]); } }
                assert(remove_all(s, a).no_duplicates());
                assert(s.contains(a) == t.contains(a)) by {
                    if s.contains(a) { let i = choose|i: int| 0 <= i < s.len() && s[i] == a; assert(t[i] == a); }
                    if t.contains(a) { let i = choose|i: int| 0 <= i < t.len() && t[i] == a; assert(s[i] == a); }
                }
            }
        }
        if remove_all(s, a).len() > 0 {
            if rt_.len() > 0 {
                let i = choose|i: int| 0 <= i < t.len() && t[i] == rt_[0] && t[i] != a && (forall|j: int| 0 <= j < i ==> t[j] == a);
                assert(s[i] == remove_all(s, a)[0]);
                assert(forall|j: int| 0 <= j < i ==> s[j] == a);
            } else {
                // everything before the last element was `a`
                assert(s.last() != a);
                assert(remove_all(s, a)[0] == s.last());
                assert forall|j: int| 0 <= j < s.len() - 1 implies s[j] == a by {
                    if s[j] != a { assert(t[j] == s[j]); assert(t.contains(s[j])); assert(rt_.contains(s[j])); }
                }
                assert(s[s.len() - 1] == remove_all(s, a)[0]);
            }
        }
    }
}

// ======================= cancel: only the earliest remaining approver =======================
//@ fn actors/multisig/src/lib.rs Actor::cancel closure=0 as=cancel_tx0 params="st: &mut State, rt: &mut Rt, caller_addr: Address, params: TxnIDParams" retty="Result<(), ActorError>" sub0="params . proposal_hash != calculated_hash=>vx_hash_ne(&params.proposal_hash, &calculated_hash)"
    ensures
        *final(rt) == *old(rt), admin_eq(*old(st), *final(st)), final(st).next_tx_id == old(st).next_tx_id,
        /*C11*/ /*C12*/ r.is_ok() ==> old(st).signers@.contains(caller_addr) && txns_of(*old(st)).dom().contains(params.id)
            && first_of(txns_of(*old(st))[params.id].approved@) == Some(caller_addr),
        r.is_ok() ==> ({
            let m0 = txns_of(*old(st));
            // "only signers", an existing transaction, and "only by its earliest remaining approver (initially the proposer)"
            &&& old(st).signers@.contains(caller_addr)
            &&& m0.dom().contains(params.id)
            &&& first_of(m0[params.id].approved@) == Some(caller_addr)
            &&& (params.proposal_hash@.len() > 0 ==> params.proposal_hash@ == proposal_hash_spec(first_of(m0[params.id].approved@), m0[params.id].to, m0[params.id].value@, m0[params.id].method, m0[params.id].params))
            // exactly that transaction is dropped
            &&& txns_of(*final(st)).dom() == m0.dom().remove(params.id)
            &&& (forall|k: TxnID| k != params.id && m0.dom().contains(k) ==> #[trigger] txns_of(*final(st))[k] == m0[k])
        }),
        r.is_err() ==> true,
//@ end

// ======================= remove / swap signer =======================
//@ fn actors/multisig/src/lib.rs Actor::remove_signer closure=0 as=remove_signer_tx0 params="st: &mut State, rt: &mut Rt, resolved_old_signer: u64, params: &RemoveSignerParams" retty="Result<(), ActorError>" sub0="st . signers . retain (| s | s != & Address :: new_id (resolved_old_signer))=>vx_retain_ne(&mut st.signers, &Address::new_id(resolved_old_signer))"
    requires ms_wf(*old(st)),
    ensures
        *final(rt) == *old(rt),
        final(st).next_tx_id == old(st).next_tx_id, final(st).initial_balance@ == old(st).initial_balance@,
        final(st).start_epoch == old(st).start_epoch, final(st).unlock_duration == old(st).unlock_duration,
        r.is_ok() ==> ({
            let a = Address { id: resolved_old_signer, proto: 0 };
            let m0 = txns_of(*old(st));
            let m1 = txns_of(*final(st));
            &&& old(st).signers@.contains(a)
            &&& final(st).signers@ == remove_all(old(st).signers@, a)
            &&& final(st).num_approvals_threshold == old(st).num_approvals_threshold - (if params.decrease { 1int } else { 0int })
            // "1 <= threshold <= number of signers <= 256 always holds"
            &&& ms_wf(*final(st))
            // "approvals of removed ... signers do not count"
            &&& (forall|k: TxnID| #![trigger m1.dom().contains(k)] {
                    &&& (m1.dom().contains(k) <==> m0.dom().contains(k) && (!m0[k].approved@.contains(a) || remove_all(m0[k].approved@, a).len() > 0))
                    &&& (m1.dom().contains(k) && m0[k].approved@.contains(a) ==> tv(m1[k]) == purged(m0[k], a))
                    &&& (m1.dom().contains(k) && !m0[k].approved@.contains(a) ==> m1[k] == m0[k])
                })
        }),
//@ entry
        proof { lemma_remove_all(old(st).signers@, Address { id: resolved_old_signer, proto: 0 }); }
//@ after "st . purge_approvals"
        let ghost mid = *st;
//@ after "st . signers . retain"
        proof { assert(txns_of(*st) == txns_of(mid)); assert(txns_of(*old(st)).dom() =~= txns_of(*old(st)).dom()); }
//@ end

//@ fn actors/multisig/src/lib.rs Actor::swap_signer closure=0 as=swap_signer_tx0 params="st: &mut State, rt: &mut Rt, from_resolved: u64, to_resolved: u64" retty="Result<(), ActorError>" sub0="st . signers . retain (| s | s != & Address :: new_id (from_resolved))=>vx_retain_ne(&mut st.signers, &Address::new_id(from_resolved))"
    requires ms_wf(*old(st)),
    ensures
        *final(rt) == *old(rt),
        final(st).next_tx_id == old(st).next_tx_id, final(st).initial_balance@ == old(st).initial_balance@,
        final(st).start_epoch == old(st).start_epoch, final(st).unlock_duration == old(st).unlock_duration,
        final(st).num_approvals_threshold == old(st).num_approvals_threshold,
        r.is_ok() ==> ({
            let a = Address { id: from_resolved, proto: 0 };
            let b = Address { id: to_resolved, proto: 0 };
            let m0 = txns_of(*old(st));
            let m1 = txns_of(*final(st));
            &&& old(st).signers@.contains(a) && !old(st).signers@.contains(b)
            &&& final(st).signers@ == remove_all(old(st).signers@, a).push(b)
            &&& ms_wf(*final(st))
            // "approvals of ... replaced signers do not count" (and are not inherited by the replacement)
            &&& (forall|k: TxnID| #![trigger m1.dom().contains(k)] {
                    &&& (m1.dom().contains(k) <==> m0.dom().contains(k) && (!m0[k].approved@.contains(a) || remove_all(m0[k].approved@, a).len() > 0))
                    &&& (m1.dom().contains(k) && m0[k].approved@.contains(a) ==> tv(m1[k]) == purged(m0[k], a))
                    &&& (m1.dom().contains(k) && !m0[k].approved@.contains(a) ==> m1[k] == m0[k])
                })
        }),
//@ entry
        proof { lemma_remove_all(old(st).signers@, Address { id: from_resolved, proto: 0 }); lemma_push_nodup(remove_all(old(st).signers@, Address { id: from_resolved, proto: 0 }), Address { id: to_resolved, proto: 0 }); }
//@ end

// ======================= whole methods =======================
//@ fn runtime/src/builtin/shared.rs resolve_to_actor_id
    requires !old(rt).in_tx@,
    ensures
        rt_frame(old(rt), final(rt)),
        final(rt).state_id == old(rt).state_id,
        final(rt).sends@.len() <= old(rt).sends@.len() + 1,
        final(rt).sends@.len() == old(rt).sends@.len() + 1 ==> rt_pushed(old(rt), final(rt))
            && final(rt).sends@.last().method == METHOD_SEND && final(rt).sends@.last().value == 0,
        final(rt).sends@.len() == old(rt).sends@.len() ==> final(rt).sends == old(rt).sends && final(rt).balance == old(rt).balance,
//@ end

/// the precondition shared by the methods: a fresh activation with a well-formed wallet
pub open spec fn ms_entry(rt: &Rt) -> bool {
    let s0 = rt_state::<State>(rt.state_id@);
    !rt.in_tx@ && rt.tx_log@.len() == 0 && rt.sends@.len() == 0 && rt.validated@.is_none()
        && ms_wf(s0) && ids_below(s0) && s0.next_tx_id.0 < i64::MAX && i64::MIN <= rt.epoch - s0.start_epoch <= i64::MAX
}

//@ fn actors/multisig/src/lib.rs Actor::propose free tx0="State;propose_tx0;&mut __vx_st, rt, proposer, params" ret=res sub0="Self :: approve_transaction=>approve_transaction"
    requires ms_entry(old(rt)),
    ensures
        /*C11*/ res.is_ok() ==> final(rt).validated@.is_some(),
        res.is_ok() ==> final(rt).tx_log@.len() >= 2 && ({
            let s0 = rt_state::<State>(old(rt).state_id@);
            let s1 = rt_state::<State>(final(rt).tx_log@[0]);
            let s2 = rt_state::<State>(final(rt).tx_log@[1]);
            let caller = old(rt).msg.caller;
            let id = res->Ok_0.txn_id;
            // "only signers can propose"; ids strictly increasing; the proposer is the first approver
            &&& s0.signers@.contains(caller) && params.value@ >= 0
            &&& id == s0.next_tx_id && s1.next_tx_id.0 == s0.next_tx_id.0 + 1 && !txns_of(s0).dom().contains(id)
            &&& txns_of(s2).dom().contains(id)
            &&& tv(txns_of(s2)[id]) == TxV { to: params.to, value: params.value@, method: params.method, params: params.params, approved: seq![caller] }
            // executed at once iff one approval already meets the threshold
            &&& res->Ok_0.applied == (1 >= s0.num_approvals_threshold)
            &&& (!res->Ok_0.applied ==> final(rt).sends@.len() == 0 && final(rt).tx_log@.len() == 2)
            &&& (res->Ok_0.applied ==> final(rt).sends@.len() == 1 && final(rt).tx_log@.len() == 3 && ({
                    let m = final(rt).sends@[0];
                    m.to == params.to && m.method == params.method && m.value == params.value@ && m.params == Some(IpldBlock { h: params.params.h })
                        && old(rt).balance@ >= params.value@
                        && (params.value@ == 0 || old(rt).balance@ - params.value@ >= locked_spec(s0.initial_balance@, s0.unlock_duration as int, old(rt).epoch - s0.start_epoch))
                        && !txns_of(rt_state::<State>(final(rt).tx_log@[2])).dom().contains(id)
                }))
        }),
        res.is_err() ==> final(rt).sends@.len() == 0,
//@ end

//@ fn actors/multisig/src/lib.rs Actor::cancel free tx0="State;cancel_tx0;&mut __vx_st, rt, caller_addr, params"
    requires ms_entry(old(rt)),
    ensures
        /*C11*/ r.is_ok() ==> final(rt).validated@.is_some(),
        final(rt).sends@.len() == 0,
        r.is_ok() ==> final(rt).tx_log@.len() == 1 && ({
            let s0 = rt_state::<State>(old(rt).state_id@);
            let s1 = rt_state::<State>(final(rt).tx_log@[0]);
            let caller = old(rt).msg.caller;
            &&& s0.signers@.contains(caller) && txns_of(s0).dom().contains(params.id)
            // "cancelled only by its earliest remaining approver (initially the proposer)"
            &&& first_of(txns_of(s0)[params.id].approved@) == Some(caller)
            &&& txns_of(s1).dom() == txns_of(s0).dom().remove(params.id) && admin_eq(s0, s1)
        }),
//@ end

/// "Signers, threshold and lock-up change only through a transaction the wallet sends to itself"
pub open spec fn self_call(rt: &Rt) -> bool { rt.msg.caller == rt.msg.receiver }

//@ fn actors/multisig/src/lib.rs Actor::add_signer free tx0="State;add_signer_tx0;&mut __vx_st, rt, resolved_new_signer, &params"
    requires ms_entry(old(rt)),
    ensures
        /*C11*/ /*C12*/ r.is_ok() ==> self_call(old(rt)),
        r.is_ok() ==> final(rt).tx_log@.len() == 1 && ms_wf(rt_state::<State>(final(rt).tx_log@[0]))
            && txns_of(rt_state::<State>(final(rt).tx_log@[0])) == txns_of(rt_state::<State>(old(rt).state_id@)),
        !self_call(old(rt)) ==> r.is_err() && final(rt).sends@.len() == 0 && final(rt).tx_log@.len() == 0,
//@ end
//@ fn actors/multisig/src/lib.rs Actor::remove_signer free tx0="State;remove_signer_tx0;&mut __vx_st, rt, resolved_old_signer, &params"
    requires ms_entry(old(rt)),
    ensures
        /*C11*/ /*C12*/ r.is_ok() ==> self_call(old(rt)),
        r.is_ok() ==> final(rt).tx_log@.len() == 1 && ms_wf(rt_state::<State>(final(rt).tx_log@[0])),
        !self_call(old(rt)) ==> r.is_err() && final(rt).sends@.len() == 0 && final(rt).tx_log@.len() == 0,
//@ end
//@ fn actors/multisig/src/lib.rs Actor::swap_signer free tx0="State;swap_signer_tx0;&mut __vx_st, rt, from_resolved, to_resolved"
    requires ms_entry(old(rt)),
    ensures
        /*C11*/ /*C12*/ r.is_ok() ==> self_call(old(rt)),
        r.is_ok() ==> final(rt).tx_log@.len() == 1 && ms_wf(rt_state::<State>(final(rt).tx_log@[0])),
        !self_call(old(rt)) ==> r.is_err() && final(rt).sends@.len() == 0 && final(rt).tx_log@.len() == 0,
//@ end
//@ fn actors/multisig/src/lib.rs Actor::change_num_approvals_threshold free tx0="State;change_threshold_tx0;&mut __vx_st, rt, &params"
    requires ms_entry(old(rt)),
    ensures
        /*C11*/ /*C12*/ r.is_ok() ==> self_call(old(rt)),
        r.is_ok() ==> final(rt).tx_log@.len() == 1 && ms_wf(rt_state::<State>(final(rt).tx_log@[0]))
            && rt_state::<State>(final(rt).tx_log@[0]).num_approvals_threshold == params.new_threshold
            && rt_state::<State>(final(rt).tx_log@[0]).signers == rt_state::<State>(old(rt).state_id@).signers,
        final(rt).sends@.len() == 0,
        !self_call(old(rt)) ==> r.is_err() && final(rt).tx_log@.len() == 0,
//@ end
//@ fn actors/multisig/src/lib.rs Actor::lock_balance free tx0="State;lock_balance_tx0;&mut __vx_st, rt, params"
    requires ms_entry(old(rt)),
    ensures
        /*C11*/ /*C12*/ r.is_ok() ==> self_call(old(rt)),
        r.is_ok() ==> params.unlock_duration > 0 && params.amount@ >= 0 && rt_state::<State>(old(rt).state_id@).unlock_duration == 0
            && final(rt).tx_log@.len() == 1 && ({
                let s1 = rt_state::<State>(final(rt).tx_log@[0]);
                s1.unlock_duration == params.unlock_duration && s1.start_epoch == params.start_epoch && s1.initial_balance@ == params.amount@
                    && s1.signers == rt_state::<State>(old(rt).state_id@).signers && s1.num_approvals_threshold == rt_state::<State>(old(rt).state_id@).num_approvals_threshold
            }),
        final(rt).sends@.len() == 0,
        !self_call(old(rt)) ==> r.is_err() && final(rt).tx_log@.len() == 0,
//@ end

//@ fn actors/multisig/src/lib.rs Actor::approve free tx0="State;approve_tx0;&mut __vx_st, rt, approver, params" ret=res sub0="Self :: approve_transaction=>approve_transaction"
    requires ms_entry(old(rt)),
    ensures
        /*C11*/ res.is_ok() ==> final(rt).validated@.is_some(),
        res.is_ok() ==> final(rt).tx_log@.len() >= 1 && ({
            let s0 = rt_state::<State>(old(rt).state_id@);
            let caller = old(rt).msg.caller;
            let t0 = txns_of(s0)[params.id];
            // "only signers can ... approve", and only an existing pending transaction
            &&& s0.signers@.contains(caller) && txns_of(s0).dom().contains(params.id)
            // at most one message leaves the wallet, and it is exactly the pending transaction
            &&& final(rt).sends@.len() == (if res->Ok_0.applied { 1int } else { 0int })
            &&& (res->Ok_0.applied ==> ({
                    let m = final(rt).sends@[0];
                    &&& m.to == t0.to && m.method == t0.method && m.value == t0.value@ && m.params == Some(IpldBlock { h: t0.params.h })
                    // quorum: the approvals counted (the earlier ones, plus this caller unless they already sufficed) reach the threshold
                    &&& (t0.approved@.len() >= s0.num_approvals_threshold || (!t0.approved@.contains(caller) && t0.approved@.len() + 1 >= s0.num_approvals_threshold))
                    // the lock is respected
                    &&& t0.value@ >= 0 && old(rt).balance@ >= t0.value@
                    &&& (t0.value@ == 0 || old(rt).balance@ - t0.value@ >= locked_spec(s0.initial_balance@, s0.unlock_duration as int, old(rt).epoch - s0.start_epoch))
                    // and it is gone from the pending table afterwards
                    &&& !txns_of(rt_state::<State>(final(rt).tx_log@.last())).dom().contains(params.id)
                }))
            &&& (!res->Ok_0.applied ==> !t0.approved@.contains(caller) && t0.approved@.len() + 1 < s0.num_approvals_threshold)
        }),
        res.is_err() ==> final(rt).sends@.len() == 0,
//@ end

// ======================= constructor: establishes 1 <= threshold <= signers <= 256, distinct signers, the lock =======================
// derive(Default) of TxnID re-stated (derives are stripped); verified
impl TxnID { pub fn default() -> (r: TxnID) ensures r.0 == 0 { TxnID(0) } }
/// the ids behind the first n resolved signers are exactly the set, pairwise distinct
pub open spec fn ctor_inv(rs: Seq<Address>, ids: Set<u64>, n: int) -> bool {
    &&& rs.len() == n
    &&& forall|i: int| 0 <= i < n ==> (#[trigger] rs[i]).proto == 0 && ids.contains(rs[i].id)
    &&& forall|i: int, j: int| 0 <= i < j < n ==> rs[i] != rs[j]
}
//@ fn actors/multisig/src/lib.rs Actor::constructor free ret=res r19=0 sub0="next_tx_id : Default :: default ()=>next_tx_id: TxnID::default()" sub1="start_epoch : Default :: default ()=>start_epoch: 0" sub2="unlock_duration : Default :: default ()=>unlock_duration: 0"
    requires !old(rt).in_tx@,
    ensures
        res.is_ok() ==> ({
            let s = rt_state::<State>(final(rt).state_id@);
            // only the init actor constructs a wallet
            &&& old(rt).msg.caller == INIT_ACTOR_ADDR
            // "1 <= threshold <= number of signers <= 256", signers distinct (as resolved ID addresses), one per requested signer
            &&& ms_wf(s)
            &&& s.signers@.len() == params.signers@.len() && s.num_approvals_threshold == params.num_approvals_threshold
            &&& (forall|i: int| 0 <= i < s.signers@.len() ==> (#[trigger] s.signers@[i]).proto == 0)
            // no pending transactions, ids start at 0
            &&& txns_of(s) =~= Map::<TxnID, Transaction>::empty() && s.next_tx_id.0 == 0
            // the vesting lock is exactly what was asked: nothing locked without a duration, otherwise the value received, linearly over the duration
            &&& params.unlock_duration >= 0
            &&& (params.unlock_duration == 0 ==> s.initial_balance@ == 0 && s.unlock_duration == 0 && s.start_epoch == 0)
            &&& (params.unlock_duration != 0 ==> s.initial_balance@ == old(rt).msg.value_received@ && s.unlock_duration == params.unlock_duration
                    && s.start_epoch == params.start_epoch)
        }),
        /*C11*/ res.is_ok() ==> final(rt).validated@.is_some(),
//@ loop 0
            invariant
                __vx_i0 <= __vx_v0@.len(), __vx_v0@ == params.signers@,
                ctor_inv(resolved_signers@, dedup_signers.view(), __vx_i0 as int),
                !rt.in_tx@, rt.msg == old(rt).msg, rt.validated@.is_some(),
            decreases __vx_v0@.len() - __vx_i0,
//@ end

} // verus!
fn main() {}
