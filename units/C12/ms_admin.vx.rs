// unit: multisig signer / threshold / lock-up administration — WHOLE methods (C12; caller clauses for C11)
//@ include prelude/core.rs
//@ include prelude/ipld.rs
//@ include prelude/rt.rs
//@ include prelude/singletons.rs
//@ include prelude/slices.rs
//@ include prelude/indexmap.rs
//@ include prelude/btreeset.rs
verus! {

//@ const actors/multisig/src/types.rs SIGNERS_MAX
//@ item actors/multisig/src/types.rs TxnID attr="#[derive(Clone, Copy, PartialEq, Eq, Structural)]"
//@ item actors/multisig/src/types.rs Transaction
//@ item actors/multisig/src/state.rs State
//@ item actors/multisig/src/types.rs ConstructorParams
//@ item actors/multisig/src/types.rs ProposeParams
//@ item actors/multisig/src/types.rs ProposeReturn
//@ item actors/multisig/src/types.rs TxnIDParams
//@ item actors/multisig/src/types.rs ApproveReturn
//@ item actors/multisig/src/types.rs AddSignerParams
//@ item actors/multisig/src/types.rs RemoveSignerParams
//@ item actors/multisig/src/types.rs SwapSignerParams
//@ item actors/multisig/src/types.rs ChangeNumApprovalsThresholdParams
//@ item actors/multisig/src/types.rs LockBalanceParams
pub type PendingTxnMap<BS> = Map2<BS, TxnID, Transaction>;
pub const PENDING_TXN_CONFIG: Config = DEFAULT_HAMT_CONFIG;
impl MapKey for TxnID {}
//@ include prelude/multisig_assumed.rs

// ======================= abstract views =======================
pub struct TxV { pub to: Address, pub value: int, pub method: MethodNum, pub params: RawBytes, pub approved: Seq<Address> }
pub open spec fn tv(t: Transaction) -> TxV { TxV { to: t.to, value: t.value@, method: t.method, params: t.params, approved: t.approved@ } }
pub struct StV { pub signers: Seq<Address>, pub threshold: u64, pub next_tx_id: i64, pub initial_balance: int, pub start_epoch: ChainEpoch, pub unlock_duration: ChainEpoch, pub pending_txs: Cid }
pub open spec fn sv(s: State) -> StV {
    StV { signers: s.signers@, threshold: s.num_approvals_threshold, next_tx_id: s.next_tx_id.0, initial_balance: s.initial_balance@,
          start_epoch: s.start_epoch, unlock_duration: s.unlock_duration, pending_txs: s.pending_txs }
}
pub open spec fn txns_of(s: State) -> Map<TxnID, Transaction> { map2_decode::<TxnID, Transaction>(s.pending_txs) }
/// "1 <= threshold <= number of signers <= 256 always holds" (+ signers are distinct)
pub open spec fn ms_wf(s: State) -> bool {
    1 <= s.num_approvals_threshold <= s.signers@.len() <= 256 && s.signers@.no_duplicates()
}
/// everything but the pending-transaction table is untouched
pub open spec fn admin_eq(a: State, b: State) -> bool {
    a.signers@ == b.signers@ && a.num_approvals_threshold == b.num_approvals_threshold && a.initial_balance@ == b.initial_balance@
        && a.start_epoch == b.start_epoch && a.unlock_duration == b.unlock_duration
}

//@ include units/shared/ms_state.inc
//@ fn actors/multisig/src/state.rs State::is_signer
    ensures r == self.signers@.contains(*address),
//@ end

// ======================= signer administration (transaction closures) =======================
//@ fn actors/multisig/src/lib.rs Actor::add_signer closure=0 as=add_signer_tx0 params="st: &mut State, rt: &mut Rt, resolved_new_signer: u64, params: &AddSignerParams" retty="Result<(), ActorError>"
    requires ms_wf(*old(st)),
    ensures
        *final(rt) == *old(rt),
        r.is_ok() ==> ms_wf(*final(st))
            && !old(st).signers@.contains(Address { id: resolved_new_signer, proto: 0 })
            && final(st).signers@ == old(st).signers@.push(Address { id: resolved_new_signer, proto: 0 })
            && final(st).num_approvals_threshold == old(st).num_approvals_threshold + (if params.increase { 1int } else { 0int }),
        final(st).pending_txs == old(st).pending_txs, final(st).next_tx_id == old(st).next_tx_id,
        final(st).initial_balance@ == old(st).initial_balance@, final(st).start_epoch == old(st).start_epoch, final(st).unlock_duration == old(st).unlock_duration,
        r.is_err() ==> sv(*final(st)) == sv(*old(st)),
//@ end
//@ fn actors/multisig/src/lib.rs Actor::change_num_approvals_threshold closure=0 as=change_threshold_tx0 params="st: &mut State, rt: &mut Rt, params: &ChangeNumApprovalsThresholdParams" retty="Result<(), ActorError>"
    requires ms_wf(*old(st)),
    ensures
        *final(rt) == *old(rt),
        r.is_ok() <==> 1 <= params.new_threshold <= old(st).signers@.len(),
        r.is_ok() ==> ms_wf(*final(st)) && final(st).num_approvals_threshold == params.new_threshold,
        r.is_err() ==> final(st).num_approvals_threshold == old(st).num_approvals_threshold,
        final(st).signers == old(st).signers, final(st).pending_txs == old(st).pending_txs, final(st).next_tx_id == old(st).next_tx_id,
        final(st).initial_balance@ == old(st).initial_balance@, final(st).start_epoch == old(st).start_epoch, final(st).unlock_duration == old(st).unlock_duration,
//@ end
//@ fn actors/multisig/src/lib.rs Actor::lock_balance closure=0 as=lock_balance_tx0 params="st: &mut State, rt: &mut Rt, params: LockBalanceParams" retty="Result<(), ActorError>"
    ensures
        *final(rt) == *old(rt),
        // a lock-up can be set once and never modified afterwards
        r.is_ok() <==> old(st).unlock_duration == 0,
        r.is_ok() ==> final(st).start_epoch == params.start_epoch && final(st).unlock_duration == params.unlock_duration && final(st).initial_balance@ == params.amount@,
        r.is_err() ==> sv(*final(st)) == sv(*old(st)),
        final(st).signers == old(st).signers, final(st).num_approvals_threshold == old(st).num_approvals_threshold,
        final(st).pending_txs == old(st).pending_txs, final(st).next_tx_id == old(st).next_tx_id,
//@ end

// ======================= purge_approvals: a removed signer's approvals vanish, order of the others is kept =======================
pub open spec fn purged(t: Transaction, a: Address) -> TxV { TxV { approved: remove_all(t.approved@, a), ..tv(t) } }
/// the purge list built by the first pass: exactly the pending transactions approved by `a`, each once, with their current value
pub open spec fn purge_list_ok(p: Seq<(TxnID, Transaction)>, m0: Map<TxnID, Transaction>, a: Address) -> bool {
    &&& forall|j: int| 0 <= j < p.len() ==> m0.dom().contains(#[trigger] p[j].0) && tv(p[j].1) == tv(m0[p[j].0]) && m0[p[j].0].approved@.contains(a)
    &&& forall|i: int, j: int| 0 <= i < j < p.len() ==> p[i].0 != p[j].0
}
pub open spec fn listed(p: Seq<(TxnID, Transaction)>, k: TxnID) -> bool { im_has(p, k) }


pub open spec fn done_before(p: Seq<(TxnID, Transaction)>, n: int, k: TxnID) -> bool { exists|j: int| 0 <= j < n && #[trigger] p[j].0 == k }
/// state of the pending table after the first n entries of the purge list have been processed
pub open spec fn purge_inv(m: Map<TxnID, Transaction>, m0: Map<TxnID, Transaction>, p: Seq<(TxnID, Transaction)>, n: int, a: Address) -> bool {
    forall|k: TxnID| #![trigger m.dom().contains(k)] #![trigger m0.dom().contains(k)] {
        &&& (!done_before(p, n, k) ==> (m.dom().contains(k) <==> m0.dom().contains(k)) && (m0.dom().contains(k) ==> m[k] == m0[k]))
        &&& (done_before(p, n, k) ==> (m.dom().contains(k) <==> remove_all(m0[k].approved@, a).len() > 0)
                && (m.dom().contains(k) ==> tv(m[k]) == purged(m0[k], a)))
    }
}
pub proof fn lemma_purge_step(m: Map<TxnID, Transaction>, m2: Map<TxnID, Transaction>, m0: Map<TxnID, Transaction>, p: Seq<(TxnID, Transaction)>, n: int, a: Address, t2: Transaction)
    requires
        purge_inv(m, m0, p, n, a), purge_list_ok(p, m0, a), 0 <= n < p.len(),
        tv(t2) == (TxV { approved: remove_all(p[n].1.approved@, a), ..tv(p[n].1) }),
        t2.approved@.len() > 0 ==> m2 == m.insert(p[n].0, t2),
        t2.approved@.len() == 0 ==> m2 == m.remove(p[n].0),
    ensures purge_inv(m2, m0, p, n + 1, a)
{
    let k0 = p[n].0;
    assert(!done_before(p, n, k0)) by {
        if done_before(p, n, k0) { let j = choose|j: int| 0 <= j < n && #[trigger] p[j].0 == k0; assert(p[j].0 != p[n].0); }
    }
    assert(done_before(p, n + 1, k0)) by { assert(p[n].0 == k0); }
    assert forall|k: TxnID| k != k0 implies done_before(p, n + 1, k) == done_before(p, n, k) by {
        if done_before(p, n + 1, k) { let j = choose|j: int| 0 <= j < n + 1 && #[trigger] p[j].0 == k; assert(j < n); }
        if done_before(p, n, k) { let j = choose|j: int| 0 <= j < n && #[trigger] p[j].0 == k; assert(0 <= j < n + 1 && p[j].0 == k); }
    }
    assert(m0.dom().contains(k0) && tv(p[n].1) == tv(m0[k0]));
    assert forall|k: TxnID| #![trigger m2.dom().contains(k)] #![trigger m0.dom().contains(k)] ({
        &&& (!done_before(p, n + 1, k) ==> (m2.dom().contains(k) <==> m0.dom().contains(k)) && (m0.dom().contains(k) ==> m2[k] == m0[k]))
        &&& (done_before(p, n + 1, k) ==> (m2.dom().contains(k) <==> remove_all(m0[k].approved@, a).len() > 0)
                && (m2.dom().contains(k) ==> tv(m2[k]) == purged(m0[k], a)))
    }) by {
        if k == k0 {
            assert(tv(t2).approved == remove_all(m0[k0].approved@, a));
        } else {
            assert(m.dom().contains(k) == m2.dom().contains(k));
            assert(m.dom().contains(k) ==> m2[k] == m[k]);
        }
    }
}

//@ fn actors/multisig/src/state.rs State::purge_approvals r16 sub0=": txn_ids_to_purge=>: txn_ids_to_purge.vx_into_vec()" sub1="txn . approved . retain (| approver | approver != addr)=>vx_retain_ne(&mut txn.approved, addr)"
    ensures
        admin_eq(*old(self), *final(self)), final(self).next_tx_id == old(self).next_tx_id,
        r.is_ok() ==> (forall|k: TxnID| #![trigger txns_of(*final(self)).dom().contains(k)] {
            let m0 = txns_of(*old(self));
            let m1 = txns_of(*final(self));
            // "approvals of removed or replaced signers do not count": the signer disappears from every approval list;
            // "cancelled only by its earliest remaining approver": the order of the remaining approvers is unchanged;
            // a transaction left without approvers is dropped; transactions the signer had not approved are untouched
            &&& (m1.dom().contains(k) <==> m0.dom().contains(k) && (!m0[k].approved@.contains(*addr) || remove_all(m0[k].approved@, *addr).len() > 0))
            &&& (m1.dom().contains(k) && m0[k].approved@.contains(*addr) ==> tv(m1[k]) == purged(m0[k], *addr))
            &&& (m1.dom().contains(k) && !m0[k].approved@.contains(*addr) ==> m1[k] == m0[k])
        }),
//@ loop 0 iter=it0
            invariant
                txns.view() == txns_of(*old(self)),
                purge_list_ok(txn_ids_to_purge@, txns.view(), *addr),
                forall|i: int| 0 <= i < it0.seq().len() ==> txns.view().dom().contains(#[trigger] it0.seq()[i].0) && *it0.seq()[i].1 == txns.view()[it0.seq()[i].0],
                forall|i: int| 0 <= i < it0.index@ ==> (txns.view()[#[trigger] it0.seq()[i].0].approved@.contains(*addr) ==> listed(txn_ids_to_purge@, it0.seq()[i].0)),
//@ loop 1 iter=it1
                invariant
                    txns.view() == txns_of(*old(self)),
                    purge_list_ok(txn_ids_to_purge@, txns.view(), *addr),
                    txns.view().dom().contains(tx_id) && *txn == txns.view()[tx_id],
                    it1.seq().len() == txn.approved@.len(), forall|j: int| 0 <= j < txn.approved@.len() ==> *(#[trigger] it1.seq()[j]) == txn.approved@[j],
                    forall|i: int| 0 <= i < it0.index@ ==> (txns.view()[#[trigger] it0.seq()[i].0].approved@.contains(*addr) ==> listed(txn_ids_to_purge@, it0.seq()[i].0)),
                    (exists|j: int| 0 <= j < it1.index@ && txn.approved@[j] == *addr) ==> listed(txn_ids_to_purge@, tx_id),
//@ loop 2 iter=it2
            invariant
                self.signers == old(self).signers, self.num_approvals_threshold == old(self).num_approvals_threshold, self.initial_balance == old(self).initial_balance,
                self.start_epoch == old(self).start_epoch, self.unlock_duration == old(self).unlock_duration, self.next_tx_id == old(self).next_tx_id,
                self.pending_txs == old(self).pending_txs,
                purge_list_ok(it2.seq(), txns_of(*old(self)), *addr),
                forall|k: TxnID| txns_of(*old(self)).dom().contains(k) && txns_of(*old(self))[k].approved@.contains(*addr) ==> listed(it2.seq(), k),
                purge_inv(txns.view(), txns_of(*old(self)), it2.seq(), it2.index@ as int, *addr),
//@ after "txn . approved . retain"
            let ghost m_pre = txns.view();
            let ghost t2 = txn;
//@ after "txns . set (& tx_id , txn)"
                proof { lemma_purge_step(m_pre, txns.view(), txns_of(*old(self)), it2.seq(), it2.index@ as int, *addr, t2); }
//@ after "txns . delete (& tx_id)"
                proof { lemma_purge_step(m_pre, txns.view(), txns_of(*old(self)), it2.seq(), it2.index@ as int, *addr, t2); }
//@ end


pub proof fn lemma_push_nodup(s: Seq<Address>, x: Address)
    ensures (s.no_duplicates() && !s.contains(x)) ==> s.push(x).no_duplicates()
{
    if s.no_duplicates() && !s.contains(x) {
        assert forall|i: int, j: int| 0 <= i < s.push(x).len() && 0 <= j < s.push(x).len() && i != j implies s.push(x)[i] != s.push(x)[j] by {
            if i < s.len() && j < s.len() {} else if i < s.len() { assert(s.contains(s[i])); } else if j < s.len() { assert(s.contains(s[j])); }
        }
    }
}
/// removing all occurrences of `a`: membership, length and distinctness of the rest
pub proof fn lemma_remove_all(s: Seq<Address>, a: Address)
    ensures
        forall|x: Address| #[trigger] remove_all(s, a).contains(x) <==> s.contains(x) && x != a,
        remove_all(s, a).len() <= s.len(),
        !s.contains(a) ==> remove_all(s, a) == s,
        s.no_duplicates() ==> remove_all(s, a).no_duplicates() && remove_all(s, a).len() == s.len() - (if s.contains(a) { 1int } else { 0int }),
        // the earliest remaining element is the first one that is not `a`
        remove_all(s, a).len() > 0 ==> (exists|i: int| 0 <= i < s.len() && s[i] == remove_all(s, a)[0] && s[i] != a && (forall|j: int| 0 <= j < i ==> s[j] == a)),
    decreases s.len()
{
    if s.len() == 0 {
    } else {
        let t = s.drop_last();
        lemma_remove_all(t, a);
        let rt_ = remove_all(t, a);
        assert(s == t.push(s.last()));
        assert forall|x: Address| #[trigger] remove_all(s, a).contains(x) <==> s.contains(x) && x != a by {
            if s.last() == a {
                if s.contains(x) && x != a { let i = choose|i: int| 0 <= i < s.len() && s[i] == x; assert(t[i] == x); }
                if rt_.contains(x) { let i = choose|i: int| 0 <= i < t.len() && t[i] == x; assert(s[i] == x); }
            } else {
                if remove_all(s, a).contains(x) {
                    let i = choose|i: int| 0 <= i < remove_all(s, a).len() && remove_all(s, a)[i] == x;
                    if i < rt_.len() { assert(rt_[i] == x); assert(rt_.contains(x)); let j = choose|j: int| 0 <= j < t.len() && t[j] == x; assert(s[j] == x); }
                    else { assert(x == s.last()); assert(s[s.len() - 1] == x); }
                }
                if s.contains(x) && x != a {
                    let i = choose|i: int| 0 <= i < s.len() && s[i] == x;
                    if i < t.len() { assert(t[i] == x); assert(rt_.contains(x)); let j = choose|j: int| 0 <= j < rt_.len() && rt_[j] == x; assert(remove_all(s, a)[j] == x); }
                    else { assert(remove_all(s, a)[rt_.len() as int] == x); }
                }
            }
        }
        if !s.contains(a) {
            assert(!t.contains(a)) by { if t.contains(a) { let i = choose|i: int| 0 <= i < t.len() && t[i] == a; assert(s[i] == a); } }
            assert(s.last() != a) by { if s.last() == a { assert(s[s.len() - 1] == a); } }
            assert(remove_all(s, a) =~= s);
        }
        if s.no_duplicates() {
            assert(t.no_duplicates());
            if s.last() == a {
                assert(!t.contains(a)) by { if t.contains(a) { let i = choose|i: int| 0 <= i < t.len() && t[i] == a; assert(s[i] == s[s.len() - 1]); } }
                assert(s.contains(a)) by { assert(s[s.len() - 1] == a); }
            } else {
                assert(!rt_.contains(s.last())) by { if rt_.contains(s.last()) { assert(t.contains(s.last())); let i = choose|i: int| 0 <= i < t.len() && t[i] == s.last(); assert(s[i] == s[s.len() - 1]); } }
                assert(remove_all(s, a).no_duplicates());
                assert(s.contains(a) == t.contains(a)) by {
                    if s.contains(a) { let i = choose|i: int| 0 <= i < s.len() && s[i] == a; assert(t[i] == a); }
                    if t.contains(a) { let i = choose|i: int| 0 <= i < t.len() && t[i] == a; assert(s[i] == a); }
                }
            }
        }
        if remove_all(s, a).len() > 0 {
            if rt_.len() > 0 {
                let i = choose|i: int| 0 <= i < t.len() && t[i] == rt_[0] && t[i] != a && (forall|j: int| 0 <= j < i ==> t[j] == a);
                assert(s[i] == remove_all(s, a)[0]);
                assert(forall|j: int| 0 <= j < i ==> s[j] == a);
            } else {
                // everything before the last element was `a`
                assert(s.last() != a);
                assert(remove_all(s, a)[0] == s.last());
                assert forall|j: int| 0 <= j < s.len() - 1 implies s[j] == a by {
                    if s[j] != a { assert(t[j] == s[j]); assert(t.contains(s[j])); assert(rt_.contains(s[j])); }
                }
                assert(s[s.len() - 1] == remove_all(s, a)[0]);
            }
        }
    }
}

// ======================= remove / swap signer =======================
//@ fn actors/multisig/src/lib.rs Actor::remove_signer closure=0 as=remove_signer_tx0 params="st: &mut State, rt: &mut Rt, resolved_old_signer: u64, params: &RemoveSignerParams" retty="Result<(), ActorError>" sub0="st . signers . retain (| s | s != & Address :: new_id (resolved_old_signer))=>vx_retain_ne(&mut st.signers, &Address::new_id(resolved_old_signer))"
    requires ms_wf(*old(st)),
    ensures
        *final(rt) == *old(rt),
        final(st).next_tx_id == old(st).next_tx_id, final(st).initial_balance@ == old(st).initial_balance@,
        final(st).start_epoch == old(st).start_epoch, final(st).unlock_duration == old(st).unlock_duration,
        r.is_ok() ==> ({
            let a = Address { id: resolved_old_signer, proto: 0 };
            let m0 = txns_of(*old(st));
            let m1 = txns_of(*final(st));
            &&& old(st).signers@.contains(a)
            &&& final(st).signers@ == remove_all(old(st).signers@, a)
            // (added for the whole method) exactly that one signer is gone
            &&& !final(st).signers@.contains(a) && final(st).signers@.len() == old(st).signers@.len() - 1
            &&& final(st).num_approvals_threshold == old(st).num_approvals_threshold - (if params.decrease { 1int } else { 0int })
            // "1 <= threshold <= number of signers <= 256 always holds"
            &&& ms_wf(*final(st))
            // "approvals of removed ... signers do not count"
            &&& (forall|k: TxnID| #![trigger m1.dom().contains(k)] {
                    &&& (m1.dom().contains(k) <==> m0.dom().contains(k) && (!m0[k].approved@.contains(a) || remove_all(m0[k].approved@, a).len() > 0))
                    &&& (m1.dom().contains(k) && m0[k].approved@.contains(a) ==> tv(m1[k]) == purged(m0[k], a))
                    &&& (m1.dom().contains(k) && !m0[k].approved@.contains(a) ==> m1[k] == m0[k])
                })
        }),
//@ entry
        proof { lemma_remove_all(old(st).signers@, Address { id: resolved_old_signer, proto: 0 }); }
//@ after "st . purge_approvals"
        let ghost mid = *st;
//@ after "st . signers . retain"
        proof { assert(txns_of(*st) == txns_of(mid)); assert(txns_of(*old(st)).dom() =~= txns_of(*old(st)).dom()); }
//@ end

//@ fn actors/multisig/src/lib.rs Actor::swap_signer closure=0 as=swap_signer_tx0 params="st: &mut State, rt: &mut Rt, from_resolved: u64, to_resolved: u64" retty="Result<(), ActorError>" sub0="st . signers . retain (| s | s != & Address :: new_id (from_resolved))=>vx_retain_ne(&mut st.signers, &Address::new_id(from_resolved))"
    requires ms_wf(*old(st)),
    ensures
        *final(rt) == *old(rt),
        final(st).next_tx_id == old(st).next_tx_id, final(st).initial_balance@ == old(st).initial_balance@,
        final(st).start_epoch == old(st).start_epoch, final(st).unlock_duration == old(st).unlock_duration,
        final(st).num_approvals_threshold == old(st).num_approvals_threshold,
        r.is_ok() ==> ({
            let a = Address { id: from_resolved, proto: 0 };
            let b = Address { id: to_resolved, proto: 0 };
            let m0 = txns_of(*old(st));
            let m1 = txns_of(*final(st));
            &&& old(st).signers@.contains(a) && !old(st).signers@.contains(b)
            &&& final(st).signers@ == remove_all(old(st).signers@, a).push(b)
            // (added for the whole method) the replaced signer is gone, the number of signers is unchanged
            &&& !final(st).signers@.contains(a) && final(st).signers@.len() == old(st).signers@.len()
            &&& ms_wf(*final(st))
            // "approvals of ... replaced signers do not count" (and are not inherited by the replacement)
            &&& (forall|k: TxnID| #![trigger m1.dom().contains(k)] {
                    &&& (m1.dom().contains(k) <==> m0.dom().contains(k) && (!m0[k].approved@.contains(a) || remove_all(m0[k].approved@, a).len() > 0))
                    &&& (m1.dom().contains(k) && m0[k].approved@.contains(a) ==> tv(m1[k]) == purged(m0[k], a))
                    &&& (m1.dom().contains(k) && !m0[k].approved@.contains(a) ==> m1[k] == m0[k])
                })
        }),
//@ entry
        proof { lemma_remove_all(old(st).signers@, Address { id: from_resolved, proto: 0 }); lemma_push_nodup(remove_all(old(st).signers@, Address { id: from_resolved, proto: 0 }), Address { id: to_resolved, proto: 0 }); }
        proof { lemma_push_contains(remove_all(old(st).signers@, Address { id: from_resolved, proto: 0 }), Address { id: to_resolved, proto: 0 }, Address { id: from_resolved, proto: 0 }); }
//@ end

pub proof fn lemma_push_contains(s: Seq<Address>, b: Address, x: Address)
    ensures s.push(b).contains(x) <==> (s.contains(x) || x == b)
{
    if s.push(b).contains(x) { let i = choose|i: int| 0 <= i < s.push(b).len() && s.push(b)[i] == x; if i < s.len() { assert(s[i] == x); } }
    if s.contains(x) { let i = choose|i: int| 0 <= i < s.len() && s[i] == x; assert(s.push(b)[i] == x); }
    if x == b { assert(s.push(b)[s.len() as int] == x); }
}

// ======================= whole methods =======================
// ---------------- resolve_to_actor_id (runtime/src/builtin/shared.rs): what the id IS ----------------
//@ fn runtime/src/builtin/shared.rs resolve_to_actor_id
    requires !old(rt).in_tx@,
    ensures
        rt_frame(old(rt), final(rt)),
        final(rt).state_id == old(rt).state_id, final(rt).created == old(rt).created,
        final(rt).balance@ == old(rt).balance@,
        // an address that already resolves costs no message; otherwise exactly one zero-value plain send to it creates the account
        rt_resolve(*address, old(rt).sends@.len()).is_some() ==> final(rt).sends == old(rt).sends
            && (r.is_ok() ==> r->Ok_0 == rt_resolve(*address, old(rt).sends@.len())->Some_0),
        rt_resolve(*address, old(rt).sends@.len()).is_none() ==> rt_pushed(old(rt), final(rt))
            && final(rt).sends@.last().to == *address && final(rt).sends@.last().method == METHOD_SEND && final(rt).sends@.last().value == 0,
        rt_resolve(*address, old(rt).sends@.len()).is_none() && r.is_ok() ==> final(rt).sends@.last().ok,
        // the result is what the address resolves to NOW, and (when asked) an actor with code lives there
        r.is_ok() ==> rt_resolve(*address, final(rt).sends@.len()) == Some(r->Ok_0),
        r.is_ok() && check_existence ==> rt_code_of(r->Ok_0).is_some(),
//@ end

/// a fresh activation on a well-formed wallet
pub open spec fn ms_entry(rt: &Rt) -> bool {
    !rt.in_tx@ && rt.tx_log@.len() == 0 && rt.sends@.len() == 0 && rt.validated@.is_none() && ms_wf(rt_state::<State>(rt.state_id@))
}
/// "Signers, threshold and lock-up change only through a transaction the wallet sends to itself"
pub open spec fn self_call(rt: &Rt) -> bool { rt.msg.caller == rt.msg.receiver }
/// the only messages an administration method may emit: zero-value plain sends that create the account behind a new address
pub open spec fn only_account_creation(rt: &Rt, max: int) -> bool {
    rt.sends@.len() <= max && forall|i: int| 0 <= i < rt.sends@.len() ==> (#[trigger] rt.sends@[i]).method == METHOD_SEND && rt.sends@[i].value == 0
}
/// what a method leaves behind when it succeeds: exactly one committed state, which is the wallet's state from then on
pub open spec fn committed_once(o: &Rt, f: &Rt) -> bool {
    f.tx_log@.len() == 1 && f.state_id@ == f.tx_log@[0] && f.balance@ == o.balance@ && !f.deleted@ == !o.deleted@
}
/// a refused call leaves the wallet's state alone
pub open spec fn untouched(o: &Rt, f: &Rt) -> bool { f.tx_log@.len() == 0 && f.state_id == o.state_id && f.balance@ == o.balance@ }
pub open spec fn lock_eq(a: State, b: State) -> bool {
    a.initial_balance@ == b.initial_balance@ && a.start_epoch == b.start_epoch && a.unlock_duration == b.unlock_duration
}
/// "approvals of removed or replaced signers do not count": `a` vanishes from every approval list, the order of the others is kept,
/// a transaction left without approvers is dropped, the rest of the table is untouched
pub open spec fn approvals_purged(s0: State, s1: State, a: Address) -> bool {
    let m0 = txns_of(s0);
    let m1 = txns_of(s1);
    forall|k: TxnID| #![trigger m1.dom().contains(k)] {
        &&& (m1.dom().contains(k) <==> m0.dom().contains(k) && (!m0[k].approved@.contains(a) || remove_all(m0[k].approved@, a).len() > 0))
        &&& (m1.dom().contains(k) && m0[k].approved@.contains(a) ==> tv(m1[k]) == purged(m0[k], a))
        &&& (m1.dom().contains(k) && !m0[k].approved@.contains(a) ==> m1[k] == m0[k])
    }
}

//@ fn actors/multisig/src/lib.rs Actor::add_signer free tx0="State;add_signer_tx0;&mut __vx_st, rt, resolved_new_signer, &params"
    requires ms_entry(old(rt)),
    ensures
        /*C11*/ /*C12*/ r.is_ok() ==> self_call(old(rt)) && final(rt).validated@.is_some(),
        /*C11*/ /*C12*/ !self_call(old(rt)) ==> r.is_err() && final(rt).sends@.len() == 0,
        only_account_creation(final(rt), 1),
        r.is_ok() ==> committed_once(old(rt), final(rt)) && ({
            let s0 = rt_state::<State>(old(rt).state_id@);
            let s1 = rt_state::<State>(final(rt).tx_log@[0]);
            let id = rt_resolve(params.signer, final(rt).sends@.len());
            // the signer address is resolved to an ID address first (an actor exists there); it was not a signer; it is appended
            &&& id.is_some() && rt_code_of(id->Some_0).is_some()
            &&& !s0.signers@.contains(Address { id: id->Some_0, proto: 0 })
            &&& s1.signers@ == s0.signers@.push(Address { id: id->Some_0, proto: 0 })
            // the threshold moves only as asked
            &&& s1.num_approvals_threshold == s0.num_approvals_threshold + (if params.increase { 1int } else { 0int })
            // "1 <= threshold <= number of signers <= 256 always holds"
            &&& ms_wf(s1)
            // pending transactions, ids and the lock-up are untouched
            &&& s1.pending_txs == s0.pending_txs && s1.next_tx_id == s0.next_tx_id && lock_eq(s0, s1)
        }),
        r.is_err() ==> untouched(old(rt), final(rt)),
//@ end

//@ fn actors/multisig/src/lib.rs Actor::remove_signer free tx0="State;remove_signer_tx0;&mut __vx_st, rt, resolved_old_signer, &params"
    requires ms_entry(old(rt)),
    ensures
        /*C11*/ /*C12*/ r.is_ok() ==> self_call(old(rt)) && final(rt).validated@.is_some(),
        /*C11*/ /*C12*/ !self_call(old(rt)) ==> r.is_err() && final(rt).sends@.len() == 0,
        only_account_creation(final(rt), 1),
        r.is_ok() ==> committed_once(old(rt), final(rt)) && ({
            let s0 = rt_state::<State>(old(rt).state_id@);
            let s1 = rt_state::<State>(final(rt).tx_log@[0]);
            let id = rt_resolve(params.signer, final(rt).sends@.len());
            let a = Address { id: id->Some_0, proto: 0 };
            // the signer address is resolved to an ID address first; it was a signer; exactly it is removed, the order of the others kept
            &&& id.is_some()
            &&& s0.signers@.contains(a) && !s1.signers@.contains(a)
            &&& s1.signers@ == remove_all(s0.signers@, a) && s1.signers@.len() == s0.signers@.len() - 1
            // the threshold is adjusted only as asked
            &&& s1.num_approvals_threshold == s0.num_approvals_threshold - (if params.decrease { 1int } else { 0int })
            // "1 <= threshold <= number of signers <= 256 always holds"
            &&& ms_wf(s1)
            // "approvals of removed ... signers do not count"
            &&& approvals_purged(s0, s1, a)
            &&& s1.next_tx_id == s0.next_tx_id && lock_eq(s0, s1)
        }),
        r.is_err() ==> untouched(old(rt), final(rt)),
//@ end

//@ fn actors/multisig/src/lib.rs Actor::swap_signer free tx0="State;swap_signer_tx0;&mut __vx_st, rt, from_resolved, to_resolved"
    requires ms_entry(old(rt)),
    ensures
        /*C11*/ /*C12*/ r.is_ok() ==> self_call(old(rt)) && final(rt).validated@.is_some(),
        /*C11*/ /*C12*/ !self_call(old(rt)) ==> r.is_err() && final(rt).sends@.len() == 0,
        only_account_creation(final(rt), 2),
        r.is_ok() ==> committed_once(old(rt), final(rt)) && ({
            let s0 = rt_state::<State>(old(rt).state_id@);
            let s1 = rt_state::<State>(final(rt).tx_log@[0]);
            let n = final(rt).sends@.len();
            let to_id = rt_resolve(params.to, n);
            // both addresses are resolved to ID addresses first (`from` before `to`; an actor exists behind `to`)
            &&& to_id.is_some() && rt_code_of(to_id->Some_0).is_some()
            // (`from` is resolved before any message if it already has an ID, otherwise after the one send that creates its account)
            &&& ({
                    let k: nat = if rt_resolve(params.from, 0).is_some() { 0 } else { 1 };
                    let a = Address { id: rt_resolve(params.from, k)->Some_0, proto: 0 };
                    let b = Address { id: to_id->Some_0, proto: 0 };
                    // `from` was a signer, `to` was not; `from` is replaced by `to`; the threshold is untouched
                    &&& k <= n && rt_resolve(params.from, k).is_some()
                    &&& s0.signers@.contains(a) && !s0.signers@.contains(b) && !s1.signers@.contains(a)
                    &&& s1.signers@ == remove_all(s0.signers@, a).push(b) && s1.signers@.len() == s0.signers@.len()
                    // "approvals of ... replaced signers do not count" (and are not inherited by the replacement)
                    &&& approvals_purged(s0, s1, a)
                })
            &&& s1.num_approvals_threshold == s0.num_approvals_threshold
            // "1 <= threshold <= number of signers <= 256 always holds"
            &&& ms_wf(s1)
            &&& s1.next_tx_id == s0.next_tx_id && lock_eq(s0, s1)
        }),
        r.is_err() ==> untouched(old(rt), final(rt)),
//@ end

//@ fn actors/multisig/src/lib.rs Actor::change_num_approvals_threshold free tx0="State;change_threshold_tx0;&mut __vx_st, rt, &params"
    requires ms_entry(old(rt)),
    ensures
        /*C11*/ /*C12*/ r.is_ok() ==> self_call(old(rt)) && final(rt).validated@.is_some(),
        /*C11*/ /*C12*/ !self_call(old(rt)) ==> r.is_err(),
        final(rt).sends@.len() == 0,
        r.is_ok() ==> committed_once(old(rt), final(rt)) && ({
            let s0 = rt_state::<State>(old(rt).state_id@);
            let s1 = rt_state::<State>(final(rt).tx_log@[0]);
            // exactly the requested threshold, and it is within 1 ..= number of signers
            &&& 1 <= params.new_threshold <= s0.signers@.len()
            &&& s1.num_approvals_threshold == params.new_threshold
            &&& ms_wf(s1)
            &&& s1.signers == s0.signers && s1.pending_txs == s0.pending_txs && s1.next_tx_id == s0.next_tx_id && lock_eq(s0, s1)
        }),
        r.is_err() ==> untouched(old(rt), final(rt)),
        // it cannot be refused for another reason (a healthy store, a writable activation)
        self_call(old(rt)) && vx_store_ok() && !old(rt).read_only
            && 1 <= params.new_threshold <= rt_state::<State>(old(rt).state_id@).signers@.len() ==> r.is_ok(),
//@ end

//@ fn actors/multisig/src/lib.rs Actor::lock_balance free tx0="State;lock_balance_tx0;&mut __vx_st, rt, params"
    requires ms_entry(old(rt)),
    ensures
        /*C11*/ /*C12*/ r.is_ok() ==> self_call(old(rt)) && final(rt).validated@.is_some(),
        /*C11*/ /*C12*/ !self_call(old(rt)) ==> r.is_err(),
        final(rt).sends@.len() == 0,
        r.is_ok() ==> committed_once(old(rt), final(rt)) && ({
            let s0 = rt_state::<State>(old(rt).state_id@);
            let s1 = rt_state::<State>(final(rt).tx_log@[0]);
            // a positive duration, a non-negative amount, and only if no lock-up was ever set ("set once")
            &&& params.unlock_duration > 0 && params.amount@ >= 0 && s0.unlock_duration == 0
            &&& s1.unlock_duration == params.unlock_duration && s1.start_epoch == params.start_epoch && s1.initial_balance@ == params.amount@
            &&& s1.signers == s0.signers && s1.num_approvals_threshold == s0.num_approvals_threshold
            &&& s1.pending_txs == s0.pending_txs && s1.next_tx_id == s0.next_tx_id
            &&& ms_wf(s1)
        }),
        r.is_err() ==> untouched(old(rt), final(rt)),
//@ end

} // verus!
fn main() {}
