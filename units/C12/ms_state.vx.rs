// unit: multisig State — linear lock schedule and the spending check (C12; solvency clause of C01)
//@ include prelude/core.rs
verus! {

//@ item actors/multisig/src/types.rs TxnID
//@ item actors/multisig/src/state.rs State

//@ include units/shared/ms_state.inc
} // verus!
fn main() {}
