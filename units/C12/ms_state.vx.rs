// unit: multisig State — linear lock schedule and the spending check (C12; solvency clause of C01)
//@ include prelude/core.rs
verus! {

//@ item actors/multisig/src/types.rs TxnID
//@ item actors/multisig/src/state.rs State

// ---- the statement's vesting schedule, written from the property ("linear vesting schedule") ----
/// amount still locked after `elapsed` epochs of a lock of `initial` over `duration` epochs (rounded up)
pub open spec fn locked_spec(initial: int, duration: int, elapsed: int) -> int {
    if elapsed >= duration { 0 }
    else if elapsed <= 0 { initial }
    else { ceil_div(initial * (duration - elapsed), duration) }
}

/// the lock only ever releases: monotone non-increasing in elapsed time, between 0 and initial
pub proof fn lemma_locked_monotone(initial: int, duration: int, e1: int, e2: int)
    requires initial >= 0, e1 <= e2
    ensures
        locked_spec(initial, duration, e2) <= locked_spec(initial, duration, e1),
        0 <= locked_spec(initial, duration, e1) <= initial,
{
    lemma_locked_range(initial, duration, e1);
    lemma_locked_range(initial, duration, e2);
    if 0 < e1 && e2 < duration {
        let a = initial * (duration - e1);
        let b = initial * (duration - e2);
        assert(b <= a) by (nonlinear_arith) requires initial >= 0, e1 <= e2, a == initial * (duration - e1), b == initial * (duration - e2);
        lemma_ceil_div_monotone(b, a, duration);
    }
}
pub proof fn lemma_locked_range(initial: int, duration: int, e: int)
    requires initial >= 0
    ensures 0 <= locked_spec(initial, duration, e) <= initial
{
    if 0 < e < duration {
        let a = initial * (duration - e);
        assert(0 <= a <= initial * duration) by (nonlinear_arith) requires initial >= 0, 0 < e < duration, a == initial * (duration - e);
        lemma_ceil_div_monotone(0, a, duration);
        lemma_ceil_div_monotone(a, initial * duration, duration);
        assert(ceil_div(0, duration) == 0) by (nonlinear_arith) requires duration > 0;
        assert(ceil_div(initial * duration, duration) == initial) by (nonlinear_arith) requires duration > 0;
    }
}
pub proof fn lemma_ceil_div_monotone(x: int, y: int, d: int)
    requires x <= y, d > 0
    ensures ceil_div(x, d) <= ceil_div(y, d)
{
    assert((-y) / d <= (-x) / d) by (nonlinear_arith) requires x <= y, d > 0;
}

//@ fn actors/multisig/src/state.rs State::amount_locked
    ensures
        r@ == locked_spec(self.initial_balance@, self.unlock_duration as int, elapsed_epoch as int),
//@ end

//@ fn actors/multisig/src/state.rs State::check_available
    requires
        // machine arithmetic: the epoch difference must be representable (chain epochs are far below 2^62)
        i64::MIN <= curr_epoch - self.start_epoch <= i64::MAX,
    ensures
        // "never leaves the wallet's balance below the amount still locked"
        r.is_ok() <==> (amount_to_spend@ >= 0 && balance@ >= amount_to_spend@
            && (amount_to_spend@ == 0
                || balance@ - amount_to_spend@ >= locked_spec(self.initial_balance@, self.unlock_duration as int, curr_epoch - self.start_epoch))),
//@ end

//@ fn actors/multisig/src/state.rs State::set_locked
    ensures
        final(self).start_epoch == start_epoch,
        final(self).unlock_duration == unlock_duration,
        final(self).initial_balance@ == locked_amount@,
        final(self).signers == old(self).signers,
        final(self).num_approvals_threshold == old(self).num_approvals_threshold,
        final(self).next_tx_id == old(self).next_tx_id,
        final(self).pending_txs == old(self).pending_txs,
//@ end

} // verus!
fn main() {}
