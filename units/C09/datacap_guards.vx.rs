// unit: DataCap token actor — who may mint, destroy and move tokens (C09; caller clauses C11). Only the guards: the token
// bookkeeping itself is the external frc46_token library. Prefix extraction: each transaction closure is kept up to its guard,
// the remainder (the library call) is an unconstrained stub, so "Ok implies the guard passed" holds for any continuation.
//@ include prelude/core.rs
//@ include prelude/ipld.rs
//@ include prelude/rt.rs
//@ include prelude/singletons.rs
verus! {
/// frc46_token::token::state::TokenState (external crate): opaque
pub mod token { pub mod state { pub struct TokenState { pub h: u64 } } }
pub struct VxOpaque { pub h: u64 }
//@ item actors/datacap/src/state.rs State
//@ item actors/datacap/src/types.rs MintParams
//@ item actors/datacap/src/types.rs DestroyParams
/// frc46 TransferParams / TransferFromParams (external crate types): only the fields the guards read
pub struct TransferParams { pub to: Address, pub amount: TokenAmount, pub operator_data: RawBytes }
pub struct TransferFromParams { pub from: Address, pub to: Address, pub amount: TokenAmount, pub operator_data: RawBytes }

//@ fn actors/datacap/src/lib.rs Actor::mint closure=0 as=mint_tx0 params="st: &mut State, rt: &mut Rt, params: &MintParams" retty="Result<VxOpaque, ActorError>" prefix="validate_immediate_caller_is"
    requires old(rt).validated@.is_none(),
    ensures
        // "only governor may mint": Ok is reachable only past the caller check against the recorded governor
        /*C11*/ /*C09*/ r.is_ok() ==> old(rt).msg.caller == old(st).governor,
        r.is_err() && old(rt).msg.caller != old(st).governor ==> *final(st) == *old(st),
//@ end
//@ fn actors/datacap/src/lib.rs Actor::destroy closure=0 as=destroy_tx0 params="st: &mut State, rt: &mut Rt, params: &DestroyParams" retty="Result<VxOpaque, ActorError>" prefix="validate_immediate_caller_is"
    requires old(rt).validated@.is_none(),
    ensures
        /*C11*/ /*C09*/ r.is_ok() ==> old(rt).msg.caller == old(st).governor,
        r.is_err() && old(rt).msg.caller != old(st).governor ==> *final(st) == *old(st),
//@ end
//@ fn actors/datacap/src/lib.rs Actor::transfer closure=0 as=transfer_tx0 params="st: &mut State, rt: &mut Rt, from: &Address, to_address: Address, params: &TransferParams" retty="Result<VxOpaque, ActorError>" prefix="if ! allowed"
    ensures
        // "transfers only to/from governor"
        r.is_ok() ==> to_address == old(st).governor || *from == old(st).governor,
        !(to_address == old(st).governor || *from == old(st).governor) ==> r.is_err() && *final(st) == *old(st) && *final(rt) == *old(rt),
//@ end
//@ fn actors/datacap/src/lib.rs Actor::transfer_from closure=0 as=transfer_from_tx0 params="st: &mut State, rt: &mut Rt, operator: Address, from: Address, to_address: Address, params: &TransferFromParams" retty="Result<VxOpaque, ActorError>" prefix="if ! allowed"
    ensures
        r.is_ok() ==> to_address == old(st).governor,
        to_address != old(st).governor ==> r.is_err() && *final(st) == *old(st) && *final(rt) == *old(rt),
//@ end
} // verus!
fn main() {}
