// unit: verified registry — a verifier's allowance decreases by exactly what it grants (C09)
//@ include prelude/core.rs
//@ include prelude/ipld.rs
//@ include prelude/rt.rs
//@ include prelude/singletons.rs
//@ include prelude/policy.rs
//@ include prelude/verifreg.rs
verus! {

pub struct BigIntDe(pub BigInt);
impl Clone for BigIntDe { fn clone(&self) -> (r: Self) ensures r.0@ == self.0@ { BigIntDe(self.0.clone()) } }
//@ item actors/verifreg/src/state.rs DataCapMap
//@ const actors/verifreg/src/state.rs DATACAP_MAP_CONFIG
//@ item actors/verifreg/src/state.rs State
//@ item actors/verifreg/src/types.rs VerifierParams
//@ item actors/verifreg/src/types.rs AddVerifiedClientParams
/// frc46_token::token::TOKEN_PRECISION (external crate constant: 10^18)
pub const TOKEN_PRECISION: u64 = 1_000_000_000_000_000_000;
pub mod ext { pub mod datacap {
    use super::super::*;
//@ item actors/verifreg/src/ext.rs MintParams
//@ item actors/verifreg/src/ext.rs DestroyParams
} }
use ext::datacap::MintParams;
use ext::datacap::DestroyParams;

pub open spec fn verifiers_of(s: State) -> Map<Address, BigIntDe> { map2_decode::<Address, BigIntDe>(s.verifiers) }

//@ fn runtime/src/builtin/shared.rs resolve_to_actor_id
    requires !old(rt).in_tx@,
    ensures
        rt_frame(old(rt), final(rt)),
        final(rt).state_id == old(rt).state_id,
        // at most one zero-value plain send (account creation)
        final(rt).sends@.len() <= old(rt).sends@.len() + 1,
        final(rt).sends@.len() == old(rt).sends@.len() + 1 ==> rt_pushed(old(rt), final(rt))
            && final(rt).sends@.last().method == METHOD_SEND && final(rt).sends@.last().value == 0,
        final(rt).sends@.len() == old(rt).sends@.len() ==> final(rt).sends == old(rt).sends && final(rt).balance == old(rt).balance,
//@ end

//@ fn actors/verifreg/src/state.rs State::load_verifiers
    ensures r.is_ok() ==> r->Ok_0.view() == verifiers_of(*self),
//@ end
//@ fn actors/verifreg/src/state.rs State::get_verifier_cap r10map
    ensures
        r.is_ok() ==> (r->Ok_0.is_some() <==> verifiers_of(*self).dom().contains(*verifier)),
        r.is_ok() && r->Ok_0.is_some() ==> r->Ok_0->Some_0@ == verifiers_of(*self)[*verifier].0@,
//@ end
//@ fn actors/verifreg/src/state.rs State::put_verifier
    ensures
        r.is_ok() ==> verifiers_of(*final(self)).dom() == verifiers_of(*old(self)).dom().insert(*verifier)
            && verifiers_of(*final(self))[*verifier].0@ == cap@
            && forall|k: Address| k != *verifier && verifiers_of(*old(self)).dom().contains(k) ==> #[trigger] verifiers_of(*final(self))[k] == verifiers_of(*old(self))[k],
        r.is_err() ==> *final(self) == *old(self),
        final(self).root_key == old(self).root_key, final(self).allocations == old(self).allocations,
        final(self).claims == old(self).claims, final(self).next_allocation_id == old(self).next_allocation_id,
        final(self).remove_data_cap_proposal_ids == old(self).remove_data_cap_proposal_ids,
//@ end

//@ fn actors/verifreg/src/lib.rs datacap_to_tokens
    ensures r@ == amount@ * 1_000_000_000_000_000_000,
//@ end

//@ fn actors/verifreg/src/lib.rs mint sub0="ext :: datacap :: Method :: Mint as u64=>datacap_mint_method()"
    requires !old(rt).in_tx@,
    ensures
        rt_frame(old(rt), final(rt)),
        final(rt).sends@.len() <= old(rt).sends@.len() + 1,
        // on success: one Mint request to the datacap actor for exactly `amount` whole datacap to exactly `to`, and it succeeded
        r.is_ok() ==> rt_pushed(old(rt), final(rt)) && final(rt).sends@.last().ok,
        r.is_ok() ==> final(rt).sends@.last().to == DATACAP_TOKEN_ACTOR_ADDR && final(rt).sends@.last().method == datacap_mint_method_spec()
            && final(rt).sends@.last().value == 0,
        r.is_ok() ==> exists|p: ext::datacap::MintParams| final(rt).sends@.last().params == Some(IpldBlock { h: #[trigger] cbor_hash(p) })
            && p.to == *to && p.amount@ == amount@ * 1_000_000_000_000_000_000 && p.operators@ == operators@,
//@ end


// ---------------- token movements requested from the datacap actor must SUCCEED (a tolerated failure would desynchronise the ledgers) ----------------
//@ fn actors/verifreg/src/lib.rs transfer sub0="ext :: datacap :: Method :: Transfer as u64=>datacap_transfer_method()" sub1="Default :: default ()=>RawBytes::default()"
    requires !old(rt).in_tx@,
    ensures
        rt_frame(old(rt), final(rt)), final(rt).sends@.len() <= old(rt).sends@.len() + 1,
        // "expired and refunded to its client": Ok only if the refund transfer really happened, for exactly `amount` to exactly `to`
        r.is_ok() ==> rt_pushed(old(rt), final(rt)) && final(rt).sends@.last().ok
            && final(rt).sends@.last().to == DATACAP_TOKEN_ACTOR_ADDR && final(rt).sends@.last().method == datacap_transfer_method_spec(),
        r.is_ok() ==> exists|p: TransferParams| final(rt).sends@.last().params == Some(IpldBlock { h: #[trigger] cbor_hash(p) })
            && p.to == (Address { id: to, proto: 0 }) && p.amount@ == amount@ * 1_000_000_000_000_000_000,
//@ end
//@ fn actors/verifreg/src/lib.rs burn sub0="ext :: datacap :: Method :: Burn as u64=>datacap_burn_method()"
    requires !old(rt).in_tx@,
    ensures
        rt_frame(old(rt), final(rt)), final(rt).sends@.len() <= old(rt).sends@.len() + 1,
        amount@ == 0 ==> r.is_ok() && *final(rt) == *old(rt),
        // "claimed ... (its tokens burnt)": Ok only if the burn of exactly `amount` really happened
        amount@ != 0 && r.is_ok() ==> rt_pushed(old(rt), final(rt)) && final(rt).sends@.last().ok
            && final(rt).sends@.last().to == DATACAP_TOKEN_ACTOR_ADDR && final(rt).sends@.last().method == datacap_burn_method_spec()
            && exists|p: BurnParams| final(rt).sends@.last().params == Some(IpldBlock { h: #[trigger] cbor_hash(p) }) && p.amount@ == amount@ * 1_000_000_000_000_000_000,
//@ end
//@ fn actors/verifreg/src/lib.rs destroy sub0="ext :: datacap :: Method :: Destroy as u64=>datacap_destroy_method()"
    requires !old(rt).in_tx@,
    ensures
        rt_frame(old(rt), final(rt)), final(rt).sends@.len() <= old(rt).sends@.len() + 1,
        amount@ == 0 ==> r.is_ok() && *final(rt) == *old(rt),
        amount@ != 0 && r.is_ok() ==> rt_pushed(old(rt), final(rt)) && final(rt).sends@.last().ok
            && final(rt).sends@.last().to == DATACAP_TOKEN_ACTOR_ADDR && final(rt).sends@.last().method == datacap_destroy_method_spec()
            && exists|p: DestroyParams| final(rt).sends@.last().params == Some(IpldBlock { h: #[trigger] cbor_hash(p) }) && p.owner == *owner && p.amount@ == amount@ * 1_000_000_000_000_000_000,
//@ end

// ---------------- add_verified_client: transaction closure ----------------
//@ fn actors/verifreg/src/lib.rs Actor::add_verified_client closure=0 as=avc_tx0 params="st: &mut State, rt: &mut Rt, client: Address, params: &AddVerifiedClientParams" retty="Result<(), ActorError>"
    requires
        old(rt).msg.caller.proto == 0,     // the immediate caller is always addressed by ID (FVM)
        client.proto == 0,
    ensures
        /*C11*/ r.is_ok() ==> verifiers_of(*old(st)).dom().contains(old(rt).msg.caller),
        r.is_ok() ==> ({
            let v0 = verifiers_of(*old(st));
            let v1 = verifiers_of(*final(st));
            let caller = old(rt).msg.caller;
            // only a verifier may grant; not to the root key, not to another verifier; never more than it has
            &&& v0.dom().contains(caller)
            &&& client != old(st).root_key
            &&& !v0.dom().contains(client)
            &&& v0[caller].0@ >= params.allowance@
            // "a verifier's remaining allowance decreases by exactly what it grants to clients"; nobody else's changes
            &&& v1.dom() == v0.dom().insert(caller)
            &&& v1[caller].0@ == v0[caller].0@ - params.allowance@
            &&& forall|k: Address| k != caller && v0.dom().contains(k) ==> #[trigger] v1[k] == v0[k]
            &&& final(st).root_key == old(st).root_key && final(st).allocations == old(st).allocations && final(st).claims == old(st).claims
        }),
        final(rt).sends == old(rt).sends, final(rt).msg == old(rt).msg, final(rt).in_tx == old(rt).in_tx,
        final(rt).tx_log == old(rt).tx_log, final(rt).balance == old(rt).balance,
//@ end

// ---------------- add_verified_client: whole method ----------------
//@ fn actors/verifreg/src/lib.rs Actor::add_verified_client free tx0="State;avc_tx0;&mut __vx_st, rt, client, &params"
    requires
        !old(rt).in_tx@, old(rt).tx_log@.len() == 0,
        old(rt).msg.caller.proto == 0,
    ensures
        r.is_ok() ==> final(rt).tx_log@.len() == 1 && final(rt).sends@.len() >= 1 && ({
            let m = final(rt).sends@.last();
            // the client is credited exactly the allowance that was taken from the verifier
            &&& m.ok && m.to == DATACAP_TOKEN_ACTOR_ADDR && m.method == datacap_mint_method_spec()
            &&& exists|p: ext::datacap::MintParams| m.params == Some(IpldBlock { h: #[trigger] cbor_hash(p) })
                    && p.amount@ == params.allowance@ * 1_000_000_000_000_000_000 && p.to.proto == 0
            &&& params.allowance@ >= rt_policy().minimum_verified_allocation_size@
        }),
//@ end

} // verus!
fn main() {}
