// unit: verified registry — verifier management: constructor, add_verifier, remove_verifier, remove_verified_client_data_cap (C09, C11)
//@ include prelude/core.rs
//@ include prelude/ipld.rs
//@ include prelude/rt.rs
//@ include prelude/cbor.rs
//@ include prelude/singletons.rs
//@ include prelude/policy.rs
//@ include prelude/verifreg.rs
verus! {

pub struct BigIntDe(pub BigInt);
impl Clone for BigIntDe { fn clone(&self) -> (r: Self) ensures r.0@ == self.0@ { BigIntDe(self.0.clone()) } }
//@ item actors/verifreg/src/state.rs DataCapMap
//@ const actors/verifreg/src/state.rs DATACAP_MAP_CONFIG
//@ item actors/verifreg/src/state.rs RemoveDataCapProposalMap
//@ const actors/verifreg/src/state.rs REMOVE_DATACAP_PROPOSALS_CONFIG
//@ item actors/verifreg/src/state.rs State
//@ item actors/verifreg/src/types.rs ConstructorParams
//@ item actors/verifreg/src/types.rs VerifierParams
//@ item actors/verifreg/src/types.rs AddVerifierParams
//@ item actors/verifreg/src/types.rs RemoveVerifierParams
//@ item actors/verifreg/src/types.rs RemoveDataCapParams
//@ item actors/verifreg/src/types.rs RemoveDataCapRequest
//@ item actors/verifreg/src/types.rs RemoveDataCapReturn
//@ item actors/verifreg/src/types.rs RemoveDataCapProposalID
//@ item actors/verifreg/src/types.rs RemoveDataCapProposal
//@ item actors/verifreg/src/types.rs AddrPairKey
//@ fn actors/verifreg/src/types.rs AddrPairKey::new
    ensures r.first == first, r.second == second,
//@ end
/// frc46_token::token::TOKEN_PRECISION (external crate constant: 10^18)
pub const TOKEN_PRECISION: u64 = 1_000_000_000_000_000_000;
pub type AllocationID = u64;
pub type ClaimID = u64;
pub mod ext {
    pub mod datacap {
        use super::super::*;
//@ item actors/verifreg/src/ext.rs MintParams
//@ item actors/verifreg/src/ext.rs DestroyParams
    }
    pub mod account {
        use super::super::*;
//@ item actors/verifreg/src/ext.rs AuthenticateMessageParams
    }
}
use ext::datacap::DestroyParams;
//@ include prelude/verifreg_admin_assumed.rs

// ======================= specification vocabulary =======================
pub open spec fn verifiers_of(s: State) -> Map<Address, BigIntDe> { map2_decode::<Address, BigIntDe>(s.verifiers) }
pub open spec fn proposals_of(s: State) -> Map<AddrPairKey, RemoveDataCapProposalID> { map2_decode::<AddrPairKey, RemoveDataCapProposalID>(s.remove_data_cap_proposal_ids) }
pub open spec fn idaddr(id: ActorID) -> Address { Address { id, proto: 0 } }
/// the verifier table `v1` is `v0` with exactly the entry `who ↦ cap` written (every other entry as it was)
pub open spec fn verifiers_put(v0: Map<Address, BigIntDe>, v1: Map<Address, BigIntDe>, who: Address, cap: int) -> bool {
    &&& v1.dom() == v0.dom().insert(who)
    &&& v1[who].0@ == cap
    &&& forall|k: Address| k != who && v0.dom().contains(k) ==> #[trigger] v1[k] == v0[k]
}
/// every field of the state but the verifier table
pub open spec fn same_but_verifiers(s0: State, s1: State) -> bool {
    s1.root_key == s0.root_key && s1.remove_data_cap_proposal_ids == s0.remove_data_cap_proposal_ids && s1.allocations == s0.allocations
        && s1.next_allocation_id == s0.next_allocation_id && s1.claims == s0.claims
}

// ======================= helpers =======================
//@ fn runtime/src/builtin/shared.rs resolve_to_actor_id
    requires !old(rt).in_tx@,
    ensures
        rt_frame(old(rt), final(rt)),
        final(rt).state_id == old(rt).state_id, final(rt).balance == old(rt).balance,
        // at most one zero-value plain send (account creation)
        old(rt).sends@.len() <= final(rt).sends@.len() <= old(rt).sends@.len() + 1,
        final(rt).sends@.len() == old(rt).sends@.len() + 1 ==> rt_pushed(old(rt), final(rt))
            && final(rt).sends@.last().method == METHOD_SEND && final(rt).sends@.last().value == 0,
        final(rt).sends@.len() == old(rt).sends@.len() ==> final(rt).sends == old(rt).sends && final(rt).balance == old(rt).balance,
        // the id returned is what the address resolves to now
        r.is_ok() ==> rt_resolve(*address, final(rt).sends@.len()) == Some(r->Ok_0),
//@ end

//@ fn actors/verifreg/src/state.rs State::load_verifiers
    ensures vx_store_ok() ==> r.is_ok(), r.is_ok() ==> r->Ok_0.view() == verifiers_of(*self),
//@ end
//@ fn actors/verifreg/src/state.rs State::put_verifier
    ensures
        r.is_ok() ==> verifiers_put(verifiers_of(*old(self)), verifiers_of(*final(self)), *verifier, cap@),
        r.is_err() ==> *final(self) == *old(self),
        vx_store_ok() ==> r.is_ok(),
        same_but_verifiers(*old(self), *final(self)),
//@ end
//@ fn actors/verifreg/src/state.rs State::remove_verifier
    ensures
        // exactly that entry leaves; removing a non-verifier fails
        r.is_ok() ==> verifiers_of(*old(self)).dom().contains(*verifier) && verifiers_of(*final(self)) == verifiers_of(*old(self)).remove(*verifier),
        r.is_err() ==> *final(self) == *old(self),
        !verifiers_of(*old(self)).dom().contains(*verifier) ==> r.is_err(),
        vx_store_ok() && verifiers_of(*old(self)).dom().contains(*verifier) ==> r.is_ok(),
        same_but_verifiers(*old(self), *final(self)),
//@ end
//@ fn actors/verifreg/src/state.rs State::new
    ensures
        r.is_ok() ==> r->Ok_0.root_key == root_key && r->Ok_0.next_allocation_id == 1
            && verifiers_of(r->Ok_0) == Map::<Address, BigIntDe>::empty()
            && r->Ok_0.remove_data_cap_proposal_ids == r->Ok_0.verifiers
            && r->Ok_0.claims == r->Ok_0.allocations
            && mapmap_decode::<(), ActorID, u64>(r->Ok_0.allocations) == Map::<(ActorID, u64), ()>::empty(),
//@ end

//@ fn actors/verifreg/src/lib.rs is_verifier rt=ref
    ensures
        vx_store_ok() ==> r.is_ok(),
        r.is_ok() ==> r->Ok_0 == verifiers_of(*st).dom().contains(address),
//@ end

//@ fn actors/verifreg/src/lib.rs datacap_to_tokens
    ensures r@ == amount@ * 1_000_000_000_000_000_000,
//@ end
//@ fn actors/verifreg/src/lib.rs tokens_to_datacap
    ensures r@ == trunc_div(amount@, 1_000_000_000_000_000_000),
//@ end

/// send record `s` is the read-only Balance query to the DataCap token actor about `owner`, and it was answered
pub open spec fn balance_query(s: SendRec, owner: Address) -> bool {
    &&& s.to == DATACAP_TOKEN_ACTOR_ADDR && s.method == datacap_balance_method_spec() && s.read_only && s.value == 0 && s.ok
    &&& s.params == Some(IpldBlock { h: cbor_hash(owner) })
    &&& deser_ok::<TokenAmount>(s.ret)
}
/// the answer, in whole units of DataCap (as `balance` converts it)
pub open spec fn balance_answer(s: SendRec) -> int { trunc_div(deser_spec::<TokenAmount>(s.ret)@, 1_000_000_000_000_000_000) }

//@ fn actors/verifreg/src/lib.rs balance sub0="ext :: datacap :: Method :: Balance as u64=>datacap_balance_method()"
    requires !old(rt).in_tx@,
    ensures
        rt_frame(old(rt), final(rt)),
        // a read-only query: this actor's state and balance are as before, whatever the token actor does
        final(rt).state_id == old(rt).state_id, final(rt).balance == old(rt).balance,
        final(rt).sends == old(rt).sends || rt_pushed(old(rt), final(rt)),
        r.is_ok() ==> rt_pushed(old(rt), final(rt)) && balance_query(final(rt).sends@.last(), *owner) && r->Ok_0@ == balance_answer(final(rt).sends@.last()),
//@ end

//@ fn actors/verifreg/src/lib.rs destroy sub0="ext :: datacap :: Method :: Destroy as u64=>datacap_destroy_method()"
    requires !old(rt).in_tx@,
    ensures
        rt_frame(old(rt), final(rt)), final(rt).sends@.len() <= old(rt).sends@.len() + 1,
        amount@ == 0 ==> r.is_ok() && *final(rt) == *old(rt),
        amount@ != 0 && r.is_ok() ==> rt_pushed(old(rt), final(rt)) && final(rt).sends@.last().ok
            && final(rt).sends@.last().to == DATACAP_TOKEN_ACTOR_ADDR && final(rt).sends@.last().method == datacap_destroy_method_spec()
            && exists|p: DestroyParams| final(rt).sends@.last().params == Some(IpldBlock { h: #[trigger] cbor_hash(p) }) && p.owner == *owner && p.amount@ == amount@ * 1_000_000_000_000_000_000,
//@ end

// ======================= constructor =======================
//@ fn actors/verifreg/src/lib.rs Actor::constructor free
    requires !old(rt).in_tx@,
    ensures
        /*C11*/ r.is_ok() ==> old(rt).msg.caller == SYSTEM_ACTOR_ADDR && final(rt).validated@.is_some(),
        /*C11*/ old(rt).msg.caller != SYSTEM_ACTOR_ADDR ==> r.is_err() && *final(rt) == *old(rt),
        // the root key is resolved to an ID address and stored; every table starts empty
        r.is_ok() ==> ({
            let s = rt_state::<State>(final(rt).state_id@);
            &&& rt_resolve(params.root_key, old(rt).sends@.len()).is_some()
            &&& s.root_key == idaddr(rt_resolve(params.root_key, old(rt).sends@.len())->Some_0)
            &&& verifiers_of(s) == Map::<Address, BigIntDe>::empty()
            &&& s.remove_data_cap_proposal_ids == s.verifiers && s.claims == s.allocations
            &&& mapmap_decode::<(), ActorID, u64>(s.allocations) == Map::<(ActorID, u64), ()>::empty()
            &&& s.next_allocation_id == 1
        }),
        r.is_err() ==> final(rt).state_id == old(rt).state_id,
        final(rt).sends == old(rt).sends, final(rt).tx_log == old(rt).tx_log, final(rt).balance == old(rt).balance,
//@ end

// ======================= add_verifier =======================
//@ fn actors/verifreg/src/lib.rs Actor::add_verifier closure=0 as=av_tx0 params="st: &mut State, rt: &mut Rt, verifier_addr: Address, params: &AddVerifierParams" retty="Result<(), ActorError>"
    ensures
        r.is_ok() ==> verifiers_put(verifiers_of(*old(st)), verifiers_of(*final(st)), verifier_addr, params.allowance@),
        r.is_err() ==> *final(st) == *old(st),
        vx_store_ok() ==> r.is_ok(),
        same_but_verifiers(*old(st), *final(st)),
        *final(rt) == *old(rt),
//@ end

//@ fn actors/verifreg/src/lib.rs Actor::add_verifier free tx0="State;av_tx0;&mut __vx_st, rt, verifier_addr, &params"
    requires
        !old(rt).in_tx@, old(rt).tx_log@.len() == 0,
    ensures
        /*C11*/ r.is_ok() ==> old(rt).msg.caller == rt_state::<State>(old(rt).state_id@).root_key && final(rt).validated@.is_some(),
        // a call by anyone but the root key is rejected and changes nothing
        /*C11*/ old(rt).msg.caller != rt_state::<State>(old(rt).state_id@).root_key ==> r.is_err()
            && final(rt).state_id == old(rt).state_id && final(rt).tx_log == old(rt).tx_log && final(rt).balance == old(rt).balance,
        r.is_ok() ==> final(rt).tx_log@.len() == 1 && ({
            let s0 = rt_state::<State>(old(rt).state_id@);
            let s1 = rt_state::<State>(final(rt).tx_log@[0]);
            let n = final(rt).sends@.len();
            // the verifier named, as an ID address (resolved before the balance query, the last message sent)
            let v = idaddr(rt_resolve(params.address, (n - 1) as nat)->Some_0);
            &&& n >= 1 && rt_resolve(params.address, (n - 1) as nat).is_some()
            // not the root key
            &&& v != s0.root_key
            // not a client: it holds no DataCap tokens (the token actor was asked and said so)
            &&& balance_query(final(rt).sends@.last(), v) && balance_answer(final(rt).sends@.last()) <= 0
            // at least the minimum allocation size
            &&& params.allowance@ >= rt_policy().minimum_verified_allocation_size@
            // the verifier table gets exactly that entry; nothing else changes
            &&& verifiers_put(verifiers_of(s0), verifiers_of(s1), v, params.allowance@)
            &&& same_but_verifiers(s0, s1)
        }),
        r.is_err() ==> final(rt).tx_log@.len() <= 1,
//@ end

// ======================= remove_verifier =======================
//@ fn actors/verifreg/src/lib.rs Actor::remove_verifier closure=0 as=rv_tx0 params="st: &mut State, rt: &mut Rt, verifier_addr: Address" retty="Result<(), ActorError>"
    ensures
        /*C11*/ r.is_ok() ==> old(rt).msg.caller == old(st).root_key && final(rt).validated@.is_some(),
        /*C11*/ old(rt).msg.caller != old(st).root_key ==> r.is_err(),
        r.is_ok() ==> verifiers_of(*old(st)).dom().contains(verifier_addr) && verifiers_of(*final(st)) == verifiers_of(*old(st)).remove(verifier_addr),
        !verifiers_of(*old(st)).dom().contains(verifier_addr) ==> r.is_err(),
        // the designated caller's call is accepted
        vx_store_ok() && old(rt).validated@.is_none() && old(rt).msg.caller == old(st).root_key && verifiers_of(*old(st)).dom().contains(verifier_addr) ==> r.is_ok(),
        r.is_err() ==> *final(st) == *old(st),
        same_but_verifiers(*old(st), *final(st)),
        final(rt).sends == old(rt).sends, final(rt).msg == old(rt).msg, final(rt).in_tx == old(rt).in_tx, final(rt).state_id == old(rt).state_id,
        final(rt).tx_log == old(rt).tx_log, final(rt).balance == old(rt).balance, final(rt).read_only == old(rt).read_only,
//@ end

//@ fn actors/verifreg/src/lib.rs Actor::remove_verifier free tx0="State;rv_tx0;&mut __vx_st, rt, verifier_addr"
    requires
        !old(rt).in_tx@, old(rt).tx_log@.len() == 0,
    ensures
        /*C11*/ r.is_ok() ==> old(rt).msg.caller == rt_state::<State>(old(rt).state_id@).root_key && final(rt).validated@.is_some(),
        /*C11*/ old(rt).msg.caller != rt_state::<State>(old(rt).state_id@).root_key ==> r.is_err()
            && final(rt).state_id == old(rt).state_id && final(rt).tx_log == old(rt).tx_log && final(rt).balance == old(rt).balance,
        r.is_ok() ==> final(rt).tx_log@.len() == 1 && ({
            let s0 = rt_state::<State>(old(rt).state_id@);
            let s1 = rt_state::<State>(final(rt).tx_log@[0]);
            let n = final(rt).sends@.len();
            let v = idaddr(rt_resolve(params.verifier, n)->Some_0);
            &&& rt_resolve(params.verifier, n).is_some()
            // exactly that entry leaves (it was there); nothing else changes
            &&& verifiers_of(s0).dom().contains(v)
            &&& verifiers_of(s1) == verifiers_of(s0).remove(v)
            &&& same_but_verifiers(s0, s1)
        }),
        r.is_err() ==> final(rt).tx_log@.len() <= 1,
//@ end

// ======================= remove_verified_client_data_cap =======================
pub open spec fn pair_key(verifier: Address, client: Address) -> AddrPairKey { AddrPairKey { first: verifier, second: client } }
/// the removal-proposal id the registry currently expects from `verifier` for `client` (0 when none was used yet)
pub open spec fn prop_id(m: Map<AddrPairKey, RemoveDataCapProposalID>, verifier: Address, client: Address) -> u64 {
    if m.dom().contains(pair_key(verifier, client)) { m[pair_key(verifier, client)].id } else { 0 }
}
/// no stored proposal id is at the top of the u64 range (2^64 - 1 removals by one verifier for one client never happen; `id + 1` would overflow)
pub open spec fn prop_ids_bounded(m: Map<AddrPairKey, RemoveDataCapProposalID>) -> bool {
    forall|k: AddrPairKey| m.dom().contains(k) ==> (#[trigger] m[k]).id < u64::MAX
}
/// the proposal table after `verifier`'s id for `client` was used once
pub open spec fn prop_used(m: Map<AddrPairKey, RemoveDataCapProposalID>, verifier: Address, client: Address) -> Map<AddrPairKey, RemoveDataCapProposalID> {
    m.insert(pair_key(verifier, client), RemoveDataCapProposalID { id: (prop_id(m, verifier, client) + 1) as u64 })
}

//@ fn actors/verifreg/src/lib.rs use_proposal_id
    requires prop_id(old(proposal_ids).view(), verifier, client) < u64::MAX,
    ensures
        // the id handed out is the stored one (0 if none) and the stored one is incremented: the same signed proposal cannot be used again
        r.is_ok() ==> r->Ok_0.id == prop_id(old(proposal_ids).view(), verifier, client)
            && final(proposal_ids).view() == prop_used(old(proposal_ids).view(), verifier, client),
        r.is_err() ==> final(proposal_ids).view() == old(proposal_ids).view(),
        vx_store_ok() ==> r.is_ok(),
//@ end

/// send record `s` is the read-only AuthenticateMessage call to `verifier` over the removal proposal (client, amount, id) — domain
/// separation tag followed by the proposal's CBOR — and the signature `sig`, and the verifier's account answered `true`
pub open spec fn removal_auth(s: SendRec, verifier: Address, sig: Seq<u8>, client: Address, amount: int, id: u64) -> bool {
    &&& s.to == verifier && s.method == authenticate_message_method_spec() && s.read_only && s.value == 0 && s.ok
    &&& deser_ok::<bool>(s.ret) && deser_spec::<bool>(s.ret)
    &&& s.params == Some(IpldBlock { h: auth_params_hash(sig, sig_domain_spec() + raw_seq(RawBytes { h: removal_proposal_hash(client, amount, id) })) })
}

//@ fn actors/verifreg/src/lib.rs remove_data_cap_request_is_valid sub0="ext :: account :: AUTHENTICATE_MESSAGE_METHOD=>authenticate_message_method()" sub1="[SIGNATURE_DOMAIN_SEPARATION_REMOVE_DATA_CAP , b . bytes ()] . concat ()=>vx_concat2(vx_sig_domain(), b.bytes())" sub2="request . signature . bytes . clone ()=>vx_clone_bytes(&request.signature.bytes)"
    requires !old(rt).in_tx@,
    ensures
        rt_frame(old(rt), final(rt)),
        // a read-only query: this actor's state and balance are as before, whatever the verifier's account does
        final(rt).state_id == old(rt).state_id, final(rt).balance == old(rt).balance,
        final(rt).sends == old(rt).sends || rt_pushed(old(rt), final(rt)),
        r.is_ok() ==> rt_pushed(old(rt), final(rt))
            && removal_auth(final(rt).sends@.last(), request.verifier, request.signature.bytes@, client, to_remove@, id.id),
//@ entry
        proof { axiom_auth_params_hash(); axiom_removal_proposal_hash(); }
//@ end

//@ fn actors/verifreg/src/lib.rs Actor::remove_verified_client_data_cap closure=0 as=rdc_tx0 params="st: &mut State, rt: &mut Rt, params: &RemoveDataCapParams, client: Address, verifier_1: Address, verifier_2: Address" retty="Result<(RemoveDataCapProposalID, RemoveDataCapProposalID), ActorError>"
    requires
        verifier_1 != verifier_2,
        prop_ids_bounded(proposals_of(*old(st))),
    ensures
        /*C11*/ r.is_ok() ==> old(rt).msg.caller == old(st).root_key && final(rt).validated@.is_some(),
        /*C11*/ old(rt).msg.caller != old(st).root_key ==> r.is_err(),
        r.is_err() ==> *final(st) == *old(st),
        r.is_ok() ==> ({
            let p0 = proposals_of(*old(st));
            &&& params.verified_client_to_remove != VERIFIED_REGISTRY_ACTOR_ADDR
            // both signers are verifiers NOW
            &&& verifiers_of(*old(st)).dom().contains(verifier_1) && verifiers_of(*old(st)).dom().contains(verifier_2)
            // the ids to be signed are the stored ones; both are incremented
            &&& r->Ok_0.0.id == prop_id(p0, verifier_1, client) && r->Ok_0.1.id == prop_id(p0, verifier_2, client)
            &&& proposals_of(*final(st)) == prop_used(prop_used(p0, verifier_1, client), verifier_2, client)
        }),
        // nothing but the proposal-id table changes
        final(st).root_key == old(st).root_key && final(st).verifiers == old(st).verifiers && final(st).allocations == old(st).allocations
            && final(st).next_allocation_id == old(st).next_allocation_id && final(st).claims == old(st).claims,
        final(rt).sends == old(rt).sends, final(rt).msg == old(rt).msg, final(rt).in_tx == old(rt).in_tx, final(rt).state_id == old(rt).state_id,
        final(rt).tx_log == old(rt).tx_log, final(rt).balance == old(rt).balance, final(rt).read_only == old(rt).read_only,
//@ end

/// `a` resolved to actor `id` at some moment of the call (between `lo` and `hi` messages sent)
pub open spec fn resolved_during(a: Address, id: ActorID, lo: nat, hi: nat) -> bool { exists|k: nat| lo <= k <= hi && #[trigger] rt_resolve(a, k) == Some(id) }
/// send record `s` is a Destroy request to the DataCap token actor for exactly `amount` whole DataCap of `owner`, and it was carried out
pub open spec fn destroy_msg(s: SendRec, owner: Address, amount: int) -> bool {
    &&& s.ok && s.to == DATACAP_TOKEN_ACTOR_ADDR && s.method == datacap_destroy_method_spec()
    &&& exists|p: DestroyParams| s.params == Some(IpldBlock { h: #[trigger] cbor_hash(p) }) && p.owner == owner && p.amount@ == amount * 1_000_000_000_000_000_000
}
pub open spec fn min_int(a: int, b: int) -> int { if a <= b { a } else { b } }
/// (names the witnesses of the existential below: the two signing verifiers and the index of the first signature check)
pub open spec fn removal_witness(v1: Address, v2: Address, i: int) -> bool { true }
/// what a successful RemoveVerifiedClientDataCap did: `v1`, `v2` the two signing verifiers (ID addresses), `i` the index of the first signature check
pub open spec fn removal_done(to_remove: Address, amount: int, rq1: RemoveDataCapRequest, rq2: RemoveDataCapRequest, client: Address, removed: int, s0: State, s1: State, sends: Seq<SendRec>, n0: nat, v1: Address, v2: Address, i: int) -> bool {
    let n = sends.len();
    let p0 = proposals_of(s0);
    let burnt = min_int(balance_answer(sends[i + 2]), amount);
    // the client and the two signers, as the ID addresses their addresses resolved to during the call
    &&& client.proto == 0 && resolved_during(to_remove, client.id, n0, n)
    &&& v1.proto == 0 && resolved_during(rq1.verifier, v1.id, n0, n)
    &&& v2.proto == 0 && resolved_during(rq2.verifier, v2.id, n0, n)
    &&& to_remove != VERIFIED_REGISTRY_ACTOR_ADDR
    // TWO DISTINCT verifiers, each in the verifier table now
    &&& v1 != v2
    &&& verifiers_of(s0).dom().contains(v1) && verifiers_of(s0).dom().contains(v2)
    // each one's signature was checked (AuthenticateMessage to the address given, answered true) over the proposal
    // (client, amount requested, THAT verifier's current removal-proposal id for this client)
    &&& n0 <= i && i + 3 <= n
    &&& removal_auth(sends[i], rq1.verifier, rq1.signature.bytes@, client, amount, prop_id(p0, v1, client))
    &&& removal_auth(sends[i + 1], rq2.verifier, rq2.signature.bytes@, client, amount, prop_id(p0, v2, client))
    // both ids are incremented (so neither signature can be replayed); nothing else of the state changes
    &&& proposals_of(s1) == prop_used(prop_used(p0, v1, client), v2, client)
    &&& s1.root_key == s0.root_key && s1.verifiers == s0.verifiers && s1.allocations == s0.allocations
            && s1.next_allocation_id == s0.next_allocation_id && s1.claims == s0.claims
    // the amount destroyed is min(requested, the client's balance as the token actor reported it), by ONE Destroy request that was carried out
    &&& balance_query(sends[i + 2], client)
    &&& removed == burnt
    &&& (burnt != 0 ==> n == i + 4 && destroy_msg(sends[i + 3], client, burnt))
    &&& (burnt == 0 ==> n == i + 3)
}

//@ fn actors/verifreg/src/lib.rs Actor::remove_verified_client_data_cap free ret=res tx0="State;rdc_tx0;&mut __vx_st, rt, &params, client, verifier_1, verifier_2"
    requires
        !old(rt).in_tx@, old(rt).tx_log@.len() == 0,
        prop_ids_bounded(proposals_of(rt_state::<State>(old(rt).state_id@))),
    ensures
        /*C11*/ res.is_ok() ==> old(rt).msg.caller == rt_state::<State>(old(rt).state_id@).root_key && final(rt).validated@.is_some(),
        // a call by anyone but the root key is rejected and changes nothing
        /*C11*/ old(rt).msg.caller != rt_state::<State>(old(rt).state_id@).root_key ==> res.is_err()
            && final(rt).state_id == old(rt).state_id && final(rt).tx_log == old(rt).tx_log && final(rt).balance == old(rt).balance,
        res.is_ok() ==> final(rt).tx_log@.len() == 1 && exists|v1: Address, v2: Address, i: int|
            #[trigger] removal_witness(v1, v2, i) && removal_done(params.verified_client_to_remove, params.data_cap_amount_to_remove@, params.verifier_request_1, params.verifier_request_2, res->Ok_0.verified_client, res->Ok_0.data_cap_removed@, rt_state::<State>(old(rt).state_id@), rt_state::<State>(final(rt).tx_log@[0]), final(rt).sends@, old(rt).sends@.len(), v1, v2, i),
        res.is_err() ==> final(rt).tx_log@.len() <= 1,
//@ entry
        let ghost params0 = params;
        let ghost n0 = rt.sends@.len();
        let ghost s0 = rt_state::<State>(rt.state_id@);
//@ after "let client = Address :: new_id (client) ;"
        let ghost k0 = rt.sends@.len();
//@ after "let verifier_1 = Address :: new_id (verifier_1) ;"
        let ghost k1 = rt.sends@.len();
//@ after "let verifier_2 = Address :: new_id (verifier_2) ;"
        let ghost k2 = rt.sends@.len();
//@ before "RemoveDataCapReturn"
        proof {
            let n = rt.sends@.len() as int;
            assert(n0 <= k0 <= k1 <= k2 <= n);
            assert(rt_resolve(params0.verified_client_to_remove, k0) == Some(client.id));
            assert(rt_resolve(params0.verifier_request_1.verifier, k1) == Some(verifier_1.id));
            assert(rt_resolve(params0.verifier_request_2.verifier, k2) == Some(verifier_2.id));
            assert(removal_witness(verifier_1, verifier_2, k2 as int));
            assert(removal_done(params0.verified_client_to_remove, params0.data_cap_amount_to_remove@, params0.verifier_request_1, params0.verifier_request_2, client, burnt@, s0, rt_state::<State>(rt.tx_log@[0]), rt.sends@, n0, verifier_1, verifier_2, k2 as int));
        }
//@ end

} // verus!
fn main() {}
