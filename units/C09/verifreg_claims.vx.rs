// unit: verified registry — claiming allocations: each allocation is spent once, by its provider, and exactly its size is burnt (C09, C10)
//@ include prelude/core.rs
//@ include prelude/ipld.rs
//@ include prelude/rt.rs
//@ include prelude/singletons.rs
//@ include prelude/policy.rs
//@ include prelude/batch.rs
//@ include prelude/verifreg.rs
macro_rules! info { ($($t:tt)*) => { () } }
verus! {
#[derive(Clone, Copy, PartialEq, Eq, Structural)]
pub struct PaddedPieceSize(pub u64);
pub type AllocationID = u64;
pub type ClaimID = u64;
pub struct BigIntDe(pub BigInt);
//@ item actors/verifreg/src/state.rs State
//@ item actors/verifreg/src/state.rs Allocation attr="#[derive(Clone, Copy, PartialEq, Eq, Structural)]"
//@ item actors/verifreg/src/state.rs Claim attr="#[derive(Clone, Copy, PartialEq, Eq, Structural)]"
//@ item actors/verifreg/src/types.rs AllocationClaim
//@ item actors/verifreg/src/types.rs SectorAllocationClaims
//@ item actors/verifreg/src/types.rs ClaimAllocationsParams
//@ item actors/verifreg/src/types.rs SectorClaimSummary
//@ item actors/verifreg/src/types.rs ClaimAllocationsReturn
pub mod ext { pub mod datacap {
    use super::super::*;
//@ item actors/verifreg/src/ext.rs DestroyParams
} }
/// frc46_token::token::TOKEN_PRECISION (external crate constant: 10^18)
pub const TOKEN_PRECISION: u64 = 1_000_000_000_000_000_000;
//@ include prelude/verifreg_claims_assumed.rs

pub open spec fn allocs_of(s: State) -> Map<(ActorID, AllocationID), Allocation> { mapmap_decode::<Allocation, ActorID, AllocationID>(s.allocations) }
pub open spec fn vclaims_of(s: State) -> Map<(ActorID, ClaimID), Claim> { mapmap_decode::<Claim, ActorID, ClaimID>(s.claims) }

//@ fn actors/verifreg/src/state.rs State::load_allocs
    ensures vx_store_ok() ==> r.is_ok(), r.is_ok() ==> r->Ok_0.view() == allocs_of(*self),
//@ end
//@ fn actors/verifreg/src/state.rs State::save_allocs
    ensures
        final(allocs).view() == old(allocs).view(),
        vx_store_ok() ==> r.is_ok(),
        r.is_ok() ==> allocs_of(*final(self)) == old(allocs).view() && *final(self) == (State { allocations: final(self).allocations, ..*old(self) }),
        r.is_err() ==> *final(self) == *old(self),
//@ end
//@ fn actors/verifreg/src/state.rs State::load_claims
    ensures vx_store_ok() ==> r.is_ok(), r.is_ok() ==> r->Ok_0.view() == vclaims_of(*self),
//@ end
//@ fn actors/verifreg/src/state.rs State::save_claims
    ensures
        final(claims).view() == old(claims).view(),
        vx_store_ok() ==> r.is_ok(),
        r.is_ok() ==> vclaims_of(*final(self)) == old(claims).view() && *final(self) == (State { claims: final(self).claims, ..*old(self) }),
        r.is_err() ==> *final(self) == *old(self),
//@ end
//@ fn actors/verifreg/src/state.rs get_allocation
    ensures
        final(allocations).view() == old(allocations).view(),
        r.is_ok() ==> (r->Ok_0.is_some() <==> old(allocations).view().dom().contains((client, id))),
        r.is_ok() && r->Ok_0.is_some() ==> *(r->Ok_0->Some_0) == old(allocations).view()[(client, id)],
//@ end
//@ fn actors/verifreg/src/lib.rs can_claim_alloc
    requires
        0 <= curr_epoch, 0 <= sector_expiry,
    ensures
        r == claimable(*claim_alloc, provider, *alloc, curr_epoch, sector_expiry),
//@ end
/// "claimed ... by the named provider for the matching data within its terms"
pub open spec fn claimable(c: AllocationClaim, provider: ActorID, alloc: Allocation, epoch: ChainEpoch, expiry: ChainEpoch) -> bool {
    provider == alloc.provider && c.client == alloc.client && c.data == alloc.data && c.size == alloc.size && epoch <= alloc.expiration
        && alloc.term_min <= expiry - epoch <= alloc.term_max
}

pub type AKey = (ActorID, AllocationID);
/// total size of the allocations named by `ks` in table `a`
pub open spec fn sum_sizes(a: Map<AKey, Allocation>, ks: Seq<AKey>) -> int
    decreases ks.len()
{ if ks.len() == 0 { 0 } else { sum_sizes(a, ks.drop_last()) + a[ks.last()].size.0 } }
/// the claim written for allocation `al` when it is claimed in sector `sec` at `epoch`
pub open spec fn claim_of(al: Allocation, provider: ActorID, epoch: ChainEpoch, sector: SectorNumber) -> Claim {
    Claim { provider, client: al.client, data: al.data, size: al.size, term_min: al.term_min, term_max: al.term_max, term_start: epoch, sector }
}
/// table `a1` is `a0` without exactly the keys `removed` (all of which were present, each once)
pub open spec fn minus(a0: Map<AKey, Allocation>, a1: Map<AKey, Allocation>, removed: Seq<AKey>) -> bool {
    &&& removed.no_duplicates()
    &&& forall|i: int| 0 <= i < removed.len() ==> a0.dom().contains(#[trigger] removed[i])
    &&& forall|k: AKey| #[trigger] a1.dom().contains(k) <==> a0.dom().contains(k) && !removed.contains(k)
    &&& forall|k: AKey| a1.dom().contains(k) ==> #[trigger] a1[k] == a0[k]
}
/// every allocation spent so far was claimable by this provider in one of the first `upto` requested sectors, and its claim is recorded
pub open spec fn spent_ok(removed: Seq<AKey>, a0: Map<AKey, Allocation>, c0: Map<(ActorID, ClaimID), Claim>, c: Map<(ActorID, ClaimID), Claim>,
                          provider: ActorID, epoch: ChainEpoch, secs: Seq<SectorAllocationClaims>, upto: int) -> bool {
    forall|i: int| 0 <= i < removed.len() ==> {
        let k = #[trigger] removed[i];
        let al = a0[k];
        &&& al.client == k.0 && al.provider == provider && epoch <= al.expiration
        &&& c.dom().contains((provider, k.1)) && !c0.dom().contains((provider, k.1))
        &&& exists|j: int| 0 <= j < upto && j < secs.len() && al.term_min <= (#[trigger] secs[j]).expiry - epoch <= al.term_max
                && c[(provider, k.1)] == claim_of(al, provider, epoch, secs[j].sector)
    }
}
pub open spec fn claims_ext(c0: Map<(ActorID, ClaimID), Claim>, c: Map<(ActorID, ClaimID), Claim>, provider: ActorID, removed: Seq<AKey>) -> bool {
    &&& forall|k: (ActorID, ClaimID)| #[trigger] c0.dom().contains(k) ==> c.dom().contains(k) && c[k] == c0[k]
    &&& forall|k: (ActorID, ClaimID)| #[trigger] c.dom().contains(k) && !c0.dom().contains(k) ==> k.0 == provider && exists|i: int| 0 <= i < removed.len() && (#[trigger] removed[i]).1 == k.1
}


pub proof fn lemma_claim_step(a0: Map<AKey, Allocation>, a_before: Map<AKey, Allocation>, a_after: Map<AKey, Allocation>,
        c0: Map<(ActorID, ClaimID), Claim>, c_before: Map<(ActorID, ClaimID), Claim>, c_after: Map<(ActorID, ClaimID), Claim>,
        removed: Seq<AKey>, k: AKey, provider: ActorID, epoch: ChainEpoch, secs: Seq<SectorAllocationClaims>, upto: int, j: int, new_claim: Claim)
    requires
        minus(a0, a_before, removed), spent_ok(removed, a0, c0, c_before, provider, epoch, secs, upto), claims_ext(c0, c_before, provider, removed),
        a_before.dom().contains(k), !c_before.dom().contains((provider, k.1)),
        c_after == c_before.insert((provider, k.1), new_claim), a_after == a_before.remove(k),
        0 <= j < upto, j < secs.len(),
        a0[k].client == k.0 && a0[k].provider == provider && epoch <= a0[k].expiration && a0[k].term_min <= secs[j].expiry - epoch <= a0[k].term_max,
        new_claim == claim_of(a0[k], provider, epoch, secs[j].sector),
    ensures
        minus(a0, a_after, removed.push(k)), spent_ok(removed.push(k), a0, c0, c_after, provider, epoch, secs, upto),
        claims_ext(c0, c_after, provider, removed.push(k)),
        sum_sizes(a0, removed.push(k)) == sum_sizes(a0, removed) + a0[k].size.0,
{
    let r2 = removed.push(k);
    assert(!removed.contains(k));
    assert(r2.drop_last() == removed);
    assert(r2.no_duplicates()) by {
        assert forall|x: int, y: int| 0 <= x < r2.len() && 0 <= y < r2.len() && x != y implies r2[x] != r2[y] by {
            if x == removed.len() { assert(removed.contains(removed[y]) ==> true); if r2[y] == k { assert(removed[y] == k); assert(removed.contains(k)); } }
            else if y == removed.len() { if r2[x] == k { assert(removed[x] == k); assert(removed.contains(k)); } }
        }
    }
    assert forall|i: int| 0 <= i < r2.len() implies a0.dom().contains(#[trigger] r2[i]) by { if i < removed.len() { assert(r2[i] == removed[i]); } }
    assert forall|q: AKey| #[trigger] a_after.dom().contains(q) <==> a0.dom().contains(q) && !r2.contains(q) by {
        if r2.contains(q) { let i = choose|i: int| 0 <= i < r2.len() && r2[i] == q; if i < removed.len() { assert(removed[i] == q); assert(removed.contains(q)); } }
        if removed.contains(q) { let i = choose|i: int| 0 <= i < removed.len() && removed[i] == q; assert(r2[i] == q); }
        if q == k { assert(r2[removed.len() as int] == k); }
    }
    // no earlier spent allocation has this id: its claim would exist already
    assert forall|i: int| 0 <= i < removed.len() implies (#[trigger] removed[i]).1 != k.1 by {
        if removed[i].1 == k.1 { assert(c_before.dom().contains((provider, removed[i].1))); }
    }
    assert forall|i: int| 0 <= i < r2.len() implies ({
        let kk = #[trigger] r2[i];
        let al = a0[kk];
        &&& al.client == kk.0 && al.provider == provider && epoch <= al.expiration
        &&& c_after.dom().contains((provider, kk.1)) && !c0.dom().contains((provider, kk.1))
        &&& exists|jj: int| 0 <= jj < upto && jj < secs.len() && al.term_min <= (#[trigger] secs[jj]).expiry - epoch <= al.term_max
                && c_after[(provider, kk.1)] == claim_of(al, provider, epoch, secs[jj].sector)
    }) by {
        if i < removed.len() {
            assert(r2[i] == removed[i]);
            let kk = removed[i];
            let jj = choose|jj: int| 0 <= jj < upto && jj < secs.len() && a0[kk].term_min <= (#[trigger] secs[jj]).expiry - epoch <= a0[kk].term_max
                && c_before[(provider, kk.1)] == claim_of(a0[kk], provider, epoch, secs[jj].sector);
            assert(kk.1 != k.1);
            assert(c_after[(provider, kk.1)] == c_before[(provider, kk.1)]);
            assert(secs[jj].expiry == secs[jj].expiry);
        } else {
            assert(r2[i] == k);
            if c0.dom().contains((provider, k.1)) { assert(c_before.dom().contains((provider, k.1))); }
            assert(secs[j].expiry == secs[j].expiry);
        }
    }
    assert forall|q: (ActorID, ClaimID)| #[trigger] c0.dom().contains(q) implies c_after.dom().contains(q) && c_after[q] == c0[q] by {
        assert(c_before.dom().contains(q));
    }
    assert forall|q: (ActorID, ClaimID)| #[trigger] c_after.dom().contains(q) && !c0.dom().contains(q) implies q.0 == provider && exists|i: int| 0 <= i < r2.len() && (#[trigger] r2[i]).1 == q.1 by {
        if q == (provider, k.1) { assert(r2[removed.len() as int].1 == q.1); }
        else {
            assert(c_before.dom().contains(q));
            let i = choose|i: int| 0 <= i < removed.len() && (#[trigger] removed[i]).1 == q.1;
            assert(r2[i].1 == q.1);
        }
    }
}

//@ fn actors/verifreg/src/lib.rs Actor::claim_allocations closure=0 as=claim_tx0 params="st: &mut State, rt: &mut Rt, params: &ClaimAllocationsParams, provider: ActorID, batch_gen: &mut BatchReturnGen, sector_results: &mut Vec<SectorClaimSummary>, total_claimed_space: &mut DataCap" retty="Result<(), ActorError>" derefs=batch_gen,sector_results,total_claimed_space r19=0,1 sub0="emit :: claim=>vx_emit_claim" sub1="state :: get_allocation=>get_allocation"
    requires
        old(rt).epoch >= 0,
        forall|j: int| 0 <= j < params.sectors@.len() ==> (#[trigger] params.sectors@[j]).expiry >= 0,
        old(batch_gen).codes().len() == 0, old(batch_gen).expect() == params.sectors@.len(),
    ensures
        *final(rt) == (Rt { events: final(rt).events, ..*old(rt) }),
        final(batch_gen).expect() == old(batch_gen).expect(),
        r.is_ok() ==> final(batch_gen).codes().len() == params.sectors@.len(),
        r.is_ok() ==> *final(st) == (State { allocations: final(st).allocations, claims: final(st).claims, ..*old(st) }),
        r.is_ok() ==> exists|removed: Seq<AKey>| #![trigger minus(allocs_of(*old(st)), allocs_of(*final(st)), removed)] {
            let a0 = allocs_of(*old(st));
            let a1 = allocs_of(*final(st));
            let c0 = vclaims_of(*old(st));
            let c1 = vclaims_of(*final(st));
            // "each allocation ends ... claimed once by the named provider for the matching data within its terms": the allocations that
            // left the table are exactly `removed` (each was present, each once); nothing else in the table changed
            &&& minus(a0, a1, removed)
            // each of them was claimable by THIS provider now, in a requested sector, and the claim written for it carries its data
            &&& spent_ok(removed, a0, c0, c1, provider, old(rt).epoch, params.sectors@, params.sectors@.len() as int)
            // existing claims are untouched; every new claim consumed an allocation
            &&& claims_ext(c0, c1, provider, removed)
            // "(its tokens burnt)": the amount handed to the burn is exactly the total size of the allocations spent
            &&& final(total_claimed_space)@ == old(total_claimed_space)@ + sum_sizes(a0, removed)
        },
//@ entry
        let ghost mut removed: Seq<AKey> = Seq::empty();
        let ghost mut a_mid: Map<AKey, Allocation> = Map::empty();
        let ghost mut removed_mid: Seq<AKey> = Seq::empty();
        let ghost mut snc: Seq<(ClaimID, Claim)> = Seq::empty();
//@ loop 0
                invariant
                    __vx_i0 <= __vx_v0.len(), __vx_v0@ == params.sectors@,
                    *st == *old(st), *rt == (Rt { events: rt.events, ..*old(rt) }), rt.epoch >= 0,
                    forall|j: int| 0 <= j < params.sectors@.len() ==> (#[trigger] params.sectors@[j]).expiry >= 0,
                    batch_gen.codes().len() == __vx_i0, batch_gen.expect() == params.sectors@.len(),
                    minus(allocs_of(*st), allocs.view(), removed),
                    spent_ok(removed, allocs_of(*st), vclaims_of(*st), claims.view(), provider, rt.epoch, params.sectors@, __vx_i0 as int),
                    claims_ext(vclaims_of(*st), claims.view(), provider, removed),
                    total_claimed_space@ == old(total_claimed_space)@ + sum_sizes(allocs_of(*st), removed),
                decreases __vx_v0.len() - __vx_i0,
//@ after "let mut sector_new_claims"
                proof { a_mid = allocs.view(); removed_mid = removed; }
//@ loop 1
                    invariant
                        __vx_i1 <= __vx_v1.len(), __vx_v1@ == sector.claims@, 0 < __vx_i0 <= __vx_v0.len(), *sector == params.sectors@[__vx_i0 - 1],
                        allocs.view() == a_mid, batch_gen.codes().len() == __vx_i0 - 1, batch_gen.expect() == params.sectors@.len(),
                        *rt == (Rt { events: rt.events, ..*old(rt) }), rt.epoch >= 0, sector.expiry >= 0,
                        forall|q: int| 0 <= q < sector_new_claims@.len() ==> {
                            let e = #[trigger] sector_new_claims@[q];
                            let k: AKey = (e.1.client, e.0);
                            a_mid.dom().contains(k) && a_mid[k].client == k.0 && a_mid[k].provider == provider && rt.epoch <= a_mid[k].expiration
                                && a_mid[k].term_min <= sector.expiry - rt.epoch <= a_mid[k].term_max && e.1 == claim_of(a_mid[k], provider, rt.epoch, sector.sector)
                        },
                    decreases __vx_v1.len() - __vx_i1,
//@ after "let mut sector_claimed_space"
                proof { snc = sector_new_claims@; }
//@ loop 2 iter=it2
                    invariant
                        it2.seq() == snc, it2.index@ <= it2.seq().len(), old(batch_gen).expect() == params.sectors@.len(),
                        0 < __vx_i0 <= __vx_v0.len(), __vx_v0@ == params.sectors@, *sector == params.sectors@[__vx_i0 - 1], sector.expiry >= 0,
                        *st == *old(st), *rt == (Rt { events: rt.events, ..*old(rt) }), rt.epoch >= 0,
                        forall|j: int| 0 <= j < params.sectors@.len() ==> (#[trigger] params.sectors@[j]).expiry >= 0,
                        batch_gen.codes().len() == __vx_i0 - 1, batch_gen.expect() == params.sectors@.len(),
                        minus(allocs_of(*st), a_mid, removed_mid),
                        forall|q: int| 0 <= q < snc.len() ==> {
                            let e = #[trigger] snc[q];
                            let k: AKey = (e.1.client, e.0);
                            a_mid.dom().contains(k) && a_mid[k].client == k.0 && a_mid[k].provider == provider && rt.epoch <= a_mid[k].expiration
                                && a_mid[k].term_min <= sector.expiry - rt.epoch <= a_mid[k].term_max && e.1 == claim_of(a_mid[k], provider, rt.epoch, sector.sector)
                        },
                        removed.len() == removed_mid.len() + it2.index@,
                        forall|q: int| 0 <= q < removed_mid.len() ==> removed[q] == removed_mid[q],
                        minus(allocs_of(*st), allocs.view(), removed),
                        spent_ok(removed, allocs_of(*st), vclaims_of(*st), claims.view(), provider, rt.epoch, params.sectors@, __vx_i0 as int),
                        claims_ext(vclaims_of(*st), claims.view(), provider, removed),
                        sector_claimed_space@ == sum_sizes(allocs_of(*st), removed) - sum_sizes(allocs_of(*st), removed_mid),
                        total_claimed_space@ == old(total_claimed_space)@ + sum_sizes(allocs_of(*st), removed_mid),
//@ after "st . save_claims"
        proof {
            assert(allocs_of(*st) == allocs.view() && vclaims_of(*st) == claims.view());
            assert(minus(allocs_of(*old(st)), allocs_of(*st), removed));
        }
//@ loopstart 2
                    let ghost c_b = claims.view();
                    let ghost a_b = allocs.view();
//@ loopend 2
                    proof {
                        let k: AKey = (new_claim.client, id);
                        assert(snc[it2.index@ as int] == (id, new_claim));
                        assert(!removed.contains(k)) by {
                            if removed.contains(k) { let i = choose|i: int| 0 <= i < removed.len() && removed[i] == k; assert(c_b.dom().contains((provider, removed[i].1))); }
                        }
                        assert(a_mid.dom().contains(k));
                        assert(allocs_of(*st).dom().contains(k) && a_mid[k] == allocs_of(*st)[k]);
                        assert(a_b.dom().contains(k));
                        lemma_claim_step(allocs_of(*st), a_b, allocs.view(), vclaims_of(*st), c_b, claims.view(), removed, k, provider, rt.epoch,
                            params.sectors@, __vx_i0 as int, __vx_i0 - 1, new_claim);
                        removed = removed.push(k);
                    }
//@ end

//@ fn actors/verifreg/src/lib.rs datacap_to_tokens
    ensures r@ == amount@ * 1_000_000_000_000_000_000,
//@ end
//@ fn actors/verifreg/src/lib.rs burn sub0="ext :: datacap :: Method :: Burn as u64=>datacap_burn_method()"
    requires !old(rt).in_tx@,
    ensures
        rt_frame(old(rt), final(rt)), final(rt).sends@.len() <= old(rt).sends@.len() + 1,
        amount@ == 0 ==> r.is_ok() && *final(rt) == *old(rt),
        amount@ != 0 && r.is_ok() ==> rt_pushed(old(rt), final(rt)) && final(rt).sends@.last().ok
            && final(rt).sends@.last().to == DATACAP_TOKEN_ACTOR_ADDR && final(rt).sends@.last().method == datacap_burn_method_spec()
            && exists|p: BurnParams| final(rt).sends@.last().params == Some(IpldBlock { h: #[trigger] cbor_hash(p) }) && p.amount@ == amount@ * 1_000_000_000_000_000_000,
//@ end

// ======================= ClaimAllocations: whole method =======================
//@ fn actors/verifreg/src/lib.rs Actor::claim_allocations free tx0="State;claim_tx0;&mut __vx_st, rt, &params, provider, &mut batch_gen, &mut sector_results, &mut total_claimed_space" ret=res
    requires
        !old(rt).in_tx@, old(rt).tx_log@.len() == 0, old(rt).sends@.len() == 0, old(rt).validated@.is_none(),
        old(rt).msg.caller.proto == 0, old(rt).epoch >= 0,
        forall|j: int| 0 <= j < params.sectors@.len() ==> (#[trigger] params.sectors@[j]).expiry >= 0,
    ensures
        /*C11*/ res.is_ok() ==> old(rt).caller_type@ == Some(Type::Miner) && final(rt).validated@.is_some(),
        res.is_ok() ==> final(rt).tx_log@.len() == 1 && exists|removed: Seq<AKey>| #![trigger minus(allocs_of(rt_state::<State>(old(rt).state_id@)), allocs_of(rt_state::<State>(final(rt).tx_log@[0])), removed)] {
            let s0 = rt_state::<State>(old(rt).state_id@);
            let s1 = rt_state::<State>(final(rt).tx_log@[0]);
            let provider = old(rt).msg.caller.id;
            let spent = sum_sizes(allocs_of(s0), removed);
            &&& minus(allocs_of(s0), allocs_of(s1), removed)
            &&& spent_ok(removed, allocs_of(s0), vclaims_of(s0), vclaims_of(s1), provider, old(rt).epoch, params.sectors@, params.sectors@.len() as int)
            &&& claims_ext(vclaims_of(s0), vclaims_of(s1), provider, removed)
            // the registry burns exactly the DataCap of the allocations it just spent — no more, no less — in one message to the token actor
            &&& (spent == 0 ==> final(rt).sends@.len() == 0)
            &&& (spent != 0 ==> final(rt).sends@.len() == 1 && final(rt).sends@[0].ok && final(rt).sends@[0].to == DATACAP_TOKEN_ACTOR_ADDR
                    && final(rt).sends@[0].method == datacap_burn_method_spec()
                    && exists|p: BurnParams| final(rt).sends@[0].params == Some(IpldBlock { h: #[trigger] cbor_hash(p) }) && p.amount@ == spent * 1_000_000_000_000_000_000)
        },
//@ before "let batch_info ="
        let ghost s0g = rt_state::<State>(old(rt).state_id@);
        let ghost s1g = rt_state::<State>(rt.tx_log@[0]);
        let ghost wit: Seq<AKey> = choose|removed: Seq<AKey>| #![trigger minus(allocs_of(s0g), allocs_of(s1g), removed)] minus(allocs_of(s0g), allocs_of(s1g), removed)
            && spent_ok(removed, allocs_of(s0g), vclaims_of(s0g), vclaims_of(s1g), provider, old(rt).epoch, params.sectors@, params.sectors@.len() as int)
            && claims_ext(vclaims_of(s0g), vclaims_of(s1g), provider, removed)
            && total_claimed_space@ == sum_sizes(allocs_of(s0g), removed);
        proof { assert(minus(allocs_of(s0g), allocs_of(s1g), wit)); }
//@ end
} // verus!
fn main() {}
