// unit: verified registry — expiry: allocations/claims are removed only once expired, by owner table, refunded exactly once; claim terms only grow (C09, C10)
//@ include prelude/core.rs
//@ include prelude/ipld.rs
//@ include prelude/rt.rs
//@ include prelude/singletons.rs
//@ include prelude/policy.rs
//@ include prelude/batch.rs
//@ include prelude/verifreg.rs
verus! {
#[derive(Clone, Copy, PartialEq, Eq, Structural)]
pub struct PaddedPieceSize(pub u64);
pub type AllocationID = u64;
pub type ClaimID = u64;
//@ item actors/verifreg/src/state.rs State
//@ item actors/verifreg/src/state.rs Allocation attr="#[derive(Clone, Copy, PartialEq, Eq, Structural)]"
//@ item actors/verifreg/src/state.rs Claim attr="#[derive(Clone, Copy, PartialEq, Eq, Structural)]"
//@ item actors/verifreg/src/types.rs RemoveExpiredAllocationsParams
//@ item actors/verifreg/src/types.rs RemoveExpiredAllocationsReturn
//@ item actors/verifreg/src/types.rs RemoveExpiredClaimsParams
//@ item actors/verifreg/src/types.rs RemoveExpiredClaimsReturn
//@ item actors/verifreg/src/types.rs ClaimTerm
//@ item actors/verifreg/src/types.rs ExtendClaimTermsParams
//@ item actors/verifreg/src/types.rs ExtendClaimTermsReturn
/// frc46_token::token::TOKEN_PRECISION (external crate constant: 10^18)
pub const TOKEN_PRECISION: u64 = 1_000_000_000_000_000_000;
//@ include prelude/verifreg_expiry_assumed.rs

pub open spec fn allocs_of(s: State) -> Map<(ActorID, AllocationID), Allocation> { mapmap_decode::<Allocation, ActorID, AllocationID>(s.allocations) }
pub open spec fn vclaims_of(s: State) -> Map<(ActorID, ClaimID), Claim> { mapmap_decode::<Claim, ActorID, ClaimID>(s.claims) }

//@ fn actors/verifreg/src/state.rs State::load_allocs
    ensures vx_store_ok() ==> r.is_ok(), r.is_ok() ==> r->Ok_0.view() == allocs_of(*self),
//@ end
//@ fn actors/verifreg/src/state.rs State::save_allocs
    ensures
        final(allocs).view() == old(allocs).view(),
        vx_store_ok() ==> r.is_ok(),
        r.is_ok() ==> allocs_of(*final(self)) == old(allocs).view() && *final(self) == (State { allocations: final(self).allocations, ..*old(self) }),
        r.is_err() ==> *final(self) == *old(self),
//@ end
//@ fn actors/verifreg/src/state.rs State::load_claims
    ensures vx_store_ok() ==> r.is_ok(), r.is_ok() ==> r->Ok_0.view() == vclaims_of(*self),
//@ end
//@ fn actors/verifreg/src/state.rs State::save_claims
    ensures
        final(claims).view() == old(claims).view(),
        vx_store_ok() ==> r.is_ok(),
        r.is_ok() ==> vclaims_of(*final(self)) == old(claims).view() && *final(self) == (State { claims: final(self).claims, ..*old(self) }),
        r.is_err() ==> *final(self) == *old(self),
//@ end

// ---------------- expiry (contracts of units/C10/verifreg_preds.vx.rs; the precondition of `expiration` is weakened to "no i64 overflow") ----------------
pub trait Expires {
    spec fn exp_spec(&self) -> int;
    fn expiration(&self) -> (r: ChainEpoch)
        requires i64::MIN <= self.exp_spec() <= i64::MAX,
        ensures r as int == self.exp_spec();
}
impl Expires for Allocation {
    open spec fn exp_spec(&self) -> int { self.expiration as int }
//@ fn actors/verifreg/src/expiration.rs <Allocation as Expires>::expiration free novac
//@ end
}
impl Expires for Claim {
    /// a claim expires at term_start + term_max
    open spec fn exp_spec(&self) -> int { self.term_start + self.term_max }
//@ fn actors/verifreg/src/expiration.rs <Claim as Expires>::expiration free novac
//@ end
}
/// every record's expiration epoch is representable (for claims: term_start + term_max does not overflow i64)
pub open spec fn exp_in_range<T: Expires>(m: Map<(ActorID, u64), T>) -> bool {
    forall|k: (ActorID, u64)| m.dom().contains(k) ==> i64::MIN <= (#[trigger] m[k]).exp_spec() <= i64::MAX
}

/// outcome required for one removal candidate: removable only if it belongs to `owner` and has expired
pub open spec fn expiry_code<T: Expires>(m: Map<(ActorID, u64), T>, owner: ActorID, id: u64, curr: int) -> u32 {
    if !m.dom().contains((owner, id)) { 17 }            // NOT_FOUND: not this owner's record
    else if curr >= m[(owner, id)].exp_spec() { 0 }      // expired: may be removed
    else { 18 }                                          // FORBIDDEN: not yet expired
}

//@ fn actors/verifreg/src/expiration.rs check_expired
    requires
        exp_in_range(old(collection).view()),
    ensures
        final(collection).view() == old(collection).view(),
        // "claims or allocations can be removed only after they have expired", and only by their owner; one verdict per candidate, in order
        r.is_ok() ==> r->Ok_0.codes().len() == candidates@.len()
            && forall|i: int| 0 <= i < candidates@.len() ==> #[trigger] r->Ok_0.codes()[i] == expiry_code(old(collection).view(), owner, candidates@[i], curr_epoch as int),
//@ loop 0 iter=it
            invariant
                it.seq().len() == candidates@.len(),
                forall|j: int| 0 <= j < candidates@.len() ==> *(#[trigger] it.seq()[j]) == candidates@[j],
                collection.view() == old(collection).view(),
                ret_gen.expect() == candidates@.len(),
                ret_gen.codes().len() == it.index@,
                exp_in_range(collection.view()),
                forall|i: int| 0 <= i < it.index@ ==> #[trigger] ret_gen.codes()[i] == expiry_code(collection.view(), owner, candidates@[i], curr_epoch as int),
//@ end

// ---- find_expired ----
/// R16 (done textually, see the substitutions of `find_expired`): `m.for_each_in(k, |key, v| { BODY; Ok(()) })` becomes
/// `let es = m.vx_entries_in(k)..?; vx_for_each_done(k, for (key, v) in es { BODY; () })` — the value of a completed traversal is Ok(())
pub fn vx_for_each_done<K>(k1: K, done: ()) -> (r: Result<(), AnyhowError>) ensures r.is_ok() { Ok(()) }
pub type Ent<'b, T> = (&'b BytesKey, &'b T);
/// what `for_each_in(owner, ..)` visits: every record of `owner` in `m`, each exactly once
pub open spec fn fe_entries<T: Expires>(m: Map<(ActorID, u64), T>, owner: ActorID, es: Seq<Ent<T>>) -> bool {
    &&& forall|i: int| 0 <= i < es.len() ==> {
            let e = #[trigger] es[i];
            e.0.uint().is_some() && m.dom().contains((owner, e.0.uint()->Some_0)) && *e.1 == m[(owner, e.0.uint()->Some_0)]
        }
    &&& forall|i: int, j: int| 0 <= i < j < es.len() ==> es[i].0.uint() != es[j].0.uint()
    &&& forall|k2: u64| m.dom().contains((owner, k2)) ==> exists|i: int| 0 <= i < es.len() && #[trigger] es[i].0.uint() == Some(k2)
}
/// the ids collected from the first `n` visited entries: those whose record has expired, in visiting order
pub open spec fn fe_found<T: Expires>(es: Seq<Ent<T>>, n: int, curr: int) -> Seq<u64>
    decreases n
{
    if n <= 0 { Seq::empty() }
    else if curr >= es[n - 1].1.exp_spec() { fe_found(es, n - 1, curr).push(es[n - 1].0.uint()->Some_0) }
    else { fe_found(es, n - 1, curr) }
}
/// some entry among the first `n` visited carries id `id` and has expired
pub open spec fn fe_hit<T: Expires>(es: Seq<Ent<T>>, n: int, curr: int, id: u64) -> bool {
    exists|j: int| 0 <= j < n && (#[trigger] es[j]).0.uint() == Some(id) && curr >= es[j].1.exp_spec()
}
pub proof fn lemma_fe_found<T: Expires>(m: Map<(ActorID, u64), T>, owner: ActorID, es: Seq<Ent<T>>, n: int, curr: int)
    requires fe_entries(m, owner, es), 0 <= n <= es.len(),
    ensures
        forall|id: u64| #[trigger] fe_found(es, n, curr).contains(id) <==> fe_hit(es, n, curr, id),
        fe_found(es, n, curr).no_duplicates(),
    decreases n
{
    if n > 0 {
        lemma_fe_found(m, owner, es, n - 1, curr);
        let p = fe_found(es, n - 1, curr);
        let f = fe_found(es, n, curr);
        let e = es[n - 1];
        let idn = e.0.uint()->Some_0;
        assert(e.0.uint() == Some(idn));
        if curr >= e.1.exp_spec() {
            assert(f == p.push(idn));
            assert(!p.contains(idn)) by {
                if p.contains(idn) {
                    assert(fe_hit(es, n - 1, curr, idn));
                    let j = choose|j: int| 0 <= j < n - 1 && (#[trigger] es[j]).0.uint() == Some(idn) && curr >= es[j].1.exp_spec();
                    assert(es[j].0.uint() == es[n - 1].0.uint());
                }
            }
            assert forall|id: u64| #[trigger] f.contains(id) <==> fe_hit(es, n, curr, id) by {
                if f.contains(id) {
                    let i = choose|i: int| 0 <= i < f.len() && f[i] == id;
                    if i < p.len() { assert(p[i] == id); assert(p.contains(id)); assert(fe_hit(es, n - 1, curr, id));
                        let j = choose|j: int| 0 <= j < n - 1 && (#[trigger] es[j]).0.uint() == Some(id) && curr >= es[j].1.exp_spec();
                        assert(0 <= j < n && es[j].0.uint() == Some(id)); }
                    else { assert(id == idn); assert(es[n - 1].0.uint() == Some(id)); }
                }
                if fe_hit(es, n, curr, id) {
                    let j = choose|j: int| 0 <= j < n && (#[trigger] es[j]).0.uint() == Some(id) && curr >= es[j].1.exp_spec();
                    if j < n - 1 { assert(fe_hit(es, n - 1, curr, id)); assert(p.contains(id)); let i = choose|i: int| 0 <= i < p.len() && p[i] == id; assert(f[i] == id); }
                    else { assert(id == idn); assert(f[p.len() as int] == id); }
                }
            }
            assert(f.no_duplicates()) by {
                assert forall|x: int, y: int| 0 <= x < f.len() && 0 <= y < f.len() && x != y implies f[x] != f[y] by {
                    if x == p.len() { assert(f[y] == p[y]); if f[y] == idn { assert(p.contains(idn)); } }
                    else if y == p.len() { assert(f[x] == p[x]); if f[x] == idn { assert(p.contains(idn)); } }
                    else { assert(f[x] == p[x] && f[y] == p[y]); }
                }
            }
        } else {
            assert(f == p);
            assert forall|id: u64| #[trigger] f.contains(id) <==> fe_hit(es, n, curr, id) by {
                if p.contains(id) {
                    assert(fe_hit(es, n - 1, curr, id));
                    let j = choose|j: int| 0 <= j < n - 1 && (#[trigger] es[j]).0.uint() == Some(id) && curr >= es[j].1.exp_spec();
                    assert(0 <= j < n && es[j].0.uint() == Some(id));
                }
                if fe_hit(es, n, curr, id) {
                    let j = choose|j: int| 0 <= j < n && (#[trigger] es[j]).0.uint() == Some(id) && curr >= es[j].1.exp_spec();
                    assert(j < n - 1);
                    assert(fe_hit(es, n - 1, curr, id));
                }
            }
        }
    } else {
        assert forall|id: u64| #[trigger] fe_found(es, n, curr).contains(id) <==> fe_hit(es, n, curr, id) by {}
    }
}
/// what `find_expired` returns once the traversal is complete
pub proof fn lemma_fe_done<T: Expires>(m: Map<(ActorID, u64), T>, owner: ActorID, es: Seq<Ent<T>>, curr: int)
    requires fe_entries(m, owner, es),
    ensures
        fe_found(es, es.len() as int, curr).no_duplicates(),
        forall|id: u64| #[trigger] fe_found(es, es.len() as int, curr).contains(id) <==> expiry_code(m, owner, id, curr) == 0,
{
    let f = fe_found(es, es.len() as int, curr);
    lemma_fe_found(m, owner, es, es.len() as int, curr);
    assert forall|id: u64| #[trigger] f.contains(id) <==> expiry_code(m, owner, id, curr) == 0 by {
        if f.contains(id) {
            assert(fe_hit(es, es.len() as int, curr, id));
            let j = choose|j: int| 0 <= j < es.len() && (#[trigger] es[j]).0.uint() == Some(id) && curr >= es[j].1.exp_spec();
            assert(m.dom().contains((owner, id)) && *es[j].1 == m[(owner, id)]);
        }
        if expiry_code(m, owner, id, curr) == 0 {
            let i = choose|i: int| 0 <= i < es.len() && #[trigger] es[i].0.uint() == Some(id);
            assert(*es[i].1 == m[(owner, es[i].0.uint()->Some_0)]);
            assert(fe_hit(es, es.len() as int, curr, id));
        }
    }
}

//@ fn actors/verifreg/src/expiration.rs find_expired attr="#[verifier::loop_isolation(false)]" sub0="collection . for_each_in=>let __vx_es = collection.vx_entries_in(owner).context_code(ExitCode::USR_ILLEGAL_STATE, vx_msg())?; let ghost __vx_ges = __vx_es@; vx_for_each_done" sub1="| key , record |=>for (key, record) in it: __vx_es invariant it.seq() == __vx_ges, fe_entries(old(collection).view(), owner, __vx_ges), exp_in_range(old(collection).view()), found_ids@ == fe_found(__vx_ges, it.index@ as int, curr_epoch as int)" sub2="Ok (())=>()"
    requires
        exp_in_range(old(collection).view()),
    ensures
        final(collection).view() == old(collection).view(),
        // exactly the records of `owner` whose expiration epoch has been reached (verdict 0 of `expiry_code`), each once
        r.is_ok() ==> r->Ok_0@.no_duplicates(),
        r.is_ok() ==> forall|id: u64| #[trigger] r->Ok_0@.contains(id) <==> expiry_code(old(collection).view(), owner, id, curr_epoch as int) == 0,
//@ before "Ok (found_ids)"
        proof { lemma_fe_done(old(collection).view(), owner, __vx_ges, curr_epoch as int); }
//@ end

// ======================= removal of expired records: shared definitions =======================
pub type AKey = (ActorID, u64);
/// table `a1` is `a0` without exactly the keys `removed` (all of which were present, each once); everything else is unchanged
pub open spec fn minus<V>(a0: Map<AKey, V>, a1: Map<AKey, V>, removed: Seq<AKey>) -> bool {
    &&& removed.no_duplicates()
    &&& forall|i: int| 0 <= i < removed.len() ==> a0.dom().contains(#[trigger] removed[i])
    &&& forall|k: AKey| #[trigger] a1.dom().contains(k) <==> a0.dom().contains(k) && !removed.contains(k)
    &&& forall|k: AKey| a1.dom().contains(k) ==> #[trigger] a1[k] == a0[k]
}
/// total size of the allocations named by `ks` in table `a`
pub open spec fn sum_sizes(a: Map<AKey, Allocation>, ks: Seq<AKey>) -> int
    decreases ks.len()
{ if ks.len() == 0 { 0 } else { sum_sizes(a, ks.drop_last()) + a[ks.last()].size.0 } }
/// the keys `(owner, ids[0]) .. (owner, ids[n-1])`
pub open spec fn keys_of(owner: ActorID, ids: Seq<u64>, n: int) -> Seq<AKey> { Seq::new(n as nat, |j: int| (owner, ids[j])) }

/// "removed only after they have expired", and only from the named owner's table: every removed key is `owner`'s and its record's
/// expiration epoch has been reached (`expiration <= curr`, the verdict-0 case of `expiry_code`, the comparison of `check_expired` / `find_expired`)
pub open spec fn removed_expired<T: Expires>(m: Map<AKey, T>, owner: ActorID, curr: int, removed: Seq<AKey>) -> bool {
    forall|i: int| 0 <= i < removed.len() ==> (#[trigger] removed[i]).0 == owner && m.dom().contains(removed[i]) && m[removed[i]].exp_spec() <= curr
}
/// `owner` has fewer than 2^32 records in the table (`considered.len() as u32` in the "remove all" branch does not truncate)
pub open spec fn owner_count_u32<T>(m: Map<AKey, T>, owner: ActorID) -> bool {
    forall|ids: Seq<u64>| ids.no_duplicates() && (forall|i: int| 0 <= i < ids.len() ==> m.dom().contains((owner, #[trigger] ids[i]))) ==> #[trigger] ids.len() <= u32::MAX
}
/// the ids to remove: pairwise distinct, each names an expired record of `owner`
pub open spec fn ids_removable<T: Expires>(m: Map<AKey, T>, owner: ActorID, curr: int, ids: Seq<u64>) -> bool {
    &&& ids.no_duplicates()
    &&& forall|i: int| 0 <= i < ids.len() ==> expiry_code(m, owner, #[trigger] ids[i], curr) == 0
}
/// the verdicts `codes` are those of `expiry_code` for the candidates `cands`
pub open spec fn verdicts<T: Expires>(m: Map<AKey, T>, owner: ActorID, curr: int, cands: Seq<u64>, codes: Seq<u32>) -> bool {
    codes.len() == cands.len() && forall|i: int| 0 <= i < cands.len() ==> #[trigger] codes[i] == expiry_code(m, owner, cands[i], curr)
}

pub proof fn lemma_ok_items<T>(codes: Seq<u32>, items: Seq<T>)
    requires codes.len() == items.len(),
    ensures
        forall|x: T| #[trigger] batch_ok_items(codes, items).contains(x) <==> exists|j: int| 0 <= j < items.len() && #[trigger] items[j] == x && codes[j] == 0,
        items.no_duplicates() ==> batch_ok_items(codes, items).no_duplicates(),
    decreases items.len()
{
    let f = batch_ok_items(codes, items);
    if items.len() > 0 {
        let (c1, i1) = (codes.drop_last(), items.drop_last());
        lemma_ok_items(c1, i1);
        let p = batch_ok_items(c1, i1);
        let n = items.len() - 1;
        assert forall|x: T| #[trigger] f.contains(x) <==> exists|j: int| 0 <= j < items.len() && #[trigger] items[j] == x && codes[j] == 0 by {
            if f.contains(x) {
                let i = choose|i: int| 0 <= i < f.len() && f[i] == x;
                if i < p.len() {
                    assert(p[i] == x); assert(p.contains(x));
                    let j = choose|j: int| 0 <= j < i1.len() && #[trigger] i1[j] == x && c1[j] == 0;
                    assert(items[j] == x && codes[j] == 0);
                } else { assert(codes[n] == 0 && items[n] == x); }
            }
            if exists|j: int| 0 <= j < items.len() && #[trigger] items[j] == x && codes[j] == 0 {
                let j = choose|j: int| 0 <= j < items.len() && #[trigger] items[j] == x && codes[j] == 0;
                if j < n { assert(i1[j] == x && c1[j] == 0); assert(p.contains(x)); let i = choose|i: int| 0 <= i < p.len() && p[i] == x; assert(f[i] == x); }
                else { assert(f == p.push(items[n])); assert(f[p.len() as int] == x); }
            }
        }
        if items.no_duplicates() {
            assert(i1.no_duplicates());
            if codes[n] == 0 {
                assert(f == p.push(items[n]));
                assert(!p.contains(items[n])) by {
                    if p.contains(items[n]) { let j = choose|j: int| 0 <= j < i1.len() && #[trigger] i1[j] == items[n] && c1[j] == 0; assert(items[j] == items[n]); }
                }
                assert forall|x: int, y: int| 0 <= x < f.len() && 0 <= y < f.len() && x != y implies f[x] != f[y] by {
                    if x == p.len() { assert(f[y] == p[y]); if f[y] == items[n] { assert(p.contains(items[n])); } }
                    else if y == p.len() { assert(f[x] == p[x]); if f[x] == items[n] { assert(p.contains(items[n])); } }
                    else { assert(f[x] == p[x] && f[y] == p[y]); }
                }
            } else { assert(f == p); }
        }
    } else {
        assert forall|x: T| #[trigger] f.contains(x) <==> exists|j: int| 0 <= j < items.len() && #[trigger] items[j] == x && codes[j] == 0 by {}
    }
}
/// when every verdict is 0 every item is kept
pub proof fn lemma_all_ok<T>(codes: Seq<u32>, items: Seq<T>)
    requires codes.len() == items.len(), forall|i: int| 0 <= i < codes.len() ==> #[trigger] codes[i] == 0,
    ensures batch_ok_items(codes, items) == items,
    decreases items.len()
{
    if items.len() > 0 {
        lemma_all_ok(codes.drop_last(), items.drop_last());
        assert(items.drop_last().push(items.last()) == items);
    }
}
/// the candidates that `check_expired` accepted are removable
pub proof fn lemma_successes_removable<T: Expires>(m: Map<AKey, T>, owner: ActorID, curr: int, cands: Seq<u64>, codes: Seq<u32>)
    requires verdicts(m, owner, curr, cands, codes), cands.no_duplicates(),
    ensures ids_removable(m, owner, curr, batch_ok_items(codes, cands)),
{
    lemma_ok_items(codes, cands);
    let f = batch_ok_items(codes, cands);
    assert forall|i: int| 0 <= i < f.len() implies expiry_code(m, owner, #[trigger] f[i], curr) == 0 by {
        assert(f.contains(f[i]));
        let j = choose|j: int| 0 <= j < cands.len() && #[trigger] cands[j] == f[i] && codes[j] == 0;
    }
}
/// one step of the removal loop: removing key `(owner, ids[n])` from the table extends the removed prefix by one
pub proof fn lemma_remove_step<V>(a0: Map<AKey, V>, a_before: Map<AKey, V>, owner: ActorID, ids: Seq<u64>, n: int)
    requires
        0 <= n < ids.len(), ids.no_duplicates(), a0.dom().contains((owner, ids[n])),
        minus(a0, a_before, keys_of(owner, ids, n)),
    ensures
        a_before.dom().contains((owner, ids[n])), a_before[(owner, ids[n])] == a0[(owner, ids[n])],
        keys_of(owner, ids, n + 1) == keys_of(owner, ids, n).push((owner, ids[n])),
        minus(a0, a_before.remove((owner, ids[n])), keys_of(owner, ids, n + 1)),
{
    let removed = keys_of(owner, ids, n);
    let k = (owner, ids[n]);
    let r2 = keys_of(owner, ids, n + 1);
    assert(r2 == removed.push(k));
    assert(!removed.contains(k)) by {
        if removed.contains(k) { let i = choose|i: int| 0 <= i < removed.len() && removed[i] == k; assert(ids[i] == ids[n]); }
    }
    assert(r2.no_duplicates()) by {
        assert forall|x: int, y: int| 0 <= x < r2.len() && 0 <= y < r2.len() && x != y implies r2[x] != r2[y] by { assert(ids[x] != ids[y]); }
    }
    assert forall|i: int| 0 <= i < r2.len() implies a0.dom().contains(#[trigger] r2[i]) by { if i < n { assert(r2[i] == removed[i]); } }
    let a_after = a_before.remove(k);
    assert forall|q: AKey| #[trigger] a_after.dom().contains(q) <==> a0.dom().contains(q) && !r2.contains(q) by {
        if r2.contains(q) { let i = choose|i: int| 0 <= i < r2.len() && r2[i] == q; if i < n { assert(removed[i] == q); assert(removed.contains(q)); } }
        if removed.contains(q) { let i = choose|i: int| 0 <= i < removed.len() && removed[i] == q; assert(r2[i] == q); }
        if q == k { assert(r2[n] == k); }
    }
}
pub proof fn lemma_sum_push(a: Map<AKey, Allocation>, ks: Seq<AKey>, k: AKey)
    ensures sum_sizes(a, ks.push(k)) == sum_sizes(a, ks) + a[k].size.0,
{ assert(ks.push(k).drop_last() == ks); }

// ======================= RemoveExpiredAllocations =======================
//@ fn actors/verifreg/src/lib.rs Actor::remove_expired_allocations closure=0 as=rea_tx0 params="st: &mut State, rt: &mut Rt, params: &RemoveExpiredAllocationsParams, curr_epoch: ChainEpoch, batch_ret: &mut BatchReturn, considered: &mut Vec<ClaimID>, mut recovered_datacap: DataCap" retty="Result<DataCap, ActorError>" derefs=batch_ret,considered sub0="emit :: allocation_removed=>vx_emit_allocation_removed" sub1="expiration :: find_expired=>find_expired" sub2="expiration :: check_expired=>check_expired" sub3="(* considered) . iter () . collect ()=>vx_collect_refs(&*considered)"
    requires
        // a repeated id makes the second `allocs.remove(..)` return None and the `.unwrap()` panic (the activation aborts, nothing changes)
        params.allocation_ids@.no_duplicates(),
        owner_count_u32(allocs_of(*old(st)), params.client),
    ensures
        *final(rt) == (Rt { events: final(rt).events, ..*old(rt) }),
        r.is_ok() ==> *final(st) == (State { allocations: final(st).allocations, ..*old(st) }),
        r.is_ok() ==> ({
            let a0 = allocs_of(*old(st));
            let a1 = allocs_of(*final(st));
            let ids = batch_ok_items(final(batch_ret).codes(), final(considered)@);
            let removed = keys_of(params.client, ids, ids.len() as int);
            // one verdict per considered id, as `expiry_code` prescribes; the ids removed are those with verdict 0
            &&& verdicts(a0, params.client, curr_epoch as int, final(considered)@, final(batch_ret).codes())
            &&& (params.allocation_ids@.len() != 0 ==> final(considered)@ == params.allocation_ids@)
            // no ids named: every expired allocation of the client is considered (and removed)
            &&& (params.allocation_ids@.len() == 0 ==> forall|id: u64| expiry_code(a0, params.client, id, curr_epoch as int) == 0 ==> #[trigger] final(considered)@.contains(id))
            // whole-table frame: the new table is the old one minus exactly the removed keys
            &&& minus(a0, a1, removed)
            // "expired ...": only the named client's allocations, only expired ones
            &&& removed_expired(a0, params.client, curr_epoch as int, removed)
            // "... and refunded": the amount handed to the refund is exactly the total size of the allocations removed
            &&& r->Ok_0@ == recovered_datacap@ + sum_sizes(a0, removed)
        }),
//@ entry
        let ghost mut ids: Seq<u64> = Seq::empty();
        let ghost rd0: int = recovered_datacap@;
//@ before "for id in"
        proof {
            ids = to_remove@.map_values(|x: &u64| *x);
            if params.allocation_ids@.len() == 0 {
                assert(ids =~= considered@);
                assert forall|i: int| 0 <= i < ids.len() implies expiry_code(allocs_of(*st), params.client, #[trigger] ids[i], curr_epoch as int) == 0 by { assert(considered@.contains(ids[i])); }
                assert(ids.len() <= u32::MAX);
                lemma_ok_items(batch_ret.codes(), considered@);
                assert(batch_ok_items(batch_ret.codes(), considered@) =~= considered@) by { lemma_all_ok(batch_ret.codes(), considered@); }
            } else {
                assert(ids =~= batch_ok_items(batch_ret.codes(), considered@));
                lemma_successes_removable(allocs_of(*st), params.client, curr_epoch as int, considered@, batch_ret.codes());
            }
        }
//@ loop 0 iter=it
            invariant
                it.seq().len() == ids.len(), forall|j: int| 0 <= j < ids.len() ==> *(#[trigger] it.seq()[j]) == ids[j],
                ids_removable(allocs_of(*st), params.client, curr_epoch as int, ids),
                *st == *old(st), *rt == (Rt { events: rt.events, ..*old(rt) }),
                minus(allocs_of(*st), allocs.view(), keys_of(params.client, ids, it.index@ as int)),
                recovered_datacap@ == rd0 + sum_sizes(allocs_of(*st), keys_of(params.client, ids, it.index@ as int)),
//@ loopstart 0
                proof { lemma_remove_step(allocs_of(*st), allocs.view(), params.client, ids, it.index@ as int); }
//@ loopend 0
                proof { lemma_sum_push(allocs_of(*st), keys_of(params.client, ids, it.index@ as int), (params.client, ids[it.index@ as int])); }
//@ end

//@ fn actors/verifreg/src/lib.rs datacap_to_tokens
    ensures r@ == amount@ * 1_000_000_000_000_000_000,
//@ end
//@ fn actors/verifreg/src/lib.rs transfer sub0="ext :: datacap :: Method :: Transfer as u64=>datacap_transfer_method()" sub1="Default :: default ()=>RawBytes::default()"
    requires !old(rt).in_tx@,
    ensures
        rt_frame(old(rt), final(rt)), final(rt).sends@.len() <= old(rt).sends@.len() + 1,
        // "expired and refunded to its client": Ok only if the refund transfer really happened, for exactly `amount` to exactly `to`
        r.is_ok() ==> rt_pushed(old(rt), final(rt)) && final(rt).sends@.last().ok
            && final(rt).sends@.last().to == DATACAP_TOKEN_ACTOR_ADDR && final(rt).sends@.last().method == datacap_transfer_method_spec(),
        r.is_ok() ==> exists|p: TransferParams| final(rt).sends@.last().params == Some(IpldBlock { h: #[trigger] cbor_hash(p) })
            && p.to == (Address { id: to, proto: 0 }) && p.amount@ == amount@ * 1_000_000_000_000_000_000,
//@ end

// ---------------- RemoveExpiredAllocations: whole method ----------------
//@ fn actors/verifreg/src/lib.rs Actor::remove_expired_allocations free tx0="State;rea_tx0;&mut __vx_st, rt, &params, curr_epoch, &mut batch_ret, &mut considered, recovered_datacap" ret=res
    requires
        !old(rt).in_tx@, old(rt).tx_log@.len() == 0, old(rt).sends@.len() == 0, old(rt).validated@.is_none(),
        params.allocation_ids@.no_duplicates(),
        owner_count_u32(allocs_of(rt_state::<State>(old(rt).state_id@)), params.client),
    ensures
        /*C11*/ res.is_ok() ==> final(rt).validated@.is_some(),
        // the method commits at most one state, and sends at most one message (the refund), AFTER the commit
        final(rt).tx_log@.len() <= 1, final(rt).sends@.len() <= 1,
        final(rt).sends@.len() == 1 ==> final(rt).tx_log@.len() == 1,
        res.is_ok() ==> final(rt).tx_log@.len() == 1 && final(rt).sends@.len() == 1 && ({
            let s0 = rt_state::<State>(old(rt).state_id@);
            let s1 = rt_state::<State>(final(rt).tx_log@[0]);
            let a0 = allocs_of(s0);
            let a1 = allocs_of(s1);
            let curr = old(rt).epoch as int;
            let ids = batch_ok_items(res->Ok_0.results.codes(), res->Ok_0.considered@);
            let removed = keys_of(params.client, ids, ids.len() as int);
            let refund = sum_sizes(a0, removed);
            &&& s1 == (State { allocations: s1.allocations, ..s0 })
            &&& verdicts(a0, params.client, curr, res->Ok_0.considered@, res->Ok_0.results.codes())
            &&& (params.allocation_ids@.len() != 0 ==> res->Ok_0.considered@ == params.allocation_ids@)
            &&& (params.allocation_ids@.len() == 0 ==> forall|id: u64| expiry_code(a0, params.client, id, curr) == 0 ==> #[trigger] res->Ok_0.considered@.contains(id))
            // "allocations can be removed only after they have expired" / whole-table frame: the committed table is the old one minus exactly
            // the removed allocations, all of them the named client's and expired; a removed allocation no longer exists (so it can be neither
            // claimed nor refunded again)
            &&& minus(a0, a1, removed)
            &&& removed_expired(a0, params.client, curr, removed)
            // "expired and refunded to its client": Ok only if ONE transfer of exactly the total size of the removed allocations,
            // to exactly the named client, was accepted by the DataCap actor
            &&& res->Ok_0.datacap_recovered@ == refund
            &&& final(rt).sends@[0].ok && final(rt).sends@[0].to == DATACAP_TOKEN_ACTOR_ADDR && final(rt).sends@[0].method == datacap_transfer_method_spec()
            &&& exists|p: TransferParams| final(rt).sends@[0].params == Some(IpldBlock { h: #[trigger] cbor_hash(p) })
                    && p.to == (Address { id: params.client, proto: 0 }) && p.amount@ == refund * 1_000_000_000_000_000_000
        }),
        // a refund that is not accepted fails the method: the runtime then discards the committed removal together with the rest of the activation
        final(rt).sends@.len() == 1 && !final(rt).sends@[0].ok ==> res.is_err(),
//@ end

// ======================= RemoveExpiredClaims =======================
//@ fn actors/verifreg/src/lib.rs Actor::remove_expired_claims closure=0 as=rec_tx0 params="st: &mut State, rt: &mut Rt, params: &RemoveExpiredClaimsParams, curr_epoch: ChainEpoch, batch_ret: &mut BatchReturn, considered: &mut Vec<ClaimID>" retty="Result<(), ActorError>" derefs=batch_ret,considered sub0="emit :: claim_removed=>vx_emit_claim_removed" sub1="expiration :: find_expired=>find_expired" sub2="expiration :: check_expired=>check_expired" sub3="(* considered) . iter () . collect ()=>vx_collect_refs(&*considered)"
    requires
        // a repeated id makes the second `claims.remove(..)` return None and the `.unwrap()` panic (the activation aborts, nothing changes)
        params.claim_ids@.no_duplicates(),
        owner_count_u32(vclaims_of(*old(st)), params.provider),
        // term_start + term_max of every recorded claim is representable
        exp_in_range(vclaims_of(*old(st))),
    ensures
        *final(rt) == (Rt { events: final(rt).events, ..*old(rt) }),
        r.is_ok() ==> *final(st) == (State { claims: final(st).claims, ..*old(st) }),
        r.is_ok() ==> ({
            let c0 = vclaims_of(*old(st));
            let c1 = vclaims_of(*final(st));
            let ids = batch_ok_items(final(batch_ret).codes(), final(considered)@);
            let removed = keys_of(params.provider, ids, ids.len() as int);
            &&& verdicts(c0, params.provider, curr_epoch as int, final(considered)@, final(batch_ret).codes())
            &&& (params.claim_ids@.len() != 0 ==> final(considered)@ == params.claim_ids@)
            &&& (params.claim_ids@.len() == 0 ==> forall|id: u64| expiry_code(c0, params.provider, id, curr_epoch as int) == 0 ==> #[trigger] final(considered)@.contains(id))
            // whole-table frame: the new table is the old one minus exactly the removed keys ...
            &&& minus(c0, c1, removed)
            // ... which are claims of the named provider whose term_start + term_max has been reached
            &&& removed_expired(c0, params.provider, curr_epoch as int, removed)
        }),
//@ entry
        let ghost mut ids: Seq<u64> = Seq::empty();
//@ before "for id in"
        proof {
            ids = to_remove@.map_values(|x: &u64| *x);
            if params.claim_ids@.len() == 0 {
                assert(ids =~= considered@);
                assert forall|i: int| 0 <= i < ids.len() implies expiry_code(vclaims_of(*st), params.provider, #[trigger] ids[i], curr_epoch as int) == 0 by { assert(considered@.contains(ids[i])); }
                assert(ids.len() <= u32::MAX);
                lemma_ok_items(batch_ret.codes(), considered@);
                assert(batch_ok_items(batch_ret.codes(), considered@) =~= considered@) by { lemma_all_ok(batch_ret.codes(), considered@); }
            } else {
                assert(ids =~= batch_ok_items(batch_ret.codes(), considered@));
                lemma_successes_removable(vclaims_of(*st), params.provider, curr_epoch as int, considered@, batch_ret.codes());
            }
        }
//@ loop 0 iter=it
            invariant
                it.seq().len() == ids.len(), forall|j: int| 0 <= j < ids.len() ==> *(#[trigger] it.seq()[j]) == ids[j],
                ids_removable(vclaims_of(*st), params.provider, curr_epoch as int, ids),
                *st == *old(st), *rt == (Rt { events: rt.events, ..*old(rt) }),
                minus(vclaims_of(*st), claims.view(), keys_of(params.provider, ids, it.index@ as int)),
//@ loopstart 0
                proof { lemma_remove_step(vclaims_of(*st), claims.view(), params.provider, ids, it.index@ as int); }
//@ end

//@ fn actors/verifreg/src/lib.rs Actor::remove_expired_claims free tx0="State;rec_tx0;&mut __vx_st, rt, &params, curr_epoch, &mut batch_ret, &mut considered" ret=res
    requires
        !old(rt).in_tx@, old(rt).tx_log@.len() == 0, old(rt).sends@.len() == 0, old(rt).validated@.is_none(),
        params.claim_ids@.no_duplicates(),
        owner_count_u32(vclaims_of(rt_state::<State>(old(rt).state_id@)), params.provider),
        exp_in_range(vclaims_of(rt_state::<State>(old(rt).state_id@))),
    ensures
        /*C11*/ res.is_ok() ==> final(rt).validated@.is_some(),
        final(rt).sends@.len() == 0, final(rt).tx_log@.len() <= 1,
        res.is_ok() ==> final(rt).tx_log@.len() == 1 && ({
            let s0 = rt_state::<State>(old(rt).state_id@);
            let s1 = rt_state::<State>(final(rt).tx_log@[0]);
            let c0 = vclaims_of(s0);
            let c1 = vclaims_of(s1);
            let curr = old(rt).epoch as int;
            let ids = batch_ok_items(res->Ok_0.results.codes(), res->Ok_0.considered@);
            let removed = keys_of(params.provider, ids, ids.len() as int);
            &&& s1 == (State { claims: s1.claims, ..s0 })
            &&& verdicts(c0, params.provider, curr, res->Ok_0.considered@, res->Ok_0.results.codes())
            &&& (params.claim_ids@.len() != 0 ==> res->Ok_0.considered@ == params.claim_ids@)
            &&& (params.claim_ids@.len() == 0 ==> forall|id: u64| expiry_code(c0, params.provider, id, curr) == 0 ==> #[trigger] res->Ok_0.considered@.contains(id))
            // "claims ... can be removed only after they have expired": only claims of the named provider with term_start + term_max <= now
            // leave the table; every other claim (of this or any other provider) is unchanged
            &&& minus(c0, c1, removed)
            &&& removed_expired(c0, params.provider, curr, removed)
        }),
//@ end

// ======================= ExtendClaimTerms =======================
//@ fn actors/verifreg/src/state.rs get_claim
    ensures
        final(claims).view() == old(claims).view(),
        r.is_ok() ==> (r->Ok_0.is_some() <==> old(claims).view().dom().contains((provider, id))),
        r.is_ok() && r->Ok_0.is_some() ==> *(r->Ok_0->Some_0) == old(claims).view()[(provider, id)],
//@ end
pub type CMap = Map<AKey, Claim>;
pub open spec fn tkey(t: ClaimTerm) -> AKey { (t.provider, t.claim_id) }
/// the verdict the code gives one entry of the batch against the current table (16 ILLEGAL_ARGUMENT, 17 NOT_FOUND, 18 FORBIDDEN)
pub open spec fn ext_code(c: CMap, caller: ActorID, limit: ChainEpoch, t: ClaimTerm) -> u32 {
    if t.term_max > limit { 16 }
    else if !c.dom().contains(tkey(t)) { 17 }
    else if c[tkey(t)].client != caller { 18 }
    else if t.term_max < c[tkey(t)].term_max { 16 }
    else { 0 }
}
/// effect of one entry: a successful one rewrites term_max of the named claim, a failed one changes nothing
pub open spec fn ext_step(c: CMap, caller: ActorID, limit: ChainEpoch, t: ClaimTerm) -> CMap {
    if ext_code(c, caller, limit, t) == 0 { c.insert(tkey(t), Claim { term_max: t.term_max, ..c[tkey(t)] }) } else { c }
}
/// the table after the first `n` entries
pub open spec fn ext_apply(c0: CMap, caller: ActorID, limit: ChainEpoch, terms: Seq<ClaimTerm>, n: int) -> CMap
    decreases n
{ if n <= 0 { c0 } else { ext_step(ext_apply(c0, caller, limit, terms, n - 1), caller, limit, terms[n - 1]) } }
/// entry `i` of the batch succeeded
pub open spec fn ext_succ(c0: CMap, caller: ActorID, limit: ChainEpoch, terms: Seq<ClaimTerm>, i: int) -> bool {
    ext_code(ext_apply(c0, caller, limit, terms, i), caller, limit, terms[i]) == 0
}
pub open spec fn ext_codes(c0: CMap, caller: ActorID, limit: ChainEpoch, terms: Seq<ClaimTerm>, codes: Seq<u32>, n: int) -> bool {
    codes.len() == n && forall|i: int| 0 <= i < n ==> #[trigger] codes[i] == ext_code(ext_apply(c0, caller, limit, terms, i), caller, limit, terms[i])
}
/// some successful entry among the first `n` names claim `k` and requests exactly `tm`
pub open spec fn ext_witness(c0: CMap, caller: ActorID, limit: ChainEpoch, terms: Seq<ClaimTerm>, n: int, k: AKey, tm: ChainEpoch) -> bool {
    exists|i: int| 0 <= i < n && #[trigger] ext_succ(c0, caller, limit, terms, i) && tkey(terms[i]) == k && terms[i].term_max == tm
}
/// THE PROPERTY for a batch of term extensions (table `c0` before, `c` after the first `n` entries):
pub open spec fn extended_ok(c0: CMap, c: CMap, caller: ActorID, limit: ChainEpoch, terms: Seq<ClaimTerm>, n: int) -> bool {
    // no claim appears or disappears
    &&& c.dom() == c0.dom()
    // no field of any claim other than term_max changes
    &&& forall|k: AKey| c0.dom().contains(k) ==> #[trigger] c[k] == (Claim { term_max: c[k].term_max, ..c0[k] })
    // "a claim's maximum term never decreases"
    &&& forall|k: AKey| c0.dom().contains(k) ==> (#[trigger] c[k]).term_max >= c0[k].term_max
    // a claim's term changes only if the caller is that claim's CLIENT, only to a value within the policy maximum, and only to a value
    // that a successful entry of the batch requested for it (failed entries change nothing)
    &&& forall|k: AKey| c0.dom().contains(k) && (#[trigger] c[k]).term_max != c0[k].term_max ==>
            c0[k].client == caller && c[k].term_max <= limit && ext_witness(c0, caller, limit, terms, n, k, c[k].term_max)
    // every successful entry names an existing claim of the caller and is honoured: the claim's term is at least the requested one
    // (exactly the requested one unless a later successful entry for the same claim raised it further, see lemma_ext_exact)
    &&& forall|i: int| 0 <= i < n && #[trigger] ext_succ(c0, caller, limit, terms, i) ==> {
            let k = tkey(terms[i]);
            c0.dom().contains(k) && c0[k].client == caller && c0[k].term_max <= terms[i].term_max <= c[k].term_max && terms[i].term_max <= limit
        }
}
pub proof fn lemma_ext(c0: CMap, caller: ActorID, limit: ChainEpoch, terms: Seq<ClaimTerm>, n: int)
    requires 0 <= n <= terms.len(),
    ensures extended_ok(c0, ext_apply(c0, caller, limit, terms, n), caller, limit, terms, n),
    decreases n
{
    if n > 0 {
        lemma_ext(c0, caller, limit, terms, n - 1);
        let p = ext_apply(c0, caller, limit, terms, n - 1);
        let c = ext_apply(c0, caller, limit, terms, n);
        let t = terms[n - 1];
        assert(c == ext_step(p, caller, limit, t));
        assert forall|k: AKey| c0.dom().contains(k) && (#[trigger] p[k]).term_max != c0[k].term_max implies ext_witness(c0, caller, limit, terms, n, k, p[k].term_max) by {
            assert(ext_witness(c0, caller, limit, terms, n - 1, k, p[k].term_max));
            let i = choose|i: int| 0 <= i < n - 1 && #[trigger] ext_succ(c0, caller, limit, terms, i) && tkey(terms[i]) == k && terms[i].term_max == p[k].term_max;
            assert(0 <= i < n && ext_succ(c0, caller, limit, terms, i));
        }
        if ext_code(p, caller, limit, t) == 0 {
            let kt = tkey(t);
            assert(ext_succ(c0, caller, limit, terms, n - 1));
            assert(c.dom() =~= c0.dom());
            assert(p[kt] == (Claim { term_max: p[kt].term_max, ..c0[kt] }));
            assert(ext_witness(c0, caller, limit, terms, n, kt, t.term_max));
            assert forall|k: AKey| c0.dom().contains(k) && (#[trigger] c[k]).term_max != c0[k].term_max implies
                    c0[k].client == caller && c[k].term_max <= limit && ext_witness(c0, caller, limit, terms, n, k, c[k].term_max) by {
                if k != kt { assert(c[k] == p[k]); }
            }
            assert forall|i: int| 0 <= i < n && #[trigger] ext_succ(c0, caller, limit, terms, i) implies ({
                let k = tkey(terms[i]);
                c0.dom().contains(k) && c0[k].client == caller && c0[k].term_max <= terms[i].term_max <= c[k].term_max && terms[i].term_max <= limit
            }) by {
                let k = tkey(terms[i]);
                if i < n - 1 { if k != kt { assert(c[k] == p[k]); } else { assert(p[k].term_max <= t.term_max); } }
                else { assert(c0[k].term_max <= p[k].term_max); }
            }
        } else {
            assert(c == p);
        }
    } else {
        assert(ext_apply(c0, caller, limit, terms, n) == c0);
    }
}
/// "on success each named claim's term_max becomes exactly the requested value": if entry `i` succeeded and no other successful entry
/// names the same claim, that claim's term_max is now exactly the requested one
pub proof fn lemma_ext_exact(c0: CMap, c: CMap, caller: ActorID, limit: ChainEpoch, terms: Seq<ClaimTerm>, i: int)
    requires
        extended_ok(c0, c, caller, limit, terms, terms.len() as int), 0 <= i < terms.len(), ext_succ(c0, caller, limit, terms, i),
        forall|j: int| 0 <= j < terms.len() && j != i && #[trigger] ext_succ(c0, caller, limit, terms, j) ==> tkey(terms[j]) != tkey(terms[i]),
    ensures c[tkey(terms[i])].term_max == terms[i].term_max,
{
    let k = tkey(terms[i]);
    if c[k].term_max != c0[k].term_max {
        assert(ext_witness(c0, caller, limit, terms, terms.len() as int, k, c[k].term_max));
        let j = choose|j: int| 0 <= j < terms.len() && #[trigger] ext_succ(c0, caller, limit, terms, j) && tkey(terms[j]) == k && terms[j].term_max == c[k].term_max;
        assert(j == i);
    }
}

//@ fn actors/verifreg/src/lib.rs Actor::extend_claim_terms closure=0 as=ect_tx0 params="st: &mut State, rt: &mut Rt, params: &ExtendClaimTermsParams, caller_id: ActorID, term_limit: ChainEpoch, batch_gen: &mut BatchReturnGen" retty="Result<(), ActorError>" derefs=batch_gen r19=0 sub0="emit :: claim_updated=>vx_emit_claim_updated" sub1="state :: get_claim=>get_claim"
    requires
        old(batch_gen).codes().len() == 0, old(batch_gen).expect() == params.terms@.len(),
    ensures
        *final(rt) == (Rt { events: final(rt).events, ..*old(rt) }),
        final(batch_gen).expect() == old(batch_gen).expect(),
        r.is_ok() ==> *final(st) == (State { claims: final(st).claims, ..*old(st) }),
        // exact effect: the entries are applied in order, each against the table left by the previous ones
        r.is_ok() ==> vclaims_of(*final(st)) == ext_apply(vclaims_of(*old(st)), caller_id, term_limit, params.terms@, params.terms@.len() as int),
        r.is_ok() ==> ext_codes(vclaims_of(*old(st)), caller_id, term_limit, params.terms@, final(batch_gen).codes(), params.terms@.len() as int),
        // hence THE PROPERTY
        r.is_ok() ==> extended_ok(vclaims_of(*old(st)), vclaims_of(*final(st)), caller_id, term_limit, params.terms@, params.terms@.len() as int),
//@ loop 0
                invariant
                    __vx_i0 <= __vx_v0.len(), __vx_v0@ == params.terms@,
                    *st == *old(st), *rt == (Rt { events: rt.events, ..*old(rt) }),
                    batch_gen.expect() == params.terms@.len(),
                    st_claims.view() == ext_apply(vclaims_of(*st), caller_id, term_limit, params.terms@, __vx_i0 as int),
                    ext_codes(vclaims_of(*st), caller_id, term_limit, params.terms@, batch_gen.codes(), __vx_i0 as int),
                decreases __vx_v0.len() - __vx_i0,
//@ before "st . save_claims"
        proof { lemma_ext(vclaims_of(*st), caller_id, term_limit, params.terms@, params.terms@.len() as int); }
//@ end

//@ fn actors/verifreg/src/lib.rs Actor::extend_claim_terms free tx0="State;ect_tx0;&mut __vx_st, rt, &params, caller_id, term_limit, &mut batch_gen" ret=res
    requires
        !old(rt).in_tx@, old(rt).tx_log@.len() == 0, old(rt).sends@.len() == 0, old(rt).validated@.is_none(),
        old(rt).msg.caller.proto == 0,
    ensures
        /*C11*/ res.is_ok() ==> final(rt).validated@.is_some(),
        final(rt).sends@.len() == 0, final(rt).tx_log@.len() <= 1,
        res.is_ok() ==> final(rt).tx_log@.len() == 1 && ({
            let s0 = rt_state::<State>(old(rt).state_id@);
            let s1 = rt_state::<State>(final(rt).tx_log@[0]);
            let caller = old(rt).msg.caller.id;
            let limit = rt_policy().maximum_verified_allocation_term;
            &&& s1 == (State { claims: s1.claims, ..s0 })
            // one verdict per entry, in order
            &&& ext_codes(vclaims_of(s0), caller, limit, params.terms@, res->Ok_0.codes(), params.terms@.len() as int)
            // "a claim's maximum term never decreases", only the claim's client may change it, only up to the policy maximum, nothing else changes
            &&& extended_ok(vclaims_of(s0), vclaims_of(s1), caller, limit, params.terms@, params.terms@.len() as int)
        }),
//@ end
} // verus!
fn main() {}
