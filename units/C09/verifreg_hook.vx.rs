// unit: verified registry — the DataCap receiver hook: allocations are created (fresh ids, client = token sender, validated terms) and claim
// terms are extended for exactly the tokens received; extension tokens are burnt at once; GetClaims answers (C09, C10)
// Under contract: State::{load_allocs, save_allocs, load_claims, save_claims, insert_allocations, put_claims}, get_claim, validate_tokens_received,
// validate_new_allocation, validate_claim_extension, check_miner_id, datacap_to_tokens, tokens_to_datacap, burn, the transaction closure of
// Actor::universal_receiver_hook (urh_tx0), Actor::universal_receiver_hook, Actor::get_claims; lemmas lemma_allocs_created (fresh ids, nothing else
// touched), lemma_hook_extended (only term_max of named claims grows, within policy, unexpired), lemma_exact_tokens, lemma_all_found.
// Tool-limit rewrites (all listed in the evidence): insert_allocations' `put_many(client, ITER.map(move |a| { BODY }))` becomes
// `vx_put_many(client, { pairs collected by a loop whose body is BODY })` (sub0-3; the closure body — id = first_id + count, count += 1 — stays the
// extracted text), `(a..b).collect()` -> `.vx_collect()`; R17 zip loop; `updated_claims.clone()` -> vx_clone_vec (tuple Clone has no Verus spec).
// Assumptions stated as preconditions of the hook: the token actor's Burn does not re-enter the registry (rt_no_reentry); the amount received is a
// multiple of 10^18 (DATACAP_GRANULARITY == TOKEN_PRECISION, enforced by the token actor; WITHOUT it `tokens_to_datacap` truncates and the clause
// "tokens received == total size" fails for amount = total*10^18 + r, 0 < r < 10^18: r atto-DataCap would stay with the registry unaccounted);
// state invariant claims_wf (claims stored under their own provider — put_claims keys by claim.provider, the lookup by req.provider).
//@ include prelude/core.rs
//@ include prelude/ipld.rs
//@ include prelude/rt.rs
//@ include prelude/singletons.rs
//@ include prelude/policy.rs
//@ include prelude/batch.rs
//@ include prelude/verifreg.rs
verus! {
#[derive(Clone, Copy, PartialEq, Eq, Structural)]
pub struct PaddedPieceSize(pub u64);
pub type AllocationID = u64;
pub type ClaimID = u64;
//@ item actors/verifreg/src/state.rs State
//@ item actors/verifreg/src/state.rs Allocation attr="#[derive(Clone, Copy, PartialEq, Eq, Structural)]"
//@ item actors/verifreg/src/state.rs Claim attr="#[derive(Clone, Copy, PartialEq, Eq, Structural)]"
//@ item actors/verifreg/src/types.rs AllocationRequest
//@ item actors/verifreg/src/types.rs ClaimExtensionRequest
//@ item actors/verifreg/src/types.rs AllocationRequests
//@ item actors/verifreg/src/types.rs AllocationsResponse
//@ item actors/verifreg/src/types.rs GetClaimsParams
//@ item actors/verifreg/src/types.rs GetClaimsReturn
/// frc46_token::token::TOKEN_PRECISION (external crate constant: 10^18)
pub const TOKEN_PRECISION: u64 = 1_000_000_000_000_000_000;
//@ include prelude/verifreg_expiry_assumed.rs
//@ include prelude/verifreg_hook_assumed.rs

pub type AKey = (ActorID, u64);
pub type AMap = Map<AKey, Allocation>;
pub type CMap = Map<AKey, Claim>;
pub open spec fn allocs_of(s: State) -> AMap { mapmap_decode::<Allocation, ActorID, AllocationID>(s.allocations) }
pub open spec fn vclaims_of(s: State) -> CMap { mapmap_decode::<Claim, ActorID, ClaimID>(s.claims) }

//@ fn actors/verifreg/src/state.rs State::load_allocs
    ensures vx_store_ok() ==> r.is_ok(), r.is_ok() ==> r->Ok_0.view() == allocs_of(*self),
//@ end
//@ fn actors/verifreg/src/state.rs State::save_allocs
    ensures
        final(allocs).view() == old(allocs).view(),
        vx_store_ok() ==> r.is_ok(),
        r.is_ok() ==> allocs_of(*final(self)) == old(allocs).view() && *final(self) == (State { allocations: final(self).allocations, ..*old(self) }),
        r.is_err() ==> *final(self) == *old(self),
//@ end
//@ fn actors/verifreg/src/state.rs State::load_claims
    ensures vx_store_ok() ==> r.is_ok(), r.is_ok() ==> r->Ok_0.view() == vclaims_of(*self),
//@ end
//@ fn actors/verifreg/src/state.rs State::save_claims
    ensures
        final(claims).view() == old(claims).view(),
        vx_store_ok() ==> r.is_ok(),
        r.is_ok() ==> vclaims_of(*final(self)) == old(claims).view() && *final(self) == (State { claims: final(self).claims, ..*old(self) }),
        r.is_err() ==> *final(self) == *old(self),
//@ end
//@ fn actors/verifreg/src/state.rs get_claim
    ensures
        final(claims).view() == old(claims).view(),
        r.is_ok() ==> (r->Ok_0.is_some() <==> old(claims).view().dom().contains((provider, id))),
        r.is_ok() && r->Ok_0.is_some() ==> *(r->Ok_0->Some_0) == old(claims).view()[(provider, id)],
//@ end

// ======================= State::insert_allocations =======================
/// the allocations `al` numbered consecutively from `first`
pub open spec fn numbered(first: int, al: Seq<Allocation>) -> Seq<(u64, Allocation)> { Seq::new(al.len(), |i: int| ((first + i) as u64, al[i])) }
/// the ids `first, first+1, …, first+n-1`
pub open spec fn id_range(first: int, n: nat) -> Seq<u64> { Seq::new(n, |i: int| (first + i) as u64) }

//@ fn actors/verifreg/src/state.rs State::insert_allocations sub0="allocs . put_many=>allocs.vx_put_many" sub1="new_allocs . into_iter () . map=>vx_pairs" sub2="move | a |=>{ let mut __vx_pairs: Vec<(u64, Allocation)> = Vec::new(); for a in it: new_allocs invariant it.seq() == na, *count_ref == it.index@, first_id + na.len() <= u64::MAX, __vx_pairs@ == numbered(first_id as int, na.take(it.index@ as int))" sub3="(id , a)=>let ghost __vx_p0 = __vx_pairs@; __vx_pairs.push((id, a)); proof { lemma_numbered_push(first_id as int, na, it.index@ as int, __vx_p0, __vx_pairs@, id); } } proof { assert(na.take(na.len() as int) == na); } __vx_pairs" sub4=". collect ()=>.vx_collect()"
    requires
        // allocation ids are u64: the id counter does not wrap
        old(self).next_allocation_id + new_allocs@.len() <= u64::MAX,
    ensures
        r.is_err() ==> *final(self) == *old(self),
        r.is_ok() ==> ({
            let first = old(self).next_allocation_id as int;
            let n = new_allocs@.len();
            // "each new allocation gets a fresh id": consecutive ids from the counter, which advances by exactly the number of allocations
            &&& r->Ok_0@ == id_range(first, n)
            &&& *final(self) == (State { allocations: final(self).allocations, next_allocation_id: (first + n) as u64, ..*old(self) })
            // exactly these allocations are written, under the given client, nothing else
            &&& allocs_of(*final(self)) == put_many_spec(allocs_of(*old(self)), client, numbered(first, new_allocs@))
        }),
//@ entry
        let ghost na = new_allocs@;
//@ end
/// the pairs handed to `put_many`: identity (stands where `ITER.map` stood, see the substitutions of `insert_allocations`)
pub fn vx_pairs<T>(v: Vec<T>) -> (r: Vec<T>) ensures r == v { v }
/// one step of the numbering loop: the pair pushed for allocation `i` must carry exactly the id `first + i`
pub proof fn lemma_numbered_push(first: int, na: Seq<Allocation>, i: int, p0: Seq<(u64, Allocation)>, p1: Seq<(u64, Allocation)>, id: u64)
    requires 0 <= i < na.len(), p0 == numbered(first, na.take(i)), p1 == p0.push((id, na[i])), id == first + i,
    ensures p1 == numbered(first, na.take(i + 1)),
{
    let q = numbered(first, na.take(i + 1));
    assert(p1.len() == q.len());
    assert forall|j: int| 0 <= j < q.len() implies p1[j] == q[j] by {
        if j < i { assert(p1[j] == p0[j]); assert(na.take(i)[j] == na.take(i + 1)[j]); }
    }
    assert(p1 =~= q);
}

// ======================= State::put_claims =======================
/// the claims table after writing the pairs `(id, claim)` in order, each under ITS OWN `claim.provider` (later pairs overwrite earlier ones)
pub open spec fn put_claims_spec(c: CMap, cs: Seq<(ClaimID, Claim)>) -> CMap
    decreases cs.len()
{ if cs.len() == 0 { c } else { put_claims_spec(c, cs.drop_last()).insert((cs.last().1.provider, cs.last().0), cs.last().1) } }

//@ fn actors/verifreg/src/state.rs State::put_claims
    ensures
        r.is_err() ==> *final(self) == *old(self),
        r.is_ok() ==> *final(self) == (State { claims: final(self).claims, ..*old(self) })
            && vclaims_of(*final(self)) == put_claims_spec(vclaims_of(*old(self)), claims@),
//@ entry
        let ghost cs = claims@;
//@ loop 0 iter=it
            invariant
                it.seq() == cs, *self == *old(self),
                st_claims.view() == put_claims_spec(vclaims_of(*self), cs.take(it.index@ as int)),
//@ loopend 0
            proof { assert(cs.take(it.index@ as int + 1).drop_last() == cs.take(it.index@ as int)); }
//@ before "self . save_claims"
        proof { assert(cs.take(cs.len() as int) == cs); }
//@ end

// ======================= helpers of the receiver hook =======================
//@ fn actors/verifreg/src/lib.rs validate_tokens_received suball0="FRC46_TOKEN_TYPE=>frc46_token_type()"
    ensures
        // only an FRC-46 payload addressed to this very actor is accepted; the payload is what the bytes decode to
        r.is_ok() ==> params.type_ == frc46_token_type_spec() && r->Ok_0 == raw_deser_spec::<FRC46TokenReceived>(params.payload) && r->Ok_0.to == my_id,
//@ end
/// the conditions `validate_new_allocation` imposes (size / term / expiration bounds of the policy)
pub open spec fn valid_new_alloc(q: AllocationRequest, policy: Policy, curr_epoch: ChainEpoch) -> bool {
    q.size.0 as int >= policy.minimum_verified_allocation_size@
        && policy.minimum_verified_allocation_term <= q.term_min <= q.term_max <= policy.maximum_verified_allocation_term
        && curr_epoch <= q.expiration <= curr_epoch + policy.maximum_verified_allocation_expiration
}
// (contract of units/C10/verifreg_preds.vx.rs)
//@ fn actors/verifreg/src/lib.rs validate_new_allocation
    requires
        0 <= curr_epoch, 0 <= policy.maximum_verified_allocation_expiration,
        curr_epoch + policy.maximum_verified_allocation_expiration <= i64::MAX,
    ensures
        r.is_ok() <==> (req.size.0 as int >= policy.minimum_verified_allocation_size@
            && policy.minimum_verified_allocation_term <= req.term_min <= req.term_max <= policy.maximum_verified_allocation_term
            && curr_epoch <= req.expiration <= curr_epoch + policy.maximum_verified_allocation_expiration),
//@ end
// (contract of units/C10/verifreg_preds.vx.rs)
//@ fn actors/verifreg/src/lib.rs validate_claim_extension
    requires
        0 <= curr_epoch, 0 <= policy.maximum_verified_allocation_term, 0 <= claim.term_start, 0 <= claim.term_max,
        curr_epoch + policy.maximum_verified_allocation_term <= i64::MAX,
        claim.term_start + claim.term_max <= i64::MAX,
    ensures
        // "a claim's maximum term never decreases" (strictly grows), stays within policy, and an expired claim is expired for good
        r.is_ok() <==> (req.term_max > claim.term_max
            && req.term_max <= curr_epoch + policy.maximum_verified_allocation_term - claim.term_start
            && curr_epoch <= claim.term_start + claim.term_max),
//@ end
/// actor `id` runs the built-in storage-miner code
pub open spec fn is_miner(id: ActorID) -> bool {
    rt_code_of(id).is_some() && rt_builtin_type(rt_code_of(id)->Some_0) == Some(Type::Miner)
}
//@ fn actors/verifreg/src/lib.rs check_miner_id rt=ref
    ensures r.is_ok() <==> is_miner(id),
//@ end
//@ fn actors/verifreg/src/lib.rs datacap_to_tokens
    ensures r@ == amount@ * 1_000_000_000_000_000_000,
//@ end
//@ fn actors/verifreg/src/lib.rs tokens_to_datacap
    ensures r@ == trunc_div(amount@, 1_000_000_000_000_000_000),
//@ end
// (contract of units/C09/verifreg_claims.vx.rs, plus: the registry's state is not touched when the token actor's Burn does not call back)
//@ fn actors/verifreg/src/lib.rs burn sub0="ext :: datacap :: Method :: Burn as u64=>datacap_burn_method()"
    requires !old(rt).in_tx@,
    ensures
        rt_frame(old(rt), final(rt)), final(rt).sends@.len() <= old(rt).sends@.len() + 1,
        amount@ == 0 ==> r.is_ok() && *final(rt) == *old(rt),
        amount@ != 0 ==> rt_pushed(old(rt), final(rt)) || (r.is_err() && *final(rt) == *old(rt)),
        amount@ != 0 && r.is_ok() ==> rt_pushed(old(rt), final(rt)) && final(rt).sends@.last().ok
            && final(rt).sends@.last().to == DATACAP_TOKEN_ACTOR_ADDR && final(rt).sends@.last().method == datacap_burn_method_spec()
            && exists|p: BurnParams| final(rt).sends@.last().params == Some(IpldBlock { h: #[trigger] cbor_hash(p) }) && p.amount@ == amount@ * 1_000_000_000_000_000_000,
        rt_no_reentry(DATACAP_TOKEN_ACTOR_ADDR, datacap_burn_method_spec()) || r.is_err() ==> final(rt).state_id == old(rt).state_id,
//@ end

// ======================= the receiver hook: specification vocabulary =======================
/// the allocation recorded for request `q` of token sender `client`
pub open spec fn alloc_of(client: ActorID, q: AllocationRequest) -> Allocation {
    Allocation { client, provider: q.provider, data: q.data, size: q.size, term_min: q.term_min, term_max: q.term_max, expiration: q.expiration }
}
pub open spec fn allocs_for(client: ActorID, qs: Seq<AllocationRequest>) -> Seq<Allocation> { Seq::new(qs.len(), |i: int| alloc_of(client, qs[i])) }
/// total size of the first `n` allocation requests
pub open spec fn sum_req_sizes(qs: Seq<AllocationRequest>, n: int) -> int
    decreases n
{ if n <= 0 { 0 } else { sum_req_sizes(qs, n - 1) + qs[n - 1].size.0 } }
pub open spec fn xkey(q: ClaimExtensionRequest) -> AKey { (q.provider, q.claim) }
/// the conditions under which the hook accepts extension request `q` against claims table `c` (`validate_claim_extension` on the named claim)
pub open spec fn ext_ok(c: CMap, q: ClaimExtensionRequest, policy: Policy, curr_epoch: ChainEpoch) -> bool {
    c.dom().contains(xkey(q)) && q.term_max > c[xkey(q)].term_max
        && q.term_max <= curr_epoch + policy.maximum_verified_allocation_term - c[xkey(q)].term_start
        && curr_epoch <= c[xkey(q)].term_start + c[xkey(q)].term_max
}
/// the claim written for request `q`: the named claim with ONLY its term_max replaced (client, provider, data, size, term_min, term_start, sector kept)
pub open spec fn ext_claim(c: CMap, q: ClaimExtensionRequest) -> Claim { Claim { term_max: q.term_max, ..c[xkey(q)] } }
pub open spec fn ext_updates(c: CMap, qs: Seq<ClaimExtensionRequest>, n: int) -> Seq<(ClaimID, Claim)> { Seq::new(n as nat, |i: int| (qs[i].claim, ext_claim(c, qs[i]))) }
/// total size of the claims named by the first `n` extension requests (a claim named twice counts twice: each request is paid for)
pub open spec fn sum_ext_sizes(c: CMap, qs: Seq<ClaimExtensionRequest>, n: int) -> int
    decreases n
{ if n <= 0 { 0 } else { sum_ext_sizes(c, qs, n - 1) + c[xkey(qs[n - 1])].size.0 } }

/// state invariant of the claims table used by the hook: every claim is stored under its own provider, and its term arithmetic is representable
pub open spec fn claims_wf(c: CMap) -> bool {
    forall|k: AKey| c.dom().contains(k) ==> (#[trigger] c[k]).provider == k.0 && 0 <= c[k].term_start && 0 <= c[k].term_max && c[k].term_start + c[k].term_max <= i64::MAX
}
/// state invariant of the id counter: every allocation and every claim (claim ids ARE allocation ids) carries an id below the counter
pub open spec fn ids_below<V>(m: Map<AKey, V>, next: int) -> bool { forall|k: AKey| #[trigger] m.dom().contains(k) ==> k.1 < next }

// ---- the transaction of the hook ----
/// R17: number of pairs a `zip` visits
pub fn vx_zip_len(a: usize, b: usize) -> (r: usize) ensures r == (if a <= b { a } else { b }) { if a <= b { a } else { b } }
//@ fn actors/verifreg/src/lib.rs Actor::universal_receiver_hook closure=0 as=urh_tx0 params="st: &mut State, rt: &mut Rt, client: ActorID, new_allocs: &Vec<Allocation>, updated_claims: Vec<(ClaimID, Claim)>" retty="Result<Vec<AllocationID>, ActorError>" r17 suball0="(new_allocs . iter ())=>(new_allocs)" subopt1="emit :: allocation=>vx_emit_allocation" subopt2="emit :: claim_updated=>vx_emit_claim_updated" subopt3="updated_claims . clone ()=>vx_clone_vec(&updated_claims)"
    requires
        old(st).next_allocation_id + new_allocs@.len() <= u64::MAX,
    ensures
        *final(rt) == (Rt { events: final(rt).events, ..*old(rt) }),
        r.is_ok() ==> ({
            let first = old(st).next_allocation_id as int;
            let n = new_allocs@.len();
            &&& r->Ok_0@ == id_range(first, n)
            &&& *final(st) == (State { allocations: final(st).allocations, claims: final(st).claims, next_allocation_id: (first + n) as u64, ..*old(st) })
            &&& allocs_of(*final(st)) == put_many_spec(allocs_of(*old(st)), client, numbered(first, new_allocs@))
            &&& vclaims_of(*final(st)) == put_claims_spec(vclaims_of(*old(st)), updated_claims@)
        }),
//@ entry
        let ghost uc = updated_claims@;
        let ghost first = st.next_allocation_id as int;
        let ghost a_new = put_many_spec(allocs_of(*st), client, numbered(first, new_allocs@));
//@ loop 0
            invariant
                *rt == (Rt { events: rt.events, ..*old(rt) }),
                ids@ == id_range(first, new_allocs@.len()),
                *st == (State { allocations: st.allocations, next_allocation_id: (first + new_allocs@.len()) as u64, ..*old(st) }),
                allocs_of(*st) == a_new,
//@ loop 1 iter=it
            invariant
                *rt == (Rt { events: rt.events, ..*old(rt) }),
                ids@ == id_range(first, new_allocs@.len()),
                *st == (State { allocations: st.allocations, claims: st.claims, next_allocation_id: (first + new_allocs@.len()) as u64, ..*old(st) }),
                allocs_of(*st) == a_new,
                vclaims_of(*st) == put_claims_spec(vclaims_of(*old(st)), uc),
//@ end

// ======================= what the recorded tables look like (lemmas over the exact effects) =======================
/// NEW ALLOCATIONS. Table `a1` is `a0` plus exactly the allocations of requests `qs`, each for the token sender `client`, under the fresh
/// consecutive ids `first ..`: nothing existing is touched, nothing else appears, and the id invariant is kept for the advanced counter
pub open spec fn allocs_created(a0: AMap, a1: AMap, client: ActorID, first: int, qs: Seq<AllocationRequest>) -> bool {
    &&& forall|k: AKey| #[trigger] a0.dom().contains(k) ==> a1.dom().contains(k) && a1[k] == a0[k]
    &&& forall|k: AKey| #[trigger] a1.dom().contains(k) && !a0.dom().contains(k) <==> k.0 == client && first <= k.1 < first + qs.len()
    &&& forall|i: int| 0 <= i < qs.len() ==> a1[(client, (first + i) as u64)] == #[trigger] alloc_of(client, qs[i])
    &&& ids_below(a1, first + qs.len())
}
pub proof fn lemma_put_numbered(a0: AMap, client: ActorID, first: int, al: Seq<Allocation>)
    requires 0 <= first, first + al.len() <= u64::MAX,
    ensures ({
        let a1 = put_many_spec(a0, client, numbered(first, al));
        &&& forall|k: AKey| #[trigger] a1.dom().contains(k) <==> a0.dom().contains(k) || (k.0 == client && first <= k.1 < first + al.len())
        &&& forall|i: int| 0 <= i < al.len() ==> #[trigger] a1[(client, (first + i) as u64)] == al[i]
        &&& forall|k: AKey| a0.dom().contains(k) && !(k.0 == client && first <= k.1 < first + al.len()) ==> #[trigger] a1[k] == a0[k]
    }),
    decreases al.len()
{
    if al.len() > 0 {
        let al1 = al.drop_last();
        lemma_put_numbered(a0, client, first, al1);
        assert(numbered(first, al).drop_last() =~= numbered(first, al1));
        let n1 = al1.len() as int;
        assert(numbered(first, al).last() == ((first + n1) as u64, al[n1]));
        let a1 = put_many_spec(a0, client, numbered(first, al));
        let ap = put_many_spec(a0, client, numbered(first, al1));
        assert(a1 == ap.insert((client, (first + n1) as u64), al[n1]));
        assert forall|i: int| 0 <= i < al.len() implies #[trigger] a1[(client, (first + i) as u64)] == al[i] by {
            if i < n1 { assert(ap[(client, (first + i) as u64)] == al1[i]); }
        }
    }
}
pub proof fn lemma_allocs_created(a0: AMap, client: ActorID, first: int, qs: Seq<AllocationRequest>)
    requires 0 <= first, first + qs.len() <= u64::MAX, ids_below(a0, first),
    ensures allocs_created(a0, put_many_spec(a0, client, numbered(first, allocs_for(client, qs))), client, first, qs),
{
    lemma_put_numbered(a0, client, first, allocs_for(client, qs));
    let a1 = put_many_spec(a0, client, numbered(first, allocs_for(client, qs)));
    assert forall|i: int| 0 <= i < qs.len() implies a1[(client, (first + i) as u64)] == #[trigger] alloc_of(client, qs[i]) by {
        assert(allocs_for(client, qs)[i] == alloc_of(client, qs[i]));
    }
}

/// CLAIM EXTENSIONS. Table `c` is `c0` after the first `n` extension requests `xs` of the hook (C10):
pub open spec fn ext_named(c0: CMap, xs: Seq<ClaimExtensionRequest>, n: int, k: AKey, tm: ChainEpoch, policy: Policy, epoch: ChainEpoch) -> bool {
    exists|i: int| 0 <= i < n && xkey(#[trigger] xs[i]) == k && xs[i].term_max == tm && ext_ok(c0, xs[i], policy, epoch)
}
pub open spec fn hook_extended(c0: CMap, c: CMap, xs: Seq<ClaimExtensionRequest>, n: int, policy: Policy, epoch: ChainEpoch) -> bool {
    // no claim appears or disappears
    &&& c.dom() == c0.dom()
    // no field of any claim other than term_max changes (in particular the claim's client stays the ORIGINAL client, not the token sender)
    &&& forall|k: AKey| c0.dom().contains(k) ==> #[trigger] c[k] == (Claim { term_max: c[k].term_max, ..c0[k] })
    // "a claim's maximum term never decreases"
    &&& forall|k: AKey| c0.dom().contains(k) ==> (#[trigger] c[k]).term_max >= c0[k].term_max
    // a term changes only to a value that a request of this batch named for that claim, and that request was acceptable: strictly above the
    // old term, at most `epoch + maximum_verified_allocation_term` counted from the claim's term_start, and the claim had not yet expired
    &&& forall|k: AKey| c0.dom().contains(k) && (#[trigger] c[k]).term_max != c0[k].term_max ==> ext_named(c0, xs, n, k, c[k].term_max, policy, epoch)
    // every request names an existing claim and leaves it with a strictly longer term than before
    &&& forall|i: int| 0 <= i < n ==> c0.dom().contains(xkey(#[trigger] xs[i])) && c[xkey(xs[i])].term_max > c0[xkey(xs[i])].term_max
}
pub proof fn lemma_hook_extended(c0: CMap, xs: Seq<ClaimExtensionRequest>, n: int, policy: Policy, epoch: ChainEpoch)
    requires
        0 <= n <= xs.len(), claims_wf(c0), epoch + policy.maximum_verified_allocation_term <= i64::MAX,
        forall|i: int| 0 <= i < n ==> ext_ok(c0, #[trigger] xs[i], policy, epoch),
    ensures
        hook_extended(c0, put_claims_spec(c0, ext_updates(c0, xs, n)), xs, n, policy, epoch),
        claims_wf(put_claims_spec(c0, ext_updates(c0, xs, n))),
    decreases n
{
    if n > 0 {
        lemma_hook_extended(c0, xs, n - 1, policy, epoch);
        let u = ext_updates(c0, xs, n);
        assert(u.drop_last() =~= ext_updates(c0, xs, n - 1));
        let q = xs[n - 1];
        assert(ext_ok(c0, q, policy, epoch));
        assert(u.last() == (q.claim, ext_claim(c0, q)));
        let p = put_claims_spec(c0, ext_updates(c0, xs, n - 1));
        let c = put_claims_spec(c0, u);
        let kq = xkey(q);
        assert(ext_claim(c0, q).provider == kq.0);
        assert(c == p.insert(kq, ext_claim(c0, q)));
        assert(c.dom() =~= c0.dom());
        assert forall|k: AKey| c0.dom().contains(k) && (#[trigger] c[k]).term_max != c0[k].term_max implies ext_named(c0, xs, n, k, c[k].term_max, policy, epoch) by {
            if k == kq { assert(xkey(xs[n - 1]) == k); }
            else {
                assert(c[k] == p[k]);
                assert(ext_named(c0, xs, n - 1, k, p[k].term_max, policy, epoch));
                let i = choose|i: int| 0 <= i < n - 1 && xkey(#[trigger] xs[i]) == k && xs[i].term_max == p[k].term_max && ext_ok(c0, xs[i], policy, epoch);
                assert(0 <= i < n && xkey(xs[i]) == k);
            }
        }
        assert forall|i: int| 0 <= i < n implies c0.dom().contains(xkey(#[trigger] xs[i])) && c[xkey(xs[i])].term_max > c0[xkey(xs[i])].term_max by {
            assert(ext_ok(c0, xs[i], policy, epoch));
            if xkey(xs[i]) != kq { assert(c[xkey(xs[i])] == p[xkey(xs[i])]); }
        }
    } else {
        assert(ext_updates(c0, xs, n).len() == 0);
    }
}
/// whole tokens: an amount that is a multiple of 10^18 and whose quotient by 10^18 is `total` is exactly `total * 10^18`
pub proof fn lemma_exact_tokens(amount: int, total: int)
    requires amount % 1_000_000_000_000_000_000 == 0, trunc_div(amount, 1_000_000_000_000_000_000) == total,
    ensures amount == total * 1_000_000_000_000_000_000,
{
    let b = 1_000_000_000_000_000_000int;
    if amount >= 0 {
        vstd::arithmetic::div_mod::lemma_fundamental_div_mod(amount, b);
    } else {
        vstd::arithmetic::div_mod::lemma_fundamental_div_mod(-amount, b);
        vstd::arithmetic::div_mod::lemma_fundamental_div_mod(amount, b);
        assert((-amount) % b == 0) by { vstd::arithmetic::div_mod::lemma_mod_multiples_basic(-(amount / b), b); assert(-amount == (-(amount / b)) * b) by (nonlinear_arith) requires amount == b * (amount / b) + 0; }
    }
    assert(amount == total * b) by (nonlinear_arith)
        requires b == 1_000_000_000_000_000_000int,
            amount >= 0 ==> amount == b * (amount / b) && total == amount / b,
            amount < 0 ==> -amount == b * ((-amount) / b) && total == -((-amount) / b);
}

// ======================= UniversalReceiverHook: whole method =======================
pub open spec fn hook_payload(params: UniversalReceiverParams) -> FRC46TokenReceived { raw_deser_spec::<FRC46TokenReceived>(params.payload) }
pub open spec fn hook_reqs(params: UniversalReceiverParams) -> AllocationRequests { raw_deser_spec::<AllocationRequests>(hook_payload(params).operator_data) }

//@ fn actors/verifreg/src/lib.rs Actor::universal_receiver_hook free tx0="State;urh_tx0;&mut __vx_st, rt, client, &new_allocs, updated_claims" ret=res r19=0,1 sub0="state :: get_claim=>get_claim"
    requires
        !old(rt).in_tx@, old(rt).tx_log@.len() == 0, old(rt).sends@.len() == 0, old(rt).validated@.is_none(),
        old(rt).msg.receiver.proto == 0,            // the registry is addressed by its ID address
        // epoch / policy arithmetic is representable
        0 <= old(rt).epoch, 0 <= rt_policy().maximum_verified_allocation_expiration, old(rt).epoch + rt_policy().maximum_verified_allocation_expiration <= i64::MAX,
        0 <= rt_policy().maximum_verified_allocation_term, old(rt).epoch + rt_policy().maximum_verified_allocation_term <= i64::MAX,
        // state invariants: claims are stored under their own provider with representable terms; the id counter does not wrap
        claims_wf(vclaims_of(rt_state::<State>(old(rt).state_id@))),
        rt_state::<State>(old(rt).state_id@).next_allocation_id + hook_reqs(params).allocations@.len() <= u64::MAX,
        // the token actor's Burn does not call back into the registry (datacap `burn` runs no receiver hook)
        rt_no_reentry(DATACAP_TOKEN_ACTOR_ADDR, datacap_burn_method_spec()),
        // the DataCap token only moves whole units: DATACAP_GRANULARITY == TOKEN_PRECISION is enforced by the token actor on every transfer
        hook_payload(params).amount@ % 1_000_000_000_000_000_000 == 0,
    ensures
        // "a mismatch ... fails the whole call (nothing recorded)": a failed hook commits nothing
        res.is_err() ==> final(rt).tx_log@.len() == 0,
        final(rt).sends@.len() <= 1,
        res.is_ok() ==> ({
            let pl = hook_payload(params);
            let client = pl.from;
            let qs = hook_reqs(params).allocations@;
            let xs = hook_reqs(params).extensions@;
            let s0 = rt_state::<State>(old(rt).state_id@);
            let s1 = rt_state::<State>(final(rt).tx_log@[0]);
            let (a0, a1, c0, c1) = (allocs_of(s0), allocs_of(s1), vclaims_of(s0), vclaims_of(s1));
            let policy = rt_policy();
            let epoch = old(rt).epoch;
            let first = s0.next_allocation_id as int;
            let new_total = sum_req_sizes(qs, qs.len() as int);
            let ext_total = sum_ext_sizes(c0, xs, xs.len() as int);
            // only transfers of the DataCap token (the immediate caller is the DataCap actor), of type FRC-46, addressed to the registry itself
            &&& old(rt).msg.caller == DATACAP_TOKEN_ACTOR_ADDR && final(rt).validated@.is_some()
            &&& params.type_ == frc46_token_type_spec() && pl.to == old(rt).msg.receiver.id
            // the tokens received equal EXACTLY the sizes of the new allocations plus the sizes of the claims extended
            &&& pl.amount@ == (new_total + ext_total) * 1_000_000_000_000_000_000
            // the tokens paid for extensions are burnt at once, in one accepted Burn of exactly that amount; the tokens of the new allocations
            // stay with the registry (its token balance moves by exactly the total size of the new, unclaimed allocations)
            &&& (ext_total == 0 ==> final(rt).sends@.len() == 0)
            &&& (ext_total != 0 ==> final(rt).sends@.len() == 1 && final(rt).sends@[0].ok && final(rt).sends@[0].to == DATACAP_TOKEN_ACTOR_ADDR
                    && final(rt).sends@[0].method == datacap_burn_method_spec()
                    && exists|p: BurnParams| final(rt).sends@[0].params == Some(IpldBlock { h: #[trigger] cbor_hash(p) }) && p.amount@ == ext_total * 1_000_000_000_000_000_000)
            // exactly one state is committed; only the two tables and the id counter change
            &&& final(rt).tx_log@.len() == 1
            &&& s1 == (State { allocations: s1.allocations, claims: s1.claims, next_allocation_id: (first + qs.len()) as u64, ..s0 })
            // new allocations: consecutive fresh ids from the counter (which advances by their number), client = the token SENDER, every request valid
            &&& res->Ok_0.new_allocations@ == id_range(first, qs.len())
            &&& a1 == put_many_spec(a0, client, numbered(first, allocs_for(client, qs)))
            &&& (forall|i: int| 0 <= i < qs.len() ==> valid_new_alloc(#[trigger] qs[i], policy, epoch) && is_miner(qs[i].provider))
            &&& (ids_below(a0, first) ==> allocs_created(a0, a1, client, first, qs))
            // extensions: every request is acceptable against the table as it was, and only term_max of the named claims is rewritten
            &&& c1 == put_claims_spec(c0, ext_updates(c0, xs, xs.len() as int))
            &&& (forall|i: int| 0 <= i < xs.len() ==> ext_ok(c0, #[trigger] xs[i], policy, epoch))
            &&& hook_extended(c0, c1, xs, xs.len() as int, policy, epoch)
            &&& claims_wf(c1)
            &&& res->Ok_0.allocation_results.codes().len() == (qs.len() as u32) as nat && res->Ok_0.extension_results.codes().len() == (xs.len() as u32) as nat
        }),
//@ loop 0
            invariant
                __vx_i0 <= __vx_v0.len(), __vx_v0@ == reqs.allocations@,
                *rt == (Rt { validated: rt.validated, ..*old(rt) }),
                new_allocs@.len() == __vx_i0,
                forall|j: int| 0 <= j < __vx_i0 ==> new_allocs@[j] == alloc_of(client, #[trigger] reqs.allocations@[j])
                    && valid_new_alloc(reqs.allocations@[j], rt_policy(), curr_epoch) && is_miner(reqs.allocations@[j].provider),
                datacap_total@ == sum_req_sizes(reqs.allocations@, __vx_i0 as int),
            decreases __vx_v0.len() - __vx_i0,
//@ loop 1
            invariant
                __vx_i1 <= __vx_v1.len(), __vx_v1@ == reqs.extensions@,
                *rt == (Rt { validated: rt.validated, ..*old(rt) }),
                claims.view() == vclaims_of(st),
                updated_claims@ == ext_updates(vclaims_of(st), reqs.extensions@, __vx_i1 as int),
                forall|j: int| 0 <= j < __vx_i1 ==> ext_ok(vclaims_of(st), #[trigger] reqs.extensions@[j], rt_policy(), curr_epoch),
                extension_total@ == sum_ext_sizes(vclaims_of(st), reqs.extensions@, __vx_i1 as int),
                datacap_total@ == sum_req_sizes(reqs.allocations@, reqs.allocations@.len() as int) + sum_ext_sizes(vclaims_of(st), reqs.extensions@, __vx_i1 as int),
            decreases __vx_v1.len() - __vx_i1,
//@ before "AllocationsResponse"
        proof {
            let s0 = rt_state::<State>(old(rt).state_id@);
            assert(new_allocs@ =~= allocs_for(client, reqs.allocations@));
            lemma_exact_tokens(tokens_received.amount@, datacap_total@);
            lemma_hook_extended(vclaims_of(s0), reqs.extensions@, reqs.extensions@.len() as int, rt_policy(), curr_epoch);
            if ids_below(allocs_of(s0), s0.next_allocation_id as int) {
                lemma_allocs_created(allocs_of(s0), client, s0.next_allocation_id as int, reqs.allocations@);
            }
        }
//@ end

// ======================= GetClaims: what the registry answers when a miner asks for its claims (read by the miner's extension path, C10) =======================
/// the claims found among the first `n` ids, in order
pub open spec fn found_claims(c: CMap, provider: ActorID, ids: Seq<ClaimID>, n: int) -> Seq<Claim>
    decreases n
{
    if n <= 0 { Seq::empty() }
    else if c.dom().contains((provider, ids[n - 1])) { found_claims(c, provider, ids, n - 1).push(c[(provider, ids[n - 1])]) }
    else { found_claims(c, provider, ids, n - 1) }
}
/// one verdict per id: 0 found, 17 (NOT_FOUND) otherwise
pub open spec fn found_codes(c: CMap, provider: ActorID, ids: Seq<ClaimID>, codes: Seq<u32>, n: int) -> bool {
    codes.len() == n && forall|i: int| 0 <= i < n ==> #[trigger] codes[i] == (if c.dom().contains((provider, ids[i])) { 0u32 } else { 17u32 })
}
//@ fn actors/verifreg/src/lib.rs Actor::get_claims free ret=res sub0="state :: get_claim=>get_claim"
    requires old(rt).validated@.is_none(),
    ensures
        // a pure query: no state committed, nothing sent
        final(rt).tx_log == old(rt).tx_log, final(rt).sends == old(rt).sends, final(rt).state_id == old(rt).state_id,
        res.is_ok() ==> ({
            let c = vclaims_of(rt_state::<State>(old(rt).state_id@));
            &&& found_codes(c, params.provider, params.claim_ids@, res->Ok_0.batch_info.codes(), params.claim_ids@.len() as int)
            // the claims returned are exactly the recorded claims of the NAMED provider under the given ids, in the order asked, misses skipped
            &&& res->Ok_0.claims@ == found_claims(c, params.provider, params.claim_ids@, params.claim_ids@.len() as int)
        }),
//@ entry
        let ghost ids = params.claim_ids@;
        let ghost rt0 = *rt;
//@ loop 0 iter=it
            invariant
                it.seq() == ids, rt0 == *old(rt), *rt == (Rt { validated: rt.validated, ..rt0 }), st == rt_state::<State>(rt0.state_id@),
                st_claims.view() == vclaims_of(st), batch_gen.expect() == ids.len(),
                found_codes(vclaims_of(st), params.provider, ids, batch_gen.codes(), it.index@ as int),
                claims@ == found_claims(vclaims_of(st), params.provider, ids, it.index@ as int),
//@ end
/// number of verdicts 0 (what BatchReturn::success_count holds)
pub open spec fn succ_count(codes: Seq<u32>) -> nat
    decreases codes.len()
{ if codes.len() == 0 { 0 } else { succ_count(codes.drop_last()) + (if codes.last() == 0 { 1nat } else { 0nat }) } }
/// the miner accepts an answer only when it reports at least as many successes as ids asked (`get_claims` in actors/miner/src/lib.rs):
/// then every id was found, and claim i of the answer IS the registry's claim (provider, ids[i])
pub proof fn lemma_all_found(c: CMap, provider: ActorID, ids: Seq<ClaimID>, codes: Seq<u32>, n: int)
    requires 0 <= n <= ids.len(), found_codes(c, provider, ids, codes, n),
    ensures
        succ_count(codes) <= n, found_claims(c, provider, ids, n).len() == succ_count(codes),
        succ_count(codes) >= n ==> (forall|i: int| 0 <= i < n ==> c.dom().contains((provider, #[trigger] ids[i])) && found_claims(c, provider, ids, n)[i] == c[(provider, ids[i])]),
    decreases n
{
    if n > 0 {
        let c1 = codes.drop_last();
        assert(found_codes(c, provider, ids, c1, n - 1));
        lemma_all_found(c, provider, ids, c1, n - 1);
        assert(codes.last() == codes[n - 1]);
        if succ_count(codes) >= n {
            assert(codes[n - 1] == 0 && succ_count(c1) >= n - 1);
            let f = found_claims(c, provider, ids, n);
            let f1 = found_claims(c, provider, ids, n - 1);
            assert(f == f1.push(c[(provider, ids[n - 1])]));
            assert forall|i: int| 0 <= i < n implies c.dom().contains((provider, #[trigger] ids[i])) && f[i] == c[(provider, ids[i])] by {
                if i < n - 1 { assert(f[i] == f1[i]); }
            }
        }
    } else {
        assert(codes.len() == 0);
    }
}
} // verus!
fn main() {}
