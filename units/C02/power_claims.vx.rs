// unit: power actor State — claims, thresholded totals, pledge total (C02, C03)
//@ include prelude/core.rs
//@ include prelude/ipld.rs
//@ include prelude/rt.rs
//@ include prelude/policy.rs
//@ include prelude/power.rs
verus! {

//@ const actors/power/src/policy.rs CONSENSUS_MINER_MIN_MINERS
//@ item runtime/src/builtin/reward/smooth/alpha_beta_filter.rs FilterEstimate
//@ item actors/power/src/state.rs Claim
//@ item actors/power/src/state.rs ClaimsMap
//@ item actors/power/src/state.rs State

// ---------------- spec: the consensus-minimum rule, written from the statement ----------------
/// what a claim contributes to the *thresholded* network totals
pub open spec fn contrib_raw(c: Claim) -> int { if c.raw_byte_power@ >= min_power_spec(c.window_post_proof_type) { c.raw_byte_power@ } else { 0 } }
pub open spec fn contrib_qa(c: Claim) -> int { if c.raw_byte_power@ >= min_power_spec(c.window_post_proof_type) { c.quality_adj_power@ } else { 0 } }
pub open spec fn above(c: Claim) -> int { if c.raw_byte_power@ >= min_power_spec(c.window_post_proof_type) { 1 } else { 0 } }

/// fields of State not touched by claim bookkeeping
pub open spec fn st_rest_eq(a: State, b: State) -> bool {
    &&& a.total_pledge_collateral == b.total_pledge_collateral
    &&& a.this_epoch_raw_byte_power == b.this_epoch_raw_byte_power
    &&& a.this_epoch_quality_adj_power == b.this_epoch_quality_adj_power
    &&& a.this_epoch_pledge_collateral == b.this_epoch_pledge_collateral
    &&& a.this_epoch_qa_power_smoothed == b.this_epoch_qa_power_smoothed
    &&& a.miner_count == b.miner_count
    &&& a.ramp_start_epoch == b.ramp_start_epoch
    &&& a.ramp_duration_epochs == b.ramp_duration_epochs
    &&& a.cron_event_queue == b.cron_event_queue
    &&& a.first_cron_epoch == b.first_cron_epoch
    &&& a.claims == b.claims
    &&& a.proof_validation_batch == b.proof_validation_batch
}

//@ fn actors/power/src/state.rs set_claim
    ensures
        r.is_ok() ==> claim.raw_byte_power@ >= 0 && claim.quality_adj_power@ >= 0
            && final(claims).view() == old(claims).view().insert(*a, claim),
        r.is_err() ==> final(claims).view() == old(claims).view(),
//@ end

//@ fn actors/power/src/state.rs State::add_to_claim
    requires
        i64::MIN < old(self).miner_above_min_power_count < i64::MAX,
    ensures
        st_rest_eq(*old(self), *final(self)),
        r.is_ok() ==> old(claims).view().dom().contains(*miner) && ({
            let oc = old(claims).view()[*miner];
            let nc = final(claims).view()[*miner];
            // the claim moves by exactly the delta; every other claim is untouched
            &&& final(claims).view() == old(claims).view().insert(*miner, nc)
            &&& nc.raw_byte_power@ == oc.raw_byte_power@ + power@
            &&& nc.quality_adj_power@ == oc.quality_adj_power@ + qa_power@
            &&& nc.window_post_proof_type == oc.window_post_proof_type
            &&& nc.raw_byte_power@ >= 0 && nc.quality_adj_power@ >= 0
            // committed totals move by the delta
            &&& final(self).total_bytes_committed@ == old(self).total_bytes_committed@ + power@
            &&& final(self).total_qa_bytes_committed@ == old(self).total_qa_bytes_committed@ + qa_power@
            // thresholded totals: remove the old contribution, add the new one (consensus-minimum rule)
            &&& final(self).total_raw_byte_power@ == old(self).total_raw_byte_power@ - contrib_raw(oc) + contrib_raw(nc)
            &&& final(self).total_quality_adj_power@ == old(self).total_quality_adj_power@ - contrib_qa(oc) + contrib_qa(nc)
            &&& final(self).miner_above_min_power_count == old(self).miner_above_min_power_count - above(oc) + above(nc)
            &&& final(self).miner_above_min_power_count >= 0
        }),
        r.is_err() ==> final(claims).view() == old(claims).view(),
//@ end

//@ fn actors/power/src/state.rs State::delete_claim
    requires
        i64::MIN < old(self).miner_above_min_power_count < i64::MAX,
    ensures
        st_rest_eq(*old(self), *final(self)),
        r.is_ok() && !old(claims).view().dom().contains(*miner) ==> final(claims).view() == old(claims).view()
            && final(self).total_raw_byte_power == old(self).total_raw_byte_power
            && final(self).total_quality_adj_power == old(self).total_quality_adj_power
            && final(self).total_bytes_committed == old(self).total_bytes_committed
            && final(self).total_qa_bytes_committed == old(self).total_qa_bytes_committed
            && final(self).miner_above_min_power_count == old(self).miner_above_min_power_count,
        r.is_ok() && old(claims).view().dom().contains(*miner) ==> ({
            let oc = old(claims).view()[*miner];
            // the claim is gone, nothing else is; all totals lose exactly its contribution
            &&& final(claims).view() == old(claims).view().remove(*miner)
            &&& final(self).total_bytes_committed@ == old(self).total_bytes_committed@ - oc.raw_byte_power@
            &&& final(self).total_qa_bytes_committed@ == old(self).total_qa_bytes_committed@ - oc.quality_adj_power@
            &&& final(self).total_raw_byte_power@ == old(self).total_raw_byte_power@ - contrib_raw(oc)
            &&& final(self).total_quality_adj_power@ == old(self).total_quality_adj_power@ - contrib_qa(oc)
            &&& final(self).miner_above_min_power_count >= 0
        }),
//@ end

//@ fn actors/power/src/state.rs State::current_total_power
    ensures
        // below the minimum number of above-threshold miners every committed byte counts; otherwise only thresholded power
        self.miner_above_min_power_count < 4 ==> r.0@ == self.total_bytes_committed@ && r.1@ == self.total_qa_bytes_committed@,
        self.miner_above_min_power_count >= 4 ==> r.0@ == self.total_raw_byte_power@ && r.1@ == self.total_quality_adj_power@,
//@ end

//@ fn actors/power/src/state.rs State::add_pledge_total
    ensures
        final(self).total_pledge_collateral@ == old(self).total_pledge_collateral@ + amount@,
        final(self).claims == old(self).claims,
        final(self).total_raw_byte_power == old(self).total_raw_byte_power,
        final(self).total_quality_adj_power == old(self).total_quality_adj_power,
        final(self).total_bytes_committed == old(self).total_bytes_committed,
        final(self).total_qa_bytes_committed == old(self).total_qa_bytes_committed,
        final(self).miner_above_min_power_count == old(self).miner_above_min_power_count,
        final(self).miner_count == old(self).miner_count,
        final(self).cron_event_queue == old(self).cron_event_queue,
        final(self).first_cron_epoch == old(self).first_cron_epoch,
//@ end

} // verus!
fn main() {}
