// unit: power actor State — claims, thresholded totals, pledge total (C02, C03)
//@ include prelude/core.rs
//@ include prelude/ipld.rs
//@ include prelude/rt.rs
//@ include prelude/policy.rs
//@ include prelude/power.rs
verus! {

//@ include units/shared/power_state.inc
} // verus!
fn main() {}
