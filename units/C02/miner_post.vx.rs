// unit: miner METHODS through which proven power reaches the power actor — submit_windowed_post, declare_faults, declare_faults_recovered,
// dispute_windowed_post: closure + whole method each (C02; also C11 caller checks, C15 dispute penalty)
// Top-level statement (C02, over the ghost send log): the miner's credited power changes only by ONE UpdateClaimedPower message whose raw / qa
// deltas are exactly what the deadline-level operation reported (`credited_power_changes_by`), sent after the state was saved, and by no message
// when that delta is zero; declaring a recovery sends none.
// What is real and what is assumed: the four methods, their transaction closures, request_update_power, the deadline arithmetic
// (DeadlineInfo::{is_open, has_elapsed, fault_cutoff_passed, next_not_elapsed, quant_spec}, declaration_deadline_info,
// validate_fr_declaration_deadline, deadline_available_for_optimistic_post_dispute, State::current_proving_period_start, ...) and the
// Deadlines / State persistence are the REAL bodies, extracted whole: no R21 region / slice was needed, NO statement of any closure is dropped.
// Everything of deadline_state.rs the methods call (Deadline::record_proven_sectors, record_post_proofs, record_faults,
// declare_faults_recovered, take_post_proofs, load_partitions_for_dispute) is an opaque ASSUMED stub in prelude/miner_post_assumed.rs
// (`dlx_*` = "what that call returned", a deterministic function of its inputs), as are Sectors, the sector maps of sector_map.rs, proof
// verification and the randomness syscall.
// Substitutions (tool limits, listed in the evidence): the caller set `info.control_addresses.iter().chain(&[worker, owner])` is collected by
// vx_control_worker_owner (iterator adapters); `ext::power::CurrentTotalPowerReturn` / `CURRENT_TOTAL_POWER_METHOD` are extracted at top level
// (the shared `ext` module cannot be reopened); `loopend 0` of declare_faults / declare_faults_recovered (see the NB there).
//@ include prelude/core.rs
//@ include prelude/ipld.rs
//@ include prelude/bitfield.rs
//@ include prelude/rt.rs
//@ include prelude/singletons.rs
//@ include prelude/policy.rs
//@ include prelude/cbor.rs
verus! {
//@ item actors/miner/src/policy.rs VestSpec
//@ item runtime/src/builtin/reward/smooth/alpha_beta_filter.rs FilterEstimate
}
//@ include prelude/miner_vesting.rs
//@ include prelude/miner_ext.rs
use std::cmp;
use std::ops;
macro_rules! log_debug { ($($t:tt)*) => { () } }
macro_rules! info { ($($t:tt)*) => { () } }
verus! {
//@ include units/shared/miner_funds.inc
//@ include units/shared/miner_methods.inc
//@ include units/shared/miner_deadline.inc
pub type DealWeight = BigInt;
#[derive(Clone, Copy, PartialEq, Eq, Structural)]
pub struct SectorOnChainInfoFlags { pub bits: u32 }
//@ item actors/miner/src/types.rs SectorOnChainInfo
//@ item actors/miner/src/types.rs PoStPartition
//@ item actors/miner/src/types.rs SubmitWindowedPoStParams
//@ item actors/miner/src/deadline_state.rs PoStResult
//@ item actors/miner/src/deadline_state.rs DisputeInfo
//@ include prelude/miner_post_assumed.rs

pub open spec fn is_power_update(s: SendRec) -> bool { s.to == STORAGE_POWER_ACTOR_ADDR && s.method == ext::power::UPDATE_CLAIMED_POWER_METHOD }
/// the message is a successful UpdateClaimedPower notification carrying exactly (raw, qa)
pub open spec fn power_update_of(s: SendRec, raw: int, qa: int) -> bool {
    is_power_update(s) && s.ok && s.value == 0
        && exists|p: ext::power::UpdateClaimedPowerParams| s.params == Some(IpldBlock { h: #[trigger] cbor_hash(p) }) && p.raw_byte_delta@ == raw && p.quality_adjusted_delta@ == qa
}

//@ fn actors/miner/src/lib.rs request_update_power
    requires !old(rt).in_tx@,
    ensures
        // the power actor is told exactly this delta (nothing when it is zero); the call fails iff the power actor refuses
        delta.raw@ == 0 && delta.qa@ == 0 ==> r.is_ok() && *final(rt) == *old(rt),
        !(delta.raw@ == 0 && delta.qa@ == 0) ==> rt_frame(old(rt), final(rt)) && final(rt).sends@.len() <= old(rt).sends@.len() + 1
            && (forall|i: int| 0 <= i < old(rt).sends@.len() ==> final(rt).sends@[i] == old(rt).sends@[i]),
        !(delta.raw@ == 0 && delta.qa@ == 0) && r.is_ok() ==> rt_pushed(old(rt), final(rt)) && power_update_of(final(rt).sends@.last(), delta.raw@, delta.qa@),
//@ end

//@ fn actors/miner/src/deadline_info.rs DeadlineInfo::is_open ops=keep
    ensures r == (self.open <= self.current_epoch < self.close),
//@ end
//@ fn actors/miner/src/deadline_info.rs DeadlineInfo::quant_spec ops=keep
    requires self.close > i64::MIN,
    ensures r.unit == self.w_post_proving_period, r.offset == self.close - 1,
//@ end
//@ fn actors/miner/src/policy.rs load_partitions_sectors_max ops=keep
    requires partition_sector_count > 0,
    ensures r <= policy.addressed_partitions_max,
//@ end
//@ fn actors/miner/src/lib.rs check_valid_post_proof_type
//@ end

// ======================= submit_windowed_post: the transaction closure =======================
/// who may submit: a control address, the worker or the owner
pub open spec fn may_operate(i: MinerInfo, a: Address) -> bool { i.control_addresses@.contains(a) || a == i.worker || a == i.owner }
pub open spec fn swp_quant(di: DeadlineInfo) -> QuantSpec { QuantSpec { unit: rt_policy().wpost_proving_period, offset: (di.close - 1) as ChainEpoch } }
pub open spec fn swp_fexp(di: DeadlineInfo) -> ChainEpoch { (di.close - 1 + rt_policy().fault_max_age) as ChainEpoch }
/// what Deadline::record_proven_sectors reported for this submission (a function of the pre-state and the message)
pub open spec fn swp_result(s0: State, epoch: ChainEpoch, idx: u64, posts: Seq<PoStPartition>) -> PoStResult {
    let di = di_at(rt_policy(), s0.proving_period_start, epoch);
    let d0 = deadline_at(deadlines_of(s0)->Some_0, idx as int)->Some_0;
    dlx_rps_result(d0, s0.sectors, info_of(s0)->Some_0.sector_size, swp_quant(di), swp_fexp(di), posts)
}
pub open spec fn swp_pre(s0: State, epoch: ChainEpoch) -> bool {
    &&& pol_ok(rt_policy()) && small(s0.proving_period_start as int) && 0 <= epoch < 0x0800_0000_0000_0000
    &&& (deadlines_of(s0).is_some() ==> deadlines_of(s0)->Some_0.due@.len() == rt_policy().wpost_period_deadlines)
    // data invariant of MinerInfo (set from the proof type by the constructor): a partition holds at least one sector
    &&& (info_of(s0).is_some() ==> info_of(s0)->Some_0.window_post_partition_sectors > 0)
}
/// the acceptance conditions of a window PoSt and its effect on the stored deadline
pub open spec fn swp_accepted(s0: State, s1: State, caller: Address, epoch: ChainEpoch, params: SubmitWindowedPoStParams) -> bool {
    let i0 = info_of(s0)->Some_0;
    let di = di_at(rt_policy(), s0.proving_period_start, epoch);
    let ds0 = deadlines_of(s0)->Some_0;
    let d0 = deadline_at(ds0, params.deadline as int)->Some_0;
    let posts = params.partitions@;
    let pr = swp_result(s0, epoch, params.deadline, posts);
    let d1 = dlx_rps_deadline(d0, s0.sectors, i0.sector_size, swp_quant(di), swp_fexp(di), posts);
    let d2 = if pr.recovered_power.raw@ == 0 && pr.recovered_power.qa@ == 0 { dlx_rpp_deadline(d1, pr.partitions@, params.proofs@) } else { d1 };
    &&& info_of(s0).is_some() && deadlines_of(s0).is_some() && deadline_at(ds0, params.deadline as int).is_some()
    // submitted by a control address, the worker or the owner
    &&& may_operate(i0, caller)
    // "the proof must be for the currently open deadline": the deadline named is the one whose challenge window contains the current epoch
    &&& params.deadline == di.index && di.index < rt_policy().wpost_period_deadlines && di.open <= epoch < di.close
    // committed to the chain after the challenge was drawn and before now, with the chain's ticket randomness of that epoch
    &&& di.challenge <= params.chain_commit_epoch < epoch
    &&& params.chain_commit_rand.0@ == rt_ticket_randomness(DomainSeparationTag::PoStChainCommit, params.chain_commit_epoch)
    // "at most once per partition per deadline": none of the partitions was posted in this window before; they are recorded as posted now
    &&& d0.partitions_posted@.disjoint(post_index_set(posts))
    // something is actually proven
    &&& !(pr.sectors@.difference(pr.ignored_sectors@) =~= Set::<u64>::empty())
    // optimistic acceptance: the proof is verified now only when power is recovered; otherwise it is recorded for dispute
    &&& (!(pr.recovered_power.raw@ == 0 && pr.recovered_power.qa@ == 0) ==> exists|infos: Seq<SectorOnChainInfo>| post_verifies(di.challenge, infos, params.proofs@))
    // nothing of the miner state moves but the deadlines table, in which exactly the proven deadline is replaced by what the deadline-level
    // operations produced
    &&& s1 == (State { deadlines: s1.deadlines, ..s0 })
    &&& deadlines_of(s1).is_some() && ({
        let ds1 = deadlines_of(s1)->Some_0;
        &&& ds1.due@.len() == ds0.due@.len() && deadline_at(ds1, params.deadline as int) == Some(d2)
        &&& d2.partitions_posted@ =~= d0.partitions_posted@.union(post_index_set(posts))
        &&& forall|i: int| 0 <= i < ds0.due@.len() && i != params.deadline ==> ds1.due@[i] == ds0.due@[i]
    })
}

//@ fn actors/miner/src/lib.rs Actor::submit_windowed_post closure=0 as=swp_tx0 params="state: &mut State, rt: &mut Rt, mut params: SubmitWindowedPoStParams, current_epoch: ChainEpoch" retty="Result<PoStResult, ActorError>" ret=res sub0="info . control_addresses . iter () . chain (& [info . worker , info . owner])=>&vx_control_worker_owner(&info)"
    requires
        swp_pre(*old(state), current_epoch), current_epoch == old(rt).epoch, old(rt).validated@.is_none(),
        params.proofs@.len() == 1, params.deadline < rt_policy().wpost_period_deadlines,
        // a message cannot carry more partitions than its size allows: keeps `max_proof_size * params.partitions.len()` (computed BEFORE the
        // partition-count limit is checked) within usize; the on-chain build has overflow-checks on, so an overflow would abort, not wrap
        params.partitions@.len() <= 0x1_0000,
    ensures
        *final(rt) == (Rt { validated: final(rt).validated, ..*old(rt) }),
        /*C11*/ res.is_ok() ==> final(rt).validated@.is_some(),
        res.is_ok() ==> swp_accepted(*old(state), *final(state), old(rt).msg.caller, current_epoch, params)
            && res->Ok_0 == swp_result(*old(state), current_epoch, params.deadline, params.partitions@),
//@ before "let max_size"
            proof { assert(max_proof_size * params.partitions@.len() <= 0x1000 * 0x1_0000) by (nonlinear_arith) requires max_proof_size <= 0x1000, params.partitions@.len() <= 0x1_0000; }
//@ end

// ======================= fault / recovery declarations: which instance of a deadline a declaration is for =======================
//@ item actors/miner/src/types.rs FaultDeclaration
//@ item actors/miner/src/types.rs DeclareFaultsParams
//@ item actors/miner/src/types.rs RecoveryDeclaration
//@ item actors/miner/src/types.rs DeclareFaultsRecoveredParams
//@ fn actors/miner/src/state.rs State::current_proving_period_start ops=keep
    requires pol_ok(*policy), small(self.proving_period_start as int), 0 <= current_epoch < 0x1000_0000_0000_0000,
    ensures r == di_at(*policy, self.proving_period_start, current_epoch).period_start, r <= current_epoch < r + policy.wpost_proving_period,
//@ end
//@ fn actors/miner/src/deadline_info.rs DeadlineInfo::has_elapsed ops=keep
    ensures r == (self.current_epoch >= self.close),
//@ end
//@ fn actors/miner/src/deadline_info.rs DeadlineInfo::fault_cutoff_passed ops=keep
    ensures r == (self.current_epoch >= self.fault_cutoff),
//@ end
/// the protocol parameters a DeadlineInfo carries
pub open spec fn di_pol(d: DeadlineInfo) -> Policy {
    Policy { wpost_period_deadlines: d.w_post_period_deadlines, wpost_proving_period: d.w_post_proving_period, wpost_challenge_window: d.w_post_challenge_window,
        wpost_challenge_lookback: d.w_post_challenge_lookback, fault_declaration_cutoff: d.fault_declaration_cutoff, ..rt_policy() }
}
/// DeadlineInfo::next_not_elapsed: the same deadline index, moved forward by whole proving periods until its window has not closed yet
pub open spec fn di_next(d: DeadlineInfo) -> DeadlineInfo {
    if d.current_epoch < d.close { d } else {
        let periods = 1 + rust_div(d.current_epoch - d.close, d.w_post_proving_period as int);
        di_of(di_pol(d), (d.period_start + d.w_post_proving_period * periods) as ChainEpoch, d.index, d.current_epoch)
    }
}
/// a DeadlineInfo built by new_deadline_info for a valid index, with epochs of chain magnitude
pub open spec fn di_std(d: DeadlineInfo, p: Policy) -> bool {
    &&& pol_ok(p) && d.index < p.wpost_period_deadlines && -0x0800_0000_0000_0000 < d.period_start < 0x0800_0000_0000_0000 && 0 <= d.current_epoch < 0x0800_0000_0000_0000
    &&& d == di_of(p, d.period_start, d.index, d.current_epoch)
}
pub proof fn lemma_di_next(d: DeadlineInfo, p: Policy)
    requires di_std(d, p), rt_policy() == p
    ensures
        di_pol(d) == p,
        0 < p.wpost_proving_period <= 0x1_0000_0000_0000,
        d.period_start <= d.open < d.close <= d.period_start + p.wpost_proving_period,
        d.current_epoch >= d.close ==> ({
            let periods = 1 + rust_div(d.current_epoch - d.close, p.wpost_proving_period as int);
            let ps = d.period_start + p.wpost_proving_period * periods;
            &&& periods >= 1 && p.wpost_proving_period * periods <= d.current_epoch - d.close + p.wpost_proving_period
            &&& d.current_epoch - d.close < p.wpost_proving_period * periods
            &&& small(ps) && di_next(d).period_start == ps
        }),
        // the instance found has not closed, and it is the FIRST such instance
        di_next(d).index == d.index && di_next(d).current_epoch == d.current_epoch,
        d.current_epoch < di_next(d).close, di_next(d).close - p.wpost_proving_period <= d.current_epoch || di_next(d) == d,
        di_next(d).close == di_next(d).open + p.wpost_challenge_window,
        di_next(d).fault_cutoff == di_next(d).open - p.fault_declaration_cutoff,
        di_next(d).w_post_proving_period == p.wpost_proving_period,
        -0x0800_0000_0000_0000 < di_next(d).close < 0x0A00_0000_0000_0000,
{
    lemma_pol(p);
    let w = p.wpost_challenge_window as int;
    let n = p.wpost_period_deadlines as int;
    let i = d.index as int;
    assert(0 <= i * w && (i + 1) * w <= n * w && (i + 1) * w == i * w + w) by (nonlinear_arith) requires 0 <= i < n, w > 0;
    assert(n * w == w * n) by (nonlinear_arith);
    if d.current_epoch >= d.close {
        let gap = d.current_epoch - d.close;
        let wpp = p.wpost_proving_period as int;
        lemma_trunc(gap, wpp);
        let q = rust_div(gap, wpp);
        assert(q >= 0) by (nonlinear_arith) requires gap - wpp < wpp * q, gap >= 0, wpp > 0;
        assert(wpp * (1 + q) == wpp * q + wpp) by (nonlinear_arith);
    }
}
//@ fn actors/miner/src/deadline_info.rs DeadlineInfo::next_not_elapsed ops=keep
    requires di_std(self, rt_policy()),
    ensures r == di_next(self),
//@ entry
        proof { lemma_di_next(self, rt_policy()); }
//@ end
/// declaration_deadline_info: the instance of deadline `idx` a fault / recovery declaration made now is for
pub open spec fn decl_target(period_start: ChainEpoch, idx: u64, epoch: ChainEpoch) -> DeadlineInfo { di_next(di_of(rt_policy(), period_start, idx, epoch)) }
//@ fn actors/miner/src/lib.rs declaration_deadline_info
    requires *policy == rt_policy(), pol_ok(*policy), -0x0800_0000_0000_0000 < period_start < 0x0800_0000_0000_0000, 0 <= current_epoch < 0x0800_0000_0000_0000,
    ensures
        r.is_ok() <==> deadline_idx < policy.wpost_period_deadlines,
        r.is_ok() ==> r->Ok_0 == decl_target(period_start, deadline_idx, current_epoch),
//@ end
//@ fn actors/miner/src/lib.rs validate_fr_declaration_deadline
    ensures r.is_ok() <==> deadline.current_epoch < deadline.fault_cutoff,
//@ end
//@ fn actors/miner/src/lib.rs consensus_fault_active ops=keep
    ensures r == (curr_epoch <= info.consensus_fault_elapsed),
//@ end

// ---- the declarations of a message, merged per deadline and partition (DeadlineSectorMap) ----
pub type DeclMap = Map<u64, Map<u64, Set<u64>>>;
pub open spec fn fault_decls(f: Seq<FaultDeclaration>, n: int) -> DeclMap decreases n {
    if n <= 0 { Map::<u64, Map<u64, Set<u64>>>::empty() } else { dsm_add(fault_decls(f, n - 1), f[n - 1].deadline, f[n - 1].partition, f[n - 1].sectors@) }
}
pub open spec fn recovery_decls(f: Seq<RecoveryDeclaration>, n: int) -> DeclMap decreases n {
    if n <= 0 { Map::<u64, Map<u64, Set<u64>>>::empty() } else { dsm_add(recovery_decls(f, n - 1), f[n - 1].deadline, f[n - 1].partition, f[n - 1].sectors@) }
}
/// the deadline instance a declaration for deadline `idx` is for, given the miner's state
pub open spec fn df_target(s0: State, epoch: ChainEpoch, idx: u64) -> DeadlineInfo {
    decl_target(di_at(rt_policy(), s0.proving_period_start, epoch).period_start, idx, epoch)
}
pub open spec fn df_quant(t: DeadlineInfo) -> QuantSpec { QuantSpec { unit: t.w_post_proving_period, offset: (t.close - 1) as ChainEpoch } }
pub open spec fn df_fexp(t: DeadlineInfo) -> ChainEpoch { (t.close - 1 + rt_policy().fault_max_age) as ChainEpoch }
pub open spec fn df_d0(s0: State, idx: u64) -> Deadline { deadline_at(deadlines_of(s0)->Some_0, idx as int)->Some_0 }
/// the power delta Deadline::record_faults reported for the declarations of deadline `idx`
pub open spec fn df_delta_at(s0: State, epoch: ChainEpoch, idx: u64, decl: Map<u64, Set<u64>>) -> PowerPair {
    let t = df_target(s0, epoch, idx);
    dlx_rf_delta(df_d0(s0, idx), s0.sectors, info_of(s0)->Some_0.sector_size, df_quant(t), df_fexp(t), decl)
}
pub open spec fn df_deadline_at(s0: State, epoch: ChainEpoch, idx: u64, decl: Map<u64, Set<u64>>) -> Deadline {
    let t = df_target(s0, epoch, idx);
    dlx_rf_deadline(df_d0(s0, idx), s0.sectors, info_of(s0)->Some_0.sector_size, df_quant(t), df_fexp(t), decl)
}
/// "the accumulated per-deadline deltas": the sum over the declared deadlines (in the order of the map's keys) of what each reported
pub open spec fn df_sum_raw(s0: State, epoch: ChainEpoch, m: DeclMap, keys: Seq<u64>, n: int) -> int decreases n {
    if n <= 0 { 0 } else { df_sum_raw(s0, epoch, m, keys, n - 1) + df_delta_at(s0, epoch, keys[n - 1], m[keys[n - 1]]).raw@ }
}
pub open spec fn df_sum_qa(s0: State, epoch: ChainEpoch, m: DeclMap, keys: Seq<u64>, n: int) -> int decreases n {
    if n <= 0 { 0 } else { df_sum_qa(s0, epoch, m, keys, n - 1) + df_delta_at(s0, epoch, keys[n - 1], m[keys[n - 1]]).qa@ }
}
/// a declaration for deadline `k` is timely: the instance it is for has not reached its fault cutoff — in particular it is not the deadline
/// whose challenge window is open now
pub open spec fn decl_timely(s0: State, epoch: ChainEpoch, k: u64) -> bool {
    &&& k < rt_policy().wpost_period_deadlines
    &&& epoch < df_target(s0, epoch, k).fault_cutoff && epoch < df_target(s0, epoch, k).open
    &&& k != di_at(rt_policy(), s0.proving_period_start, epoch).index
}
/// the current proving period (as computed from the period offset) contains the current epoch
pub proof fn lemma_cur_period(s0: State, epoch: ChainEpoch)
    requires swp_pre(s0, epoch)
    ensures ({
        let ps = di_at(rt_policy(), s0.proving_period_start, epoch).period_start;
        &&& epoch - rt_policy().wpost_proving_period < ps <= epoch && 0 < rt_policy().wpost_proving_period <= 0x1_0000_0000_0000
        &&& forall|k: u64| k < rt_policy().wpost_period_deadlines ==> di_std(#[trigger] di_of(rt_policy(), ps, k, epoch), rt_policy())
    }),
{
    let p = rt_policy();
    lemma_pol(p);
    let q = QuantSpec { unit: p.wpost_proving_period, offset: s0.proving_period_start };
    lemma_quantize_up_range(q, epoch as int);
}
pub proof fn lemma_decl_timely(s0: State, epoch: ChainEpoch, k: u64)
    requires swp_pre(s0, epoch), k < rt_policy().wpost_period_deadlines, epoch < df_target(s0, epoch, k).fault_cutoff
    ensures decl_timely(s0, epoch, k)
{
    let p = rt_policy();
    lemma_pol(p);
    let di = di_at(p, s0.proving_period_start, epoch);
    let q = QuantSpec { unit: p.wpost_proving_period, offset: s0.proving_period_start };
    lemma_quantize_up_range(q, epoch as int);
    let base = di_of(p, di.period_start, k, epoch);
    lemma_di_next(base, p);
    if k == di.index {
        // the deadline whose window is open now is its own next non-elapsed instance, and its fault cutoff lies before its opening
        lemma_idx(epoch - di.period_start, p.wpost_challenge_window as int, p.wpost_period_deadlines as int);
        assert(base == di);
    }
}
/// what a declaration message did to the deadlines table: every declared deadline was timely and is replaced by f(k) — what the deadline-level
/// operation produced from ITS declarations; the others are untouched
pub open spec fn decl_applied(s0: State, s1: State, epoch: ChainEpoch, declared: Set<u64>, f: spec_fn(u64) -> Deadline) -> bool {
    let ds0 = deadlines_of(s0)->Some_0;
    &&& deadlines_of(s0).is_some() && deadlines_of(s1).is_some() && ({
        let ds1 = deadlines_of(s1)->Some_0;
        &&& ds1.due@.len() == ds0.due@.len()
        &&& forall|k: u64| #![trigger declared.contains(k)] declared.contains(k) ==> decl_timely(s0, epoch, k) && deadline_at(ds0, k as int).is_some()
                && deadline_at(ds1, k as int) == Some(f(k))
        &&& forall|i: int| 0 <= i < ds0.due@.len() && !(0 <= i <= u64::MAX && declared.contains(i as u64)) ==> #[trigger] ds1.due@[i] == ds0.due@[i]
    })
}
/// loop invariant of the declaration loops, as a predicate over how far the keys have been processed
pub open spec fn decl_inv(s0: State, epoch: ChainEpoch, keys: Seq<u64>, n: int, cur: Deadlines, f: spec_fn(u64) -> Deadline) -> bool {
    let ds0 = deadlines_of(s0)->Some_0;
    &&& cur.due@.len() == ds0.due@.len()
    &&& forall|j: int| 0 <= j < n ==> decl_timely(s0, epoch, #[trigger] keys[j]) && deadline_at(ds0, keys[j] as int).is_some()
            && deadline_at(cur, keys[j] as int) == Some(f(keys[j]))
    &&& forall|i: int| 0 <= i < ds0.due@.len() && (forall|j: int| 0 <= j < n ==> #[trigger] keys[j] != i) ==> #[trigger] cur.due@[i] == ds0.due@[i]
}
pub proof fn lemma_decl_step(s0: State, epoch: ChainEpoch, keys: Seq<u64>, n: int, cur: Deadlines, nxt: Deadlines, f: spec_fn(u64) -> Deadline)
    requires
        0 <= n < keys.len(), decl_inv(s0, epoch, keys, n, cur, f),
        forall|i: int, j: int| 0 <= i < j < keys.len() ==> keys[i] < keys[j],
        decl_timely(s0, epoch, keys[n]), deadline_at(deadlines_of(s0)->Some_0, keys[n] as int).is_some(),
        nxt.due@.len() == cur.due@.len(), keys[n] < cur.due@.len(),
        deadline_at(nxt, keys[n] as int) == Some(f(keys[n])),
        forall|i: int| 0 <= i < cur.due@.len() && i != keys[n] ==> nxt.due@[i] == cur.due@[i],
    ensures decl_inv(s0, epoch, keys, n + 1, nxt, f),
{
    let ds0 = deadlines_of(s0)->Some_0;
    assert forall|j: int| 0 <= j < n + 1 implies decl_timely(s0, epoch, #[trigger] keys[j]) && deadline_at(ds0, keys[j] as int).is_some()
            && deadline_at(nxt, keys[j] as int) == Some(f(keys[j])) by {
        if j < n { assert(keys[j] < keys[n]); assert(deadline_at(cur, keys[j] as int).is_some()); }
    }
    assert forall|i: int| 0 <= i < ds0.due@.len() && (forall|j: int| 0 <= j < n + 1 ==> #[trigger] keys[j] != i) implies #[trigger] nxt.due@[i] == ds0.due@[i] by {
        assert(keys[n] != i);
        assert forall|j: int| 0 <= j < n implies #[trigger] keys[j] != i by {}
    }
}
/// the untouched deadline at the head of the loop is still the original one
pub proof fn lemma_decl_fresh(s0: State, epoch: ChainEpoch, keys: Seq<u64>, n: int, cur: Deadlines, f: spec_fn(u64) -> Deadline)
    requires
        0 <= n < keys.len(), decl_inv(s0, epoch, keys, n, cur, f), keys[n] < cur.due@.len(),
        forall|i: int, j: int| 0 <= i < j < keys.len() ==> keys[i] < keys[j],
    ensures cur.due@[keys[n] as int] == deadlines_of(s0)->Some_0.due@[keys[n] as int],
{
    assert forall|j: int| 0 <= j < n implies #[trigger] keys[j] != keys[n] by { assert(keys[j] < keys[n]); }
}
pub proof fn lemma_decl_end(s0: State, s1: State, epoch: ChainEpoch, m: DeclMap, keys: Seq<u64>, cur: Deadlines, f: spec_fn(u64) -> Deadline)
    requires
        decl_inv(s0, epoch, keys, keys.len() as int, cur, f), deadlines_of(s0).is_some(), deadlines_of(s1) == Some(cur),
        forall|i: int| 0 <= i < keys.len() ==> m.dom().contains(#[trigger] keys[i]),
        forall|k: u64| m.dom().contains(k) ==> exists|i: int| 0 <= i < keys.len() && #[trigger] keys[i] == k,
    ensures decl_applied(s0, s1, epoch, m.dom(), f),
{
    let ds0 = deadlines_of(s0)->Some_0;
    assert forall|k: u64| #![trigger m.dom().contains(k)] m.dom().contains(k) implies decl_timely(s0, epoch, k) && deadline_at(ds0, k as int).is_some()
            && deadline_at(cur, k as int) == Some(f(k)) by {
        let i = choose|i: int| 0 <= i < keys.len() && #[trigger] keys[i] == k;
        assert(decl_timely(s0, epoch, keys[i]));
    }
    assert forall|i: int| 0 <= i < ds0.due@.len() && !(0 <= i <= u64::MAX && m.dom().contains(i as u64)) implies #[trigger] cur.due@[i] == ds0.due@[i] by {
        assert forall|j: int| 0 <= j < keys.len() implies #[trigger] keys[j] != i by { assert(m.dom().contains(keys[j])); }
    }
}

// ======================= declare_faults =======================
pub open spec fn df_f(s0: State, epoch: ChainEpoch, m: DeclMap) -> spec_fn(u64) -> Deadline { |k: u64| df_deadline_at(s0, epoch, k, m[k]) }
pub open spec fn df_declared(s0: State, s1: State, caller: Address, epoch: ChainEpoch, m: DeclMap) -> bool {
    &&& info_of(s0).is_some() && may_operate(info_of(s0)->Some_0, caller)
    // nothing of the miner state moves but the deadlines table
    &&& s1 == (State { deadlines: s1.deadlines, ..s0 })
    // faults are declared only for deadlines whose next challenge window is still more than the fault cutoff away (never the open one); each
    // declared deadline is replaced by what Deadline::record_faults produced from its declarations
    &&& decl_applied(s0, s1, epoch, m.dom(), df_f(s0, epoch, m))
}
//@ fn actors/miner/src/lib.rs Actor::declare_faults closure=0 as=df_tx0 params="state: &mut State, rt: &mut Rt, to_process: &mut DeadlineSectorMap" retty="Result<PowerPair, ActorError>" ret=res sub0="info . control_addresses . iter () . chain (& [info . worker , info . owner])=>&vx_control_worker_owner(&info)"
    requires swp_pre(*old(state), old(rt).epoch), old(rt).validated@.is_none(),
    ensures
        *final(rt) == (Rt { validated: final(rt).validated, ..*old(rt) }),
        /*C11*/ res.is_ok() ==> final(rt).validated@.is_some(),
        final(to_process).view() == old(to_process).view(),
        res.is_ok() ==> ({
            let m = old(to_process).view();
            &&& df_declared(*old(state), *final(state), old(rt).msg.caller, old(rt).epoch, m)
            // the delta returned for the power actor is the sum of the per-deadline deltas Deadline::record_faults reported
            &&& res->Ok_0.raw@ == df_sum_raw(*old(state), old(rt).epoch, m, dsm_keys(m), dsm_keys(m).len() as int)
            &&& res->Ok_0.qa@ == df_sum_qa(*old(state), old(rt).epoch, m, dsm_keys(m), dsm_keys(m).len() as int)
        }),
//@ entry
        let ghost s0 = *state;
        let ghost m = to_process.view();
        let ghost keys = dsm_keys(m);
        let ghost epoch = rt.epoch;
//@ loop 0 iter=it
            invariant
                *rt == (Rt { validated: rt.validated, ..*old(rt) }), rt.validated@.is_some(), *state == s0, curr_epoch == epoch, swp_pre(s0, epoch),
                Some(info) == info_of(s0), sectors.root() == s0.sectors, deadlines_of(s0).is_some(),
                it.seq().len() == keys.len(),
                forall|i: int| 0 <= i < keys.len() ==> (#[trigger] it.seq()[i]).0 == keys[i] && it.seq()[i].1.view() == m[keys[i]],
                forall|i: int| 0 <= i < keys.len() ==> m.dom().contains(#[trigger] keys[i]),
                forall|k: u64| m.dom().contains(k) ==> exists|i: int| 0 <= i < keys.len() && #[trigger] keys[i] == k,
                forall|i: int, j: int| 0 <= i < j < keys.len() ==> keys[i] < keys[j],
                decl_inv(s0, epoch, keys, it.index@ as int, deadlines, df_f(s0, epoch, m)),
                new_fault_power_total.raw@ == df_sum_raw(s0, epoch, m, keys, it.index@ as int),
                new_fault_power_total.qa@ == df_sum_qa(s0, epoch, m, keys, it.index@ as int),
//@ loopstart 0
                let ghost dl0 = deadlines;
                let ghost n = it.index@ as int;
                proof {
                    assert(it.seq()[n].0 == keys[n]);
                    lemma_cur_period(s0, epoch);
                    if keys[n] < rt_policy().wpost_period_deadlines {
                        lemma_di_next(di_of(rt_policy(), di_at(rt_policy(), s0.proving_period_start, epoch).period_start, keys[n], epoch), rt_policy());
                    }
                }
//@ loopend 0
                proof {
                    lemma_decl_timely(s0, epoch, keys[n]);
                    lemma_decl_fresh(s0, epoch, keys, n, dl0, df_f(s0, epoch, m));
                    lemma_decl_step(s0, epoch, keys, n, dl0, deadlines, df_f(s0, epoch, m));
                }
//@ before "Ok (new_fault_power_total)"
        proof { lemma_decl_end(s0, *state, epoch, m, keys, deadlines_of(*state)->Some_0, df_f(s0, epoch, m)); }
//@ end

// NB (tool limit): Verus' parser rejects a loop with an `invariant` clause whose body is immediately followed by a bare block statement
// (`for .. invariant .. { body } { let policy = ..; .. }` — "This block looks like the closure/loop body, but it is followed immediately by
// another block"), and vx's substitutions cannot reach across a brace. The `loopend 0` text `} ; {` below closes the loop body early and opens
// an EMPTY block in its place: the generated text is `for .. { body } ; { } { let policy = .. }` — one empty statement and one empty block
// more than the source, nothing else.
//@ fn actors/miner/src/lib.rs Actor::declare_faults free tx0="State;df_tx0;&mut __vx_st, rt, &mut to_process"
    requires
        !old(rt).in_tx@, old(rt).tx_log@.len() == 0, old(rt).sends@.len() == 0, old(rt).validated@.is_none(),
        swp_pre(rt_state::<State>(old(rt).state_id@), old(rt).epoch),
    ensures
        /*C11*/ r.is_ok() ==> final(rt).validated@.is_some(),
        r.is_ok() ==> final(rt).tx_log@.len() == 1 && ({
            let s0 = rt_state::<State>(old(rt).state_id@);
            let s1 = rt_state::<State>(final(rt).tx_log@[0]);
            let m = fault_decls(params.faults@, params.faults@.len() as int);
            // only worker / control / owner; only deadlines whose fault cutoff has not passed; each declared deadline handled with ITS declarations
            &&& df_declared(s0, s1, old(rt).msg.caller, old(rt).epoch, m)
            // C02: the power actor is told EXACTLY the accumulated per-deadline deltas (each: minus the active power of the newly faulty
            // sectors, as reported by Deadline::record_faults), once, after the state was saved, and nothing when the sum is zero
            &&& credited_power_changes_by(final(rt).sends@, df_sum_raw(s0, old(rt).epoch, m, dsm_keys(m), dsm_keys(m).len() as int),
                    df_sum_qa(s0, old(rt).epoch, m, dsm_keys(m), dsm_keys(m).len() as int))
        }),
//@ entry
        let ghost faults0 = params.faults@;
//@ loop 0 iter=it
            invariant
                *rt == *old(rt), it.seq() == faults0, faults0 == params.faults@,
                to_process.view() == fault_decls(faults0, it.index@ as int),
//@ loopend 0
        } ; {
//@ end

// ======================= declare_faults_recovered =======================
pub open spec fn dfr_deadline_at(s0: State, idx: u64, decl: Map<u64, Set<u64>>) -> Deadline {
    dlx_dfr_deadline(df_d0(s0, idx), s0.sectors, info_of(s0)->Some_0.sector_size, decl)
}
pub open spec fn dfr_f(s0: State, m: DeclMap) -> spec_fn(u64) -> Deadline { |k: u64| dfr_deadline_at(s0, k, m[k]) }
pub open spec fn dfr_declared(s0: State, s1: State, caller: Address, epoch: ChainEpoch, balance: int, m: DeclMap) -> bool {
    &&& info_of(s0).is_some() && may_operate(info_of(s0)->Some_0, caller)
    // "requires fee debt to be repaid first": the unlocked balance covers the whole debt, which is cleared (and burnt by the method)
    &&& unlocked(s0, balance) >= 0 && unlocked(s0, balance) >= s0.fee_debt@ && s1.fee_debt@ == 0
    // no recovery while a consensus fault is active
    &&& epoch > info_of(s0)->Some_0.consensus_fault_elapsed
    // nothing of the miner state moves but the fee debt and the deadlines table
    &&& s1 == (State { deadlines: s1.deadlines, fee_debt: s1.fee_debt, ..s0 })
    &&& decl_applied(s0, s1, epoch, m.dom(), dfr_f(s0, m))
}
//@ fn actors/miner/src/lib.rs Actor::declare_faults_recovered closure=0 as=dfr_tx0 params="state: &mut State, rt: &mut Rt, to_process: &mut DeadlineSectorMap" retty="Result<TokenAmount, ActorError>" ret=res sub0="info . control_addresses . iter () . chain (& [info . worker , info . owner])=>&vx_control_worker_owner(&info)"
    requires swp_pre(*old(state), old(rt).epoch), old(rt).validated@.is_none(),
    ensures
        *final(rt) == (Rt { validated: final(rt).validated, ..*old(rt) }),
        /*C11*/ res.is_ok() ==> final(rt).validated@.is_some(),
        final(to_process).view() == old(to_process).view(),
        res.is_ok() ==> dfr_declared(*old(state), *final(state), old(rt).msg.caller, old(rt).epoch, old(rt).balance@, old(to_process).view())
            && res->Ok_0@ == old(state).fee_debt@,
//@ entry
        let ghost s0 = *state;
        let ghost m = to_process.view();
        let ghost keys = dsm_keys(m);
        let ghost epoch = rt.epoch;
//@ loop 0 iter=it
            invariant
                *rt == (Rt { validated: rt.validated, ..*old(rt) }), rt.validated@.is_some(), curr_epoch == epoch, swp_pre(s0, epoch),
                *state == (State { fee_debt: state.fee_debt, ..s0 }), state.fee_debt@ == 0, fee_to_burn@ == s0.fee_debt@,
                unlocked(s0, rt.balance@) >= 0 && unlocked(s0, rt.balance@) >= s0.fee_debt@,
                Some(info) == info_of(s0), sectors.root() == s0.sectors, deadlines_of(s0).is_some(),
                it.seq().len() == keys.len(),
                forall|i: int| 0 <= i < keys.len() ==> (#[trigger] it.seq()[i]).0 == keys[i] && it.seq()[i].1.view() == m[keys[i]],
                forall|i: int| 0 <= i < keys.len() ==> m.dom().contains(#[trigger] keys[i]),
                forall|k: u64| m.dom().contains(k) ==> exists|i: int| 0 <= i < keys.len() && #[trigger] keys[i] == k,
                forall|i: int, j: int| 0 <= i < j < keys.len() ==> keys[i] < keys[j],
                decl_inv(s0, epoch, keys, it.index@ as int, deadlines, dfr_f(s0, m)),
//@ loopstart 0
                let ghost dl0 = deadlines;
                let ghost n = it.index@ as int;
                proof {
                    assert(it.seq()[n].0 == keys[n]);
                    lemma_cur_period(s0, epoch);
                    assert(di_at(rt_policy(), state.proving_period_start, epoch) == di_at(rt_policy(), s0.proving_period_start, epoch));
                    if keys[n] < rt_policy().wpost_period_deadlines {
                        lemma_di_next(di_of(rt_policy(), di_at(rt_policy(), s0.proving_period_start, epoch).period_start, keys[n], epoch), rt_policy());
                    }
                }
//@ loopend 0
                proof {
                    lemma_decl_timely(s0, epoch, keys[n]);
                    lemma_decl_fresh(s0, epoch, keys, n, dl0, dfr_f(s0, m));
                    lemma_decl_step(s0, epoch, keys, n, dl0, deadlines, dfr_f(s0, m));
                }
//@ before "Ok (fee_to_burn)"
        proof { lemma_decl_end(s0, *state, epoch, m, keys, deadlines_of(*state)->Some_0, dfr_f(s0, m)); }
//@ end

//@ fn actors/miner/src/lib.rs Actor::declare_faults_recovered free tx0="State;dfr_tx0;&mut __vx_st, rt, &mut to_process"
    requires
        !old(rt).in_tx@, old(rt).tx_log@.len() == 0, old(rt).sends@.len() == 0, old(rt).validated@.is_none(),
        swp_pre(rt_state::<State>(old(rt).state_id@), old(rt).epoch),
    ensures
        /*C11*/ r.is_ok() ==> final(rt).validated@.is_some(),
        r.is_ok() ==> final(rt).tx_log@.len() == 1 && ({
            let s0 = rt_state::<State>(old(rt).state_id@);
            let s1 = rt_state::<State>(final(rt).tx_log@[0]);
            let m = recovery_decls(params.recoveries@, params.recoveries@.len() as int);
            let s = final(rt).sends@;
            &&& dfr_declared(s0, s1, old(rt).msg.caller, old(rt).epoch, old(rt).balance@, m)
            // C02 "a sector contributes no power ... while it is faulty": declaring a recovery changes NO credited power now — no message reaches
            // the power actor (recovered power returns with the next successful PoSt); the only message is the burn of the repaid fee debt
            &&& forall|i: int| 0 <= i < s.len() ==> !is_power_update(#[trigger] s[i])
            &&& s.len() == (if s0.fee_debt@ > 0 { 1int } else { 0int })
            &&& (s0.fee_debt@ > 0 ==> is_burn(s[0]) && s[0].value == s0.fee_debt@ && s[0].ok)
        }),
//@ entry
        let ghost rec0 = params.recoveries@;
//@ loop 0 iter=it
            invariant
                *rt == *old(rt), it.seq() == rec0, rec0 == params.recoveries@,
                to_process.view() == recovery_decls(rec0, it.index@ as int),
//@ loopend 0
        } ; {
//@ end

// ======================= dispute_windowed_post =======================
//@ item actors/miner/src/types.rs DisputeWindowedPoStParams
//@ item actors/miner/src/ext.rs CurrentTotalPowerReturn
//@ const actors/miner/src/ext.rs CURRENT_TOTAL_POWER_METHOD
pub open spec fn is_total_power_query(s: SendRec) -> bool { s.to == STORAGE_POWER_ACTOR_ADDR && s.method == CURRENT_TOTAL_POWER_METHOD && s.value == 0 }
//@ fn actors/miner/src/lib.rs request_current_total_power sigsub1="ext :: power :: CurrentTotalPowerReturn=>CurrentTotalPowerReturn" sub1="ext :: power :: CURRENT_TOTAL_POWER_METHOD=>CURRENT_TOTAL_POWER_METHOD"
    requires !old(rt).in_tx@,
    ensures
        rt_pushed(old(rt), final(rt)), rt_frame(old(rt), final(rt)), is_total_power_query(final(rt).sends@.last()),
        r.is_ok() ==> final(rt).sends@.last().ok && r->Ok_0 == deser_spec::<CurrentTotalPowerReturn>(final(rt).sends@.last().ret),
        rt_no_reentry(STORAGE_POWER_ACTOR_ADDR, CURRENT_TOTAL_POWER_METHOD) ==> final(rt).state_id == old(rt).state_id && final(rt).balance == old(rt).balance,
//@ end
/// the dispute window of deadline `idx`: its last challenge window has closed (it is not open now) and less than wpost_dispute_window epochs have
/// passed since
pub open spec fn dispute_window_open(period_start: ChainEpoch, idx: u64, epoch: ChainEpoch) -> bool {
    let t = decl_target(period_start, idx, epoch);
    period_start <= epoch && !(t.open <= epoch < t.close) && epoch < (t.close - rt_policy().wpost_proving_period) + rt_policy().wpost_dispute_window
}
//@ fn actors/miner/src/deadlines.rs deadline_available_for_optimistic_post_dispute ops=keep
    requires
        *policy == rt_policy(), pol_ok(*policy), -0x0800_0000_0000_0000 < proving_period_start < 0x0800_0000_0000_0000, 0 <= current_epoch < 0x0800_0000_0000_0000,
        deadline_idx < policy.wpost_period_deadlines, 0 <= policy.wpost_dispute_window <= 0x1_0000_0000,
    ensures r == dispute_window_open(proving_period_start, deadline_idx, current_epoch),
//@ entry
        proof { lemma_di_next(di_of(rt_policy(), proving_period_start, deadline_idx, current_epoch), rt_policy()); }
//@ end
/// the instance of deadline `idx` whose PoSt is disputed: the most recent one (this proving period's if it has come up already, else the previous one's)
pub open spec fn dwp_target(s0: State, epoch: ChainEpoch, idx: u64) -> DeadlineInfo {
    let di = di_at(rt_policy(), s0.proving_period_start, epoch);
    di_of(rt_policy(), (if di.index < idx { di.period_start - rt_policy().wpost_proving_period } else { di.period_start as int }) as ChainEpoch, idx, epoch)
}
/// the deadline after the disputed submission was taken out of the snapshot, and what the snapshot says about its partitions
pub open spec fn dwp_d1(s0: State, p: DisputeWindowedPoStParams) -> Deadline { dlx_tpp_deadline(df_d0(s0, p.deadline), p.post_index) }
pub open spec fn dwp_info(s0: State, p: DisputeWindowedPoStParams) -> DisputeInfo { dlx_lpd_info(dwp_d1(s0, p), dlx_tpp_partitions(df_d0(s0, p.deadline), p.post_index)) }
/// the power delta Deadline::record_faults reported for the disputed sectors
pub open spec fn dwp_delta(s0: State, epoch: ChainEpoch, p: DisputeWindowedPoStParams) -> PowerPair {
    let t = dwp_target(s0, epoch, p.deadline);
    dlx_rf_delta(dwp_d1(s0, p), dwp_d1(s0, p).sectors_snapshot, info_of(s0)->Some_0.sector_size, swp_quant(t), swp_fexp(t), dwp_info(s0, p).disputed_sectors.view())
}
pub open spec fn dwp_deadline(s0: State, epoch: ChainEpoch, p: DisputeWindowedPoStParams) -> Deadline {
    let t = dwp_target(s0, epoch, p.deadline);
    dlx_rf_deadline(dwp_d1(s0, p), dwp_d1(s0, p).sectors_snapshot, info_of(s0)->Some_0.sector_size, swp_quant(t), swp_fexp(t), dwp_info(s0, p).disputed_sectors.view())
}
pub open spec fn dwp_penalty(s0: State, p: DisputeWindowedPoStParams, reward: ThisEpochRewardReturn, power: CurrentTotalPowerReturn) -> int {
    let dp = dwp_info(s0, p).disputed_power;
    ppiw_spec(reward.this_epoch_reward_smoothed, power.quality_adj_power_smoothed, dp.qa@) + rdwp_spec(info_of(s0)->Some_0.window_post_proof_type, dp.raw@, dp.qa@)
}
pub open spec fn dwp_pre(s0: State, epoch: ChainEpoch) -> bool {
    swp_pre(s0, epoch) && st_wf(s0) && 0 <= rt_policy().wpost_dispute_window <= 0x1_0000_0000
}
pub open spec fn dwp_disputed(s0: State, s1: State, epoch: ChainEpoch, p: DisputeWindowedPoStParams) -> bool {
    let di = di_at(rt_policy(), s0.proving_period_start, epoch);
    let ds0 = deadlines_of(s0)->Some_0;
    let t = dwp_target(s0, epoch, p.deadline);
    &&& info_of(s0).is_some() && deadlines_of(s0).is_some() && deadline_at(ds0, p.deadline as int).is_some() && p.deadline < rt_policy().wpost_period_deadlines
    // only within the dispute window of that deadline
    &&& dispute_window_open(di.period_start, p.deadline, epoch)
    // the disputed proof does NOT verify against the sectors of the snapshot
    &&& exists|infos: Seq<SectorOnChainInfo>| !post_verifies(t.challenge, infos, dlx_tpp_proofs(df_d0(s0, p.deadline), p.post_index))
    // only the deadlines table and the money totals move; the disputed deadline is what take_post_proofs + record_faults produced, the others are untouched
    &&& s1 == (State { deadlines: s1.deadlines, locked_funds: s1.locked_funds, vesting_funds: s1.vesting_funds, fee_debt: s1.fee_debt, ..s0 })
    &&& deadlines_of(s1).is_some() && ({
        let ds1 = deadlines_of(s1)->Some_0;
        &&& ds1.due@.len() == ds0.due@.len() && deadline_at(ds1, p.deadline as int) == Some(dwp_deadline(s0, epoch, p))
        &&& forall|i: int| 0 <= i < ds0.due@.len() && i != p.deadline ==> ds1.due@[i] == ds0.due@[i]
    })
}
//@ fn actors/miner/src/lib.rs Actor::dispute_windowed_post closure=0 as=dwp_tx0 params="st: &mut State, rt: &mut Rt, params: &DisputeWindowedPoStParams, current_epoch: ChainEpoch, epoch_reward: &ThisEpochRewardReturn, power_total: &CurrentTotalPowerReturn" retty="Result<(TokenAmount, TokenAmount, PowerPair, TokenAmount), ActorError>" ret=res suball0="info !=>info !"
    requires dwp_pre(*old(st), current_epoch), current_epoch == old(rt).epoch, params.deadline < rt_policy().wpost_period_deadlines,
    ensures
        *final(rt) == *old(rt),
        res.is_ok() ==> ({
            let s0 = *old(st);
            let s1 = *final(st);
            let (pledge_delta, to_burn, power_delta, to_reward) = res->Ok_0;
            &&& dwp_disputed(s0, s1, current_epoch, *params)
            // the power delta handed back for the power actor is exactly what record_faults reported for the disputed sectors
            &&& power_delta == dwp_delta(s0, current_epoch, *params)
            // penalty: charged in full — what is taken now (burn + reporter's reward) plus what stays as fee debt
            &&& s0.fee_debt@ + dwp_penalty(s0, *params, *epoch_reward, *power_total) == to_burn@ + to_reward@ + s1.fee_debt@
            &&& to_burn@ >= 0 && to_reward@ >= 0
            &&& to_burn@ + to_reward@ <= unlocked(s1, old(rt).balance@) && st_wf(s1)
            &&& pledge_delta@ == s1.locked_funds@ - s0.locked_funds@
        }),
//@ entry
        let ghost s0 = *st;
        proof { lemma_cur_period(*st, current_epoch); lemma_pol(rt_policy()); }
//@ before "let fault_expiration_epoch"
        proof { lemma_di_next(target_deadline, rt_policy()); }
//@ before "let penalty_base"
        let ghost st_mid = *st;
        proof {
            assert(target_deadline == dwp_target(s0, current_epoch, params.deadline));
            assert(!post_verifies(target_deadline.challenge, sector_infos@, dlx_tpp_proofs(df_d0(s0, params.deadline), params.post_index)));
            assert(st_mid == (State { deadlines: st_mid.deadlines, ..s0 }));
            assert(dwp_disputed(s0, st_mid, current_epoch, *params));
            assert(power_delta == dwp_delta(s0, current_epoch, *params));
            assert(penalised_power.raw@ == dwp_info(s0, *params).disputed_power.raw@ && penalised_power.qa@ == dwp_info(s0, *params).disputed_power.qa@);
        }
//@ before "let to_reward = std"
        proof {
            assert(*st == (State { locked_funds: st.locked_funds, vesting_funds: st.vesting_funds, fee_debt: st.fee_debt, ..st_mid }));
            assert(dwp_disputed(s0, *st, current_epoch, *params));
            assert(penalty_target@ == dwp_penalty(s0, *params, *epoch_reward, *power_total));
            assert(s0.fee_debt@ + penalty_target@ == to_burn@ + st.fee_debt@);
        }
//@ end

/// total value of the successful sends, one send at a time
pub broadcast proof fn lemma_sends_value_push(s: Seq<SendRec>, x: SendRec)
    ensures #[trigger] sends_value_ok(s.push(x)) == sends_value_ok(s) + (if x.ok { x.value } else { 0 })
{
    assert(s.push(x).drop_last() =~= s);
}
//@ fn actors/miner/src/lib.rs Actor::dispute_windowed_post free tx0="State;dwp_tx0;&mut __vx_st, rt, &params, current_epoch, &epoch_reward, &power_total"
    requires
        !old(rt).in_tx@, old(rt).tx_log@.len() == 0, old(rt).sends@.len() == 0, old(rt).validated@.is_none(),
        dwp_pre(rt_state::<State>(old(rt).state_id@), old(rt).epoch),
        // explicit assumption: the two read-only queries (ThisEpochReward, CurrentTotalPower) do not call back into this miner
        rt_no_reentry(REWARD_ACTOR_ADDR, ext::reward::THIS_EPOCH_REWARD_METHOD), rt_no_reentry(STORAGE_POWER_ACTOR_ADDR, CURRENT_TOTAL_POWER_METHOD),
    ensures
        /*C11*/ r.is_ok() ==> final(rt).validated@.is_some(),
        r.is_ok() ==> final(rt).tx_log@.len() == 1 && final(rt).sends@.len() >= 2 && ({
            let s0 = rt_state::<State>(old(rt).state_id@);
            let s1 = rt_state::<State>(final(rt).tx_log@[0]);
            let s = final(rt).sends@;
            let pd = dwp_delta(s0, old(rt).epoch, params);
            let nz = !(pd.raw@ == 0 && pd.qa@ == 0);
            // sends: [query reward actor] [query power actor] [update claimed power?] [pay reporter?] [burn?] [notify pledge?]
            &&& s[0].to == REWARD_ACTOR_ADDR && s[0].value == 0 && is_total_power_query(s[1])
            // dispute window, invalid proof, effect on the deadline
            &&& dwp_disputed(s0, s1, old(rt).epoch, params)
            // C02: a successful dispute removes EXACTLY the power Deadline::record_faults reported for the disputed sectors: one UpdateClaimedPower
            // message with that delta, sent after the state was saved, or none when it is zero
            &&& (nz ==> s.len() >= 3 && power_update_of(s[2], pd.raw@, pd.qa@))
            &&& forall|i: int| 0 <= i < s.len() && !(nz && i == 2) ==> !is_power_update(#[trigger] s[i])
            // value leaves the miner only to the burnt-funds actor (penalty) or to the reporter (reward)
            &&& forall|i: int| 0 <= i < s.len() && (#[trigger] s[i]).value != 0 ==> is_burn(s[i]) || (s[i].to == old(rt).msg.caller && s[i].method == METHOD_SEND)
            // C15: the whole penalty is charged — what left the actor (burn + reporter's reward) plus what stays as fee debt
            &&& s0.fee_debt@ + dwp_penalty(s0, params, deser_spec::<ThisEpochRewardReturn>(s[0].ret), deser_spec::<CurrentTotalPowerReturn>(s[1].ret)) == sends_value_ok(s) + s1.fee_debt@
        }),
//@ entry
        broadcast use lemma_sends_value_push;
//@ end

// ======================= submit_windowed_post: the whole method =======================
/// C02 over the ghost send log: the miner's credited power changes by exactly (raw, qa) — one successful UpdateClaimedPower message carrying
/// them and no other message, or no message at all when both are zero
pub open spec fn credited_power_changes_by(sends: Seq<SendRec>, raw: int, qa: int) -> bool {
    if raw == 0 && qa == 0 { sends.len() == 0 } else { sends.len() == 1 && power_update_of(sends[0], raw, qa) }
}
//@ fn actors/miner/src/lib.rs Actor::submit_windowed_post free tx0="State;swp_tx0;&mut __vx_st, rt, params, current_epoch"
    requires
        !old(rt).in_tx@, old(rt).tx_log@.len() == 0, old(rt).sends@.len() == 0, old(rt).validated@.is_none(),
        swp_pre(rt_state::<State>(old(rt).state_id@), old(rt).epoch),
        params.partitions@.len() <= 0x1_0000,
    ensures
        /*C11*/ r.is_ok() ==> final(rt).validated@.is_some(),
        // the state is saved exactly once, and BEFORE any message leaves the actor (no send is possible inside the transaction: `send`
        // requires !in_tx, and the closure's frame leaves the send log alone)
        r.is_ok() ==> final(rt).tx_log@.len() == 1 && ({
            let s0 = rt_state::<State>(old(rt).state_id@);
            let s1 = rt_state::<State>(final(rt).tx_log@[0]);
            let pr = swp_result(s0, old(rt).epoch, params.deadline, params.partitions@);
            // the post was acceptable: open deadline, challenge window, commit epoch + randomness, caller, each partition at most once
            &&& swp_accepted(s0, s1, old(rt).msg.caller, old(rt).epoch, params)
            // C02: the power actor is told EXACTLY the delta the deadline reported for this post (newly proven + recovered - newly faulty),
            // once, and nothing when it is zero
            &&& credited_power_changes_by(final(rt).sends@, pr.power_delta.raw@, pr.power_delta.qa@)
        }),
//@ end
} // verus!
fn main() {}
