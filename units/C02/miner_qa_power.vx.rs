// unit: miner policy — quality-adjusted power of a sector (C02: "the sum of the quality-adjusted power of its sectors")
//@ include prelude/core.rs
//@ include prelude/bigint_shift.rs
use std::ops;
verus! {
pub type DealWeight = BigInt;
/// fvm_shared SectorSize is a C-like enum whose discriminant is the size in bytes; `size as u64` is read as `.v` (substitution below)
#[derive(Clone, Copy)]
pub struct SectorSize { pub v: u64 }
//@ const actors/miner/src/policy.rs SECTOR_QUALITY_PRECISION
//@ lazyconst actors/miner/src/policy.rs QUALITY_BASE_MULTIPLIER
//@ lazyconst actors/miner/src/policy.rs VERIFIED_DEAL_WEIGHT_MULTIPLIER

pub open spec fn p20() -> int { 1048576 }
/// the protocol's sector quality, scaled by 2^20: base space-time counts 10, verified space-time counts 100, averaged over the sector's
/// space-time and normalised by 10 (so 2^20 = "1x" for a sector without verified data, 10 * 2^20 = "10x" for a sector full of it)
pub open spec fn quality_spec(size: int, duration: int, vw: int) -> int {
    let sst = size * duration;
    (((sst - vw) * 10 + vw * 100) * p20() / sst) / 10
}
pub open spec fn qa_spec(size: int, duration: int, vw: int) -> int { size * quality_spec(size, duration, vw) / p20() }

pub proof fn lemma_p20() ensures pow2i(20) == p20() { vstd::arithmetic::power2::lemma2_to64(); }

pub proof fn lemma_quality_bounds(size: int, duration: int, vw: int)
    requires size > 0, duration > 0, 0 <= vw <= size * duration,
    ensures
        p20() <= quality_spec(size, duration, vw) <= 10 * p20(),
        vw == 0 ==> quality_spec(size, duration, vw) == p20(),
        vw == size * duration ==> quality_spec(size, duration, vw) == 10 * p20(),
        size <= qa_spec(size, duration, vw) <= 10 * size,
        vw == 0 ==> qa_spec(size, duration, vw) == size,
        vw == size * duration ==> qa_spec(size, duration, vw) == 10 * size,
{
    let sst = size * duration;
    assert(sst > 0) by (nonlinear_arith) requires size > 0, duration > 0, sst == size * duration;
    let n = (sst - vw) * 10 + vw * 100;
    assert(n == 10 * sst + 90 * vw);
    assert(10 * sst <= n <= 100 * sst);
    let a = n * p20() / sst;
    // 10*2^20*sst <= n*2^20 <= 100*2^20*sst
    assert((10 * p20()) * sst <= n * p20()) by (nonlinear_arith) requires 10 * sst <= n;
    assert(n * p20() <= (100 * p20()) * sst) by (nonlinear_arith) requires n <= 100 * sst;
    vstd::arithmetic::div_mod::lemma_div_is_ordered((10 * p20()) * sst, n * p20(), sst);
    vstd::arithmetic::div_mod::lemma_div_is_ordered(n * p20(), (100 * p20()) * sst, sst);
    vstd::arithmetic::div_mod::lemma_div_multiples_vanish(10 * p20(), sst);
    vstd::arithmetic::div_mod::lemma_div_multiples_vanish(100 * p20(), sst);
    assert(sst * (10 * p20()) == (10 * p20()) * sst) by (nonlinear_arith);
    assert(sst * (100 * p20()) == (100 * p20()) * sst) by (nonlinear_arith);
    assert(10 * p20() <= a <= 100 * p20());
    let q = a / 10;
    assert(q == quality_spec(size, duration, vw));
    assert(p20() <= q <= 10 * p20());
    if vw == 0 { assert(n * p20() == (10 * p20()) * sst) by (nonlinear_arith) requires n == 10 * sst; assert(a == 10 * p20()); }
    if vw == sst { assert(n * p20() == (100 * p20()) * sst) by (nonlinear_arith) requires n == 100 * sst; assert(a == 100 * p20()); }
    // qa = size*q / 2^20
    assert(size * p20() <= size * q) by (nonlinear_arith) requires p20() <= q, size > 0;
    assert(size * q <= (10 * size) * p20()) by (nonlinear_arith) requires q <= 10 * p20(), size > 0;
    vstd::arithmetic::div_mod::lemma_div_is_ordered(size * p20(), size * q, p20());
    vstd::arithmetic::div_mod::lemma_div_is_ordered(size * q, (10 * size) * p20(), p20());
    vstd::arithmetic::div_mod::lemma_div_multiples_vanish(size, p20());
    vstd::arithmetic::div_mod::lemma_div_multiples_vanish(10 * size, p20());
    assert(p20() * size == size * p20()) by (nonlinear_arith);
    assert(p20() * (10 * size) == (10 * size) * p20()) by (nonlinear_arith);
    if vw == 0 { assert(size * q == size * p20()); }
    if vw == sst { assert(size * q == (10 * size) * p20()) by (nonlinear_arith) requires q == 10 * p20(); }
}

//@ fn actors/miner/src/policy.rs quality_for_weight suball0="size as u64=>size.v"
    requires size.v > 0, duration > 0,
    ensures r@ == quality_spec(size.v as int, duration as int, verified_weight@),
//@ entry
        proof { lemma_p20(); assert(size.v as int * duration as int > 0) by (nonlinear_arith) requires size.v > 0, duration > 0; }
//@ end
//@ fn actors/miner/src/policy.rs qa_power_max suball0="size as u64=>size.v"
    ensures r@ == 10 * size.v,
//@ end
//@ fn actors/miner/src/policy.rs qa_power_for_weight suball0="size as u64=>size.v"
    requires size.v > 0, duration > 0,
    ensures
        r@ == qa_spec(size.v as int, duration as int, verified_weight@),
        // a sector's quality-adjusted power lies between its raw size (no verified data) and ten times it (full of verified data)
        0 <= verified_weight@ <= size.v * duration ==> size.v <= r@ <= 10 * size.v,
        verified_weight@ == 0 ==> r@ == size.v,
        verified_weight@ == size.v * duration ==> r@ == 10 * size.v,
//@ entry
        proof { lemma_p20(); if 0 <= verified_weight@ <= size.v * duration { lemma_quality_bounds(size.v as int, duration as int, verified_weight@); } }
//@ end
//@ fn actors/miner/src/policy.rs raw_power_for_sector suball0="size as u64=>size.v"
    ensures r@ == size.v,
//@ end
} // verus!
fn main() {}
