// unit: miner State — funds, vesting totals, fee debt (C01, C03, C05, C14, C15)
//@ include prelude/core.rs
//@ include prelude/bitfield.rs
verus! {
//@ item actors/miner/src/policy.rs VestSpec
}
//@ include prelude/miner_vesting.rs
use std::cmp;
verus! {

//@ item actors/miner/src/state.rs State

// ---------------- spec ----------------
/// ledger invariant of C03: "locked-funds total equals the sum of its vesting schedule", all totals non-negative
pub open spec fn st_wf(s: State) -> bool {
    &&& vf_nonneg(s.vesting_funds@)
    &&& s.locked_funds@ == vf_sum(s.vesting_funds@)
    &&& s.pre_commit_deposits@ >= 0
    &&& s.initial_pledge@ >= 0
    &&& s.fee_debt@ >= 0
}
/// the statement's solvency inequality for a miner (C01)
pub open spec fn st_solvent(s: State, balance: int) -> bool {
    balance >= s.pre_commit_deposits@ + s.locked_funds@ + s.initial_pledge@
}
/// frame: everything that is not one of the four money totals / the vesting table is untouched
pub open spec fn st_rest_eq(a: State, b: State) -> bool {
    &&& a.info == b.info
    &&& a.pre_committed_sectors == b.pre_committed_sectors
    &&& a.pre_committed_sectors_cleanup == b.pre_committed_sectors_cleanup
    &&& a.allocated_sectors == b.allocated_sectors
    &&& a.sectors == b.sectors
    &&& a.proving_period_start == b.proving_period_start
    &&& a.current_deadline == b.current_deadline
    &&& a.deadlines == b.deadlines
    &&& a.early_terminations == b.early_terminations
    &&& a.deadline_cron_active == b.deadline_cron_active
}
pub open spec fn unlocked(s: State, balance: int) -> int {
    balance - s.locked_funds@ - s.pre_commit_deposits@ - s.initial_pledge@
}

// ---------------- extracted ----------------
//@ fn actors/miner/src/state.rs State::continue_deadline_cron
    ensures
        r == (self.pre_commit_deposits@ != 0 || self.initial_pledge@ != 0 || self.locked_funds@ != 0),
//@ end

//@ fn actors/miner/src/state.rs State::add_pre_commit_deposit
    ensures
        st_rest_eq(*old(self), *final(self)),
        final(self).locked_funds == old(self).locked_funds,
        final(self).vesting_funds == old(self).vesting_funds,
        final(self).initial_pledge == old(self).initial_pledge,
        final(self).fee_debt == old(self).fee_debt,
        r.is_ok() <==> old(self).pre_commit_deposits@ + amount@ >= 0,
        r.is_ok() ==> final(self).pre_commit_deposits@ == old(self).pre_commit_deposits@ + amount@,
        r.is_err() ==> final(self).pre_commit_deposits == old(self).pre_commit_deposits,
//@ end

//@ fn actors/miner/src/state.rs State::add_initial_pledge
    ensures
        st_rest_eq(*old(self), *final(self)),
        final(self).locked_funds == old(self).locked_funds,
        final(self).vesting_funds == old(self).vesting_funds,
        final(self).pre_commit_deposits == old(self).pre_commit_deposits,
        final(self).fee_debt == old(self).fee_debt,
        r.is_ok() <==> old(self).initial_pledge@ + amount@ >= 0,
        r.is_ok() ==> final(self).initial_pledge@ == old(self).initial_pledge@ + amount@,
        r.is_err() ==> final(self).initial_pledge == old(self).initial_pledge,
//@ end

//@ fn actors/miner/src/state.rs State::apply_penalty
    ensures
        st_rest_eq(*old(self), *final(self)),
        final(self).locked_funds == old(self).locked_funds,
        final(self).vesting_funds == old(self).vesting_funds,
        final(self).pre_commit_deposits == old(self).pre_commit_deposits,
        final(self).initial_pledge == old(self).initial_pledge,
        r.is_ok() <==> penalty@ >= 0,                       // "penalties are never negative"
        r.is_ok() ==> final(self).fee_debt@ == old(self).fee_debt@ + penalty@,
        r.is_err() ==> final(self).fee_debt == old(self).fee_debt,
//@ end

//@ fn actors/miner/src/state.rs State::add_locked_funds
    requires
        st_wf(*old(self)),
    ensures
        st_rest_eq(*old(self), *final(self)),
        final(self).pre_commit_deposits == old(self).pre_commit_deposits,
        final(self).initial_pledge == old(self).initial_pledge,
        final(self).fee_debt == old(self).fee_debt,
        r.is_ok() ==> st_wf(*final(self))
            && vesting_sum@ >= 0
            // only what had already vested in the OLD table is released; the new sum is locked in full
            && r->Ok_0@ == vf_sum_before(old(self).vesting_funds@, current_epoch as int)
            && final(self).locked_funds@ == old(self).locked_funds@ - r->Ok_0@ + vesting_sum@,
//@ end

//@ fn actors/miner/src/state.rs State::unlock_vested_funds
    requires
        st_wf(*old(self)),
    ensures
        st_rest_eq(*old(self), *final(self)),
        final(self).pre_commit_deposits == old(self).pre_commit_deposits,
        final(self).initial_pledge == old(self).initial_pledge,
        final(self).fee_debt == old(self).fee_debt,
        r.is_ok() ==> st_wf(*final(self))
            // exactly the entries whose vesting epoch has passed, nothing else
            && r->Ok_0@ == vf_sum_before(old(self).vesting_funds@, current_epoch as int)
            && r->Ok_0@ >= 0
            && final(self).locked_funds@ == old(self).locked_funds@ - r->Ok_0@,
//@ entry
        proof { lemma_vf_bounds(old(self).vesting_funds@, current_epoch as int); }
//@ end

//@ fn actors/miner/src/state.rs State::unlock_vested_and_unvested_funds ret=res
    requires
        st_wf(*old(self)),
        target@ >= 0,
    ensures
        st_rest_eq(*old(self), *final(self)),
        final(self).pre_commit_deposits == old(self).pre_commit_deposits,
        final(self).initial_pledge == old(self).initial_pledge,
        final(self).fee_debt == old(self).fee_debt,
        res.is_ok() ==> st_wf(*final(self)) && ({
            let (unvested, total) = res->Ok_0;
            &&& 0 <= unvested@ <= target@
            &&& unvested@ <= total@
            // anything beyond the requested amount had already vested
            &&& total@ - unvested@ <= vf_sum_before(old(self).vesting_funds@, current_epoch as int)
            &&& final(self).locked_funds@ == old(self).locked_funds@ - total@
        }),
//@ entry
        proof { lemma_vf_bounds(old(self).vesting_funds@, current_epoch as int); }
//@ end

//@ fn actors/miner/src/state.rs State::get_unlocked_balance
    ensures
        r.is_ok() <==> unlocked(*self, actor_balance@) >= 0,
        r.is_ok() ==> r->Ok_0@ == unlocked(*self, actor_balance@),
//@ end

//@ fn actors/miner/src/state.rs State::get_available_balance
    ensures
        r.is_ok() <==> unlocked(*self, actor_balance@) >= 0,
        r.is_ok() ==> r->Ok_0@ == unlocked(*self, actor_balance@) - self.fee_debt@,
//@ end

//@ fn actors/miner/src/state.rs State::check_balance_invariants
    ensures
        // Ok  <==>  the solvency inequality of the statement and non-negativity of the four totals
        r.is_ok() <==> (self.pre_commit_deposits@ >= 0 && self.locked_funds@ >= 0 && self.initial_pledge@ >= 0
            && self.fee_debt@ >= 0 && st_solvent(*self, balance@)),
//@ end

//@ fn actors/miner/src/state.rs State::repay_partial_debt_in_priority_order ret=res
    requires
        st_wf(*old(self)),
    ensures
        st_rest_eq(*old(self), *final(self)),
        final(self).pre_commit_deposits == old(self).pre_commit_deposits,
        final(self).initial_pledge == old(self).initial_pledge,
        res.is_ok() ==> st_wf(*final(self)) && ({
            let (to_burn, total_unlocked) = res->Ok_0;
            // every charged attoFIL is burnt now or remains debt
            &&& old(self).fee_debt@ == to_burn@ + final(self).fee_debt@
            &&& to_burn@ >= 0
            &&& final(self).fee_debt@ >= 0
            // burning to_burn keeps the miner solvent
            &&& to_burn@ <= unlocked(*final(self), curr_balance@)
            // priority: debt remains only if nothing unlocked is left
            &&& (final(self).fee_debt@ > 0 ==> to_burn@ == unlocked(*final(self), curr_balance@))
            &&& final(self).locked_funds@ == old(self).locked_funds@ - total_unlocked@
            &&& total_unlocked@ >= 0
        }),
//@ entry
        proof { lemma_vf_bounds(old(self).vesting_funds@, current_epoch as int); }
//@ end

//@ fn actors/miner/src/state.rs State::repay_debts
    ensures
        st_rest_eq(*old(self), *final(self)),
        final(self).pre_commit_deposits == old(self).pre_commit_deposits,
        final(self).initial_pledge == old(self).initial_pledge,
        final(self).locked_funds == old(self).locked_funds,
        final(self).vesting_funds == old(self).vesting_funds,
        // the gate: succeeds iff unlocked funds cover the whole debt; then the debt is returned for burning and cleared
        r.is_ok() <==> (unlocked(*old(self), curr_balance@) >= 0 && unlocked(*old(self), curr_balance@) >= old(self).fee_debt@),
        r.is_ok() ==> r->Ok_0@ == old(self).fee_debt@ && final(self).fee_debt@ == 0,
        r.is_err() ==> final(self).fee_debt == old(self).fee_debt,
//@ end

} // verus!
fn main() {}
