// unit: miner State — funds, vesting totals, fee debt (C01, C03, C05, C14, C15)
//@ include prelude/core.rs
//@ include prelude/bitfield.rs
verus! {
//@ item actors/miner/src/policy.rs VestSpec
}
//@ include prelude/miner_vesting.rs
use std::cmp;
verus! {

//@ include units/shared/miner_funds.inc
} // verus!
fn main() {}
