// unit: reward actor — award_block_reward never pays out more than it holds (C01)
//@ include prelude/core.rs
//@ include prelude/rt.rs
//@ include prelude/singletons.rs
verus! {

//@ const runtime/src/builtin/network.rs EXPECTED_LEADERS_PER_EPOCH
//@ const actors/reward/src/lib.rs PENALTY_MULTIPLIER
pub type Spacetime = BigInt;
//@ item runtime/src/builtin/reward/smooth/alpha_beta_filter.rs FilterEstimate
//@ item actors/reward/src/state.rs State
//@ item actors/reward/src/types.rs AwardBlockRewardParams
pub mod ext { pub mod miner {
    use super::super::*;
//@ const actors/reward/src/ext.rs APPLY_REWARDS_METHOD
//@ item actors/reward/src/ext.rs ApplyRewardParams
} }

// ---------------- lifted transaction closure #0 of award_block_reward (R3) ----------------
//@ fn actors/reward/src/lib.rs Actor::award_block_reward closure=0 as=award_tx0 params="st: &mut State, rt: &Rt, params: &AwardBlockRewardParams" retty="Result<TokenAmount, ActorError>"
    requires
        params.win_count > 0,
        params.gas_reward@ >= 0,
        rt.balance@ >= params.gas_reward@,
    ensures
        // "reward capped at current balance": never more than the actor holds
        r.is_ok() ==> r->Ok_0@ <= rt.balance@,
        // the running total moves by exactly the block-reward part of what is paid
        r.is_ok() ==> final(st).total_storage_power_reward@ - old(st).total_storage_power_reward@ == r->Ok_0@ - params.gas_reward@,
//@ end

//@ fn actors/reward/src/lib.rs Actor::award_block_reward free tx0="State;award_tx0;&mut __vx_st, rt, &params"
    requires
        !old(rt).in_tx@,
        old(rt).sends@.len() == 0,
    ensures
        // every send carries the (capped) total reward, which never exceeds the balance held on entry
        forall|i: int| 0 <= i < final(rt).sends@.len() ==> (#[trigger] final(rt).sends@[i]).value <= old(rt).balance@,
        // at most one of {ApplyRewards to the miner, burn} moves value, and the burn is attempted only after the first failed
        r.is_ok() ==> 1 <= final(rt).sends@.len() <= 2
            && final(rt).sends@[0].method == ext::miner::APPLY_REWARDS_METHOD
            && (final(rt).sends@.len() == 2 ==> !final(rt).sends@[0].ok
                    && final(rt).sends@[1].to == BURNT_FUNDS_ACTOR_ADDR && final(rt).sends@[1].method == METHOD_SEND
                    && final(rt).sends@[1].value == final(rt).sends@[0].value)
            && (final(rt).sends@.len() == 1 ==> final(rt).sends@[0].ok),
        // the call is restricted to the system actor
        /*C11*/ r.is_ok() ==> old(rt).msg.caller == SYSTEM_ACTOR_ADDR && final(rt).validated@.is_some(),
        r.is_ok() ==> final(rt).balance@ >= 0,
//@ end

} // verus!
fn main() {}
