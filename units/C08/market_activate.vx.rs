// unit: market deal activation — who may activate which deal, when, and at most once (C08)
//@ include prelude/core.rs
//@ include prelude/ipld.rs
//@ include prelude/rt.rs
//@ include prelude/policy.rs
//@ include prelude/batch.rs
//@ include prelude/slices.rs
use std::cmp::{max, min};
verus! {
//@ include units/shared/set.inc
#[derive(Clone, Copy)]
pub struct PaddedPieceSize(pub u64);
pub type AllocationID = u64;
//@ item actors/market/src/deal.rs Label
//@ item actors/market/src/deal.rs DealProposal
//@ item actors/market/src/deal.rs DealState attr="#[derive(Clone, Copy)]"
//@ item actors/market/src/state.rs State
//@ item actors/market/src/state.rs PendingProposalsSet
//@ item actors/market/src/types.rs SectorDeals
//@ item actors/market/src/types.rs BatchActivateDealsParams
//@ item actors/market/src/types.rs ActivatedDeal
//@ item actors/market/src/types.rs SectorDealActivation
//@ item actors/market/src/types.rs BatchActivateDealsResult
//@ const actors/market/src/lib.rs NO_ALLOCATION_ID
pub type PendingDealAllocationsMap<BS> = Map2<BS, DealID, AllocationID>;
pub const PENDING_ALLOCATIONS_CONFIG: Config = DEFAULT_HAMT_CONFIG;
//@ const actors/market/src/state.rs PENDING_PROPOSALS_CONFIG
//@ const runtime/src/builtin/shared.rs FIRST_ACTOR_SPECIFIC_EXIT_CODE
//@ const actors/market/src/lib.rs EX_DEAL_EXPIRED
pub type DealArray<'bs, BS> = Array<DealProposal, &'bs BS>;
pub type DealMetaArray<'bs, BS> = Array<DealState, &'bs BS>;

//@ fn actors/market/src/lib.rs validate_deal_can_activate
    ensures
        // "only by its own provider, no later than its start epoch and only in a sector that outlives it"
        r.is_ok() <==> proposal.provider == *miner_addr && curr_epoch <= proposal.start_epoch && proposal.end_epoch <= sector_expiration,
//@ end

// derive(Clone) of DealProposal re-stated in prelude/market_clone.rs (TRUSTED: a clone equals its source)
//@ include prelude/market_clone.rs
//@ fn actors/market/src/state.rs find_proposal
    ensures
        r.is_ok() ==> (r->Ok_0.is_some() <==> proposals.view().dom().contains(deal_id)),
        r.is_ok() && r->Ok_0.is_some() ==> r->Ok_0->Some_0 == proposals.view()[deal_id],
//@ end
//@ fn actors/market/src/state.rs get_proposal
    ensures
        r.is_ok() ==> proposals.view().dom().contains(id) && r->Ok_0 == proposals.view()[id],
//@ end
//@ fn actors/market/src/state.rs find_deal_state
    ensures
        r.is_ok() ==> (r->Ok_0.is_some() <==> states.view().dom().contains(deal_id)),
        r.is_ok() && r->Ok_0.is_some() ==> r->Ok_0->Some_0 == states.view()[deal_id],
//@ end

/// lib.rs deal_cid: CBOR + blake2b of the proposal — an opaque deterministic function of the proposal (TRUSTED stub, prelude/market_activate_assumed.rs)
//@ include prelude/market_activate_assumed.rs

//@ fn actors/market/src/lib.rs preactivate_deal rt=ref
    ensures
        // outer Ok(Ok(p)): the deal may be activated now
        r.is_ok() && r->Ok_0.is_ok() ==> ({
            let p = r->Ok_0->Ok_0;
            &&& proposals.view().dom().contains(deal_id) && p == proposals.view()[deal_id]
            // "only by its own provider, no later than its start epoch and only in a sector that outlives it"
            &&& p.provider == *provider && curr_epoch <= p.start_epoch && p.end_epoch <= sector_commitment
            // "a deal is activated at most once": no deal state exists yet
            &&& !states.view().dom().contains(deal_id)
            // and it is still a pending proposal
            &&& pending_proposals.0.view().dom().contains(deal_cid_spec(p))
        }),
//@ end

//@ fn actors/market/src/state.rs State::load_proposals
    ensures r.is_ok() ==> r->Ok_0.view() == array_decode::<DealProposal>(self.proposals),
//@ end
//@ fn actors/market/src/state.rs State::load_deal_states
    ensures r.is_ok() ==> r->Ok_0.view() == array_decode::<DealState>(self.states),
//@ end
//@ fn actors/market/src/state.rs State::load_pending_deals
    ensures r.is_ok() ==> r->Ok_0.0.view() == map2_decode::<Cid, ()>(self.pending_proposals),
//@ end
//@ fn actors/market/src/state.rs State::load_pending_deal_allocation_ids
    ensures r.is_ok() ==> r->Ok_0.view() == map2_decode::<DealID, AllocationID>(old(self).pending_deal_allocation_ids), *final(self) == *old(self),
//@ end
//@ fn actors/market/src/state.rs State::save_pending_deal_allocation_ids
    ensures
        r.is_ok() ==> *final(self) == (State { pending_deal_allocation_ids: final(self).pending_deal_allocation_ids, ..*old(self) }),
        r.is_err() ==> *final(self) == *old(self),
//@ end

// ======================= BatchActivateDeals: the transaction closure =======================
pub open spec fn props(s: State) -> Map<u64, DealProposal> { array_decode::<DealProposal>(s.proposals) }
pub open spec fn dstates(s: State) -> Map<u64, DealState> { array_decode::<DealState>(s.states) }
/// stored proposals name their parties by ID address (established at publication)
pub open spec fn props_ids(s: State) -> bool {
    forall|k: u64| #[trigger] props(s).dom().contains(k) ==> props(s)[k].client.proto == 0 && props(s)[k].provider.proto == 0
}
/// "activated ... only by its own provider, no later than its start epoch and only in a sector that outlives it", and not activated before
pub open spec fn act_ok(s0: State, id: DealID, miner: Address, epoch: ChainEpoch, expiry: ChainEpoch) -> bool {
    props(s0).dom().contains(id) && props(s0)[id].provider == miner && epoch <= props(s0)[id].start_epoch && props(s0)[id].end_epoch <= expiry
        && !dstates(s0).dom().contains(id)
}
pub open spec fn has_key(ds: Seq<(DealID, DealState)>, id: DealID) -> bool { exists|a: int| 0 <= a < ds.len() && #[trigger] ds[a].0 == id }
pub open spec fn keys_distinct(ds: Seq<(DealID, DealState)>) -> bool { forall|a: int, b: int| 0 <= a < b < ds.len() ==> ds[a].0 != ds[b].0 }
pub open spec fn new_state(sector_number: SectorNumber, epoch: ChainEpoch) -> DealState {
    DealState { sector_number, sector_start_epoch: epoch, last_updated_epoch: EPOCH_UNDEFINED, slash_epoch: EPOCH_UNDEFINED }
}
/// every recorded activation is justified by one of the first `upto` sectors of the request
pub open spec fn ds_ok(ds: Seq<(DealID, DealState)>, s0: State, miner: Address, epoch: ChainEpoch, secs: Seq<SectorDeals>, upto: int) -> bool {
    forall|a: int| 0 <= a < ds.len() ==> exists|j: int| 0 <= j < upto && j < secs.len() && secs[j].deal_ids@.contains((#[trigger] ds[a]).0)
        && act_ok(s0, ds[a].0, miner, epoch, secs[j].sector_expiry) && ds[a].1 == new_state(secs[j].sector_number, epoch)
}
pub open spec fn total_activated(acts: Seq<SectorDealActivation>) -> int
    decreases acts.len()
{ if acts.len() == 0 { 0 } else { total_activated(acts.drop_last()) + acts.last().activated@.len() } }

pub proof fn lemma_sorted_nodup(orig: Seq<u64>, sorted: Seq<u64>)
    requires
        sorted.to_multiset() == orig.to_multiset(), sorted.len() == orig.len(),
        forall|i: int, j: int| 0 <= i <= j < sorted.len() ==> vstd::std_specs::cmp::OrdSpec::cmp_spec(&sorted[i], &sorted[j]) != core::cmp::Ordering::Greater,
        forall|i: int| 0 <= i < sorted.len() - 1 ==> !#[trigger] adj_dup(sorted, i),
    ensures orig.no_duplicates()
{
    assert forall|i: int, j: int| 0 <= i < j < sorted.len() implies sorted[i] < sorted[j] by {
        assert(!adj_dup(sorted, i));
        assert(vstd::std_specs::cmp::OrdSpec::cmp_spec(&sorted[i], &sorted[i + 1]) != core::cmp::Ordering::Greater);
        assert(vstd::std_specs::cmp::OrdSpec::cmp_spec(&sorted[i + 1], &sorted[j]) != core::cmp::Ordering::Greater);
    }
    assert(sorted.no_duplicates());
    sorted.lemma_multiset_has_no_duplicates();
    orig.to_multiset_ensures();
    sorted.to_multiset_ensures();
    assert forall|x: u64| orig.to_multiset().contains(x) implies orig.to_multiset().count(x) == 1 by {
        assert(sorted.to_multiset().contains(x));
    }
    orig.lemma_multiset_has_no_duplicates_conv();
}
pub proof fn lemma_push_key(ds: Seq<(DealID, DealState)>, x: (DealID, DealState))
    requires keys_distinct(ds), !has_key(ds, x.0)
    ensures keys_distinct(ds.push(x)), forall|id: u64| #[trigger] has_key(ds.push(x), id) <==> has_key(ds, id) || id == x.0
{
    let n = ds.push(x);
    assert forall|a: int, b: int| 0 <= a < b < n.len() implies n[a].0 != n[b].0 by {
        if b == ds.len() { if n[a].0 == x.0 { assert(ds[a].0 == x.0); } }
    }
    assert forall|id: u64| #[trigger] has_key(n, id) <==> has_key(ds, id) || id == x.0 by {
        if has_key(n, id) { let a = choose|a: int| 0 <= a < n.len() && #[trigger] n[a].0 == id; if a < ds.len() { assert(ds[a].0 == id); } }
        if has_key(ds, id) { let a = choose|a: int| 0 <= a < ds.len() && #[trigger] ds[a].0 == id; assert(n[a].0 == id); }
        if id == x.0 { assert(n[ds.len() as int].0 == id); }
    }
}
/// set_all with distinct keys: the new map is the old one plus exactly the listed entries
pub proof fn lemma_set_all(m: Map<u64, DealState>, ds: Seq<(DealID, DealState)>)
    requires keys_distinct(ds)
    ensures
        forall|k: u64| #[trigger] set_all(m, ds).dom().contains(k) <==> m.dom().contains(k) || has_key(ds, k),
        forall|a: int| 0 <= a < ds.len() ==> set_all(m, ds)[(#[trigger] ds[a]).0] == ds[a].1,
        forall|k: u64| m.dom().contains(k) && !has_key(ds, k) ==> #[trigger] set_all(m, ds)[k] == m[k],
    decreases ds.len()
{
    if ds.len() > 0 {
        let t = ds.drop_last();
        lemma_set_all(m, t);
        assert forall|k: u64| #[trigger] set_all(m, ds).dom().contains(k) <==> m.dom().contains(k) || has_key(ds, k) by {
            if has_key(ds, k) { let a = choose|a: int| 0 <= a < ds.len() && #[trigger] ds[a].0 == k; if a < t.len() { assert(t[a].0 == k); } }
            if has_key(t, k) { let a = choose|a: int| 0 <= a < t.len() && #[trigger] t[a].0 == k; assert(ds[a].0 == k); }
            if k == ds.last().0 { assert(ds[ds.len() - 1].0 == k); }
        }
        assert forall|a: int| 0 <= a < ds.len() implies set_all(m, ds)[(#[trigger] ds[a]).0] == ds[a].1 by {
            if a < t.len() { assert(t[a] == ds[a]); assert(ds[a].0 != ds[ds.len() - 1].0); }
        }
        assert forall|k: u64| m.dom().contains(k) && !has_key(ds, k) implies #[trigger] set_all(m, ds)[k] == m[k] by {
            assert(k != ds.last().0) by { if k == ds.last().0 { assert(ds[ds.len() - 1].0 == k); } }
            assert(!has_key(t, k)) by { if has_key(t, k) { let a = choose|a: int| 0 <= a < t.len() && #[trigger] t[a].0 == k; assert(ds[a].0 == k); } }
        }
    }
}

//@ fn actors/market/src/lib.rs Actor::batch_activate_deals closure=0 as=bad_tx0 params="st: &mut State, rt: &mut Rt, params: BatchActivateDealsParams, miner_addr: Address, curr_epoch: ChainEpoch" retty="Result<(Vec<SectorDealActivation>, BatchReturn), ActorError>" ret=res r17 r19=0,1 subopt0="sector_deal_ids . windows (2) . any (| w | w [0] == w [1])=>vx_has_adjacent_dup(&sector_deal_ids)" subopt1="log :: warn !=>warn !"
    requires
        miner_addr.proto == 0,          // the caller is a miner actor, addressed by ID
        props_ids(*old(st)),
    ensures
        *final(rt) == (Rt { events: final(rt).events, ..*old(rt) }),
        res.is_ok() ==> ({
            let s0 = *old(st);
            let s1 = *final(st);
            // only the deal states, the provider-sector index and the pending allocation ids are written
            &&& s1 == (State { states: s1.states, provider_sectors: s1.provider_sectors, pending_deal_allocation_ids: s1.pending_deal_allocation_ids, ..s0 })
            // "a deal is activated at most once": existing activations are untouched ...
            &&& (forall|k: u64| #[trigger] dstates(s0).dom().contains(k) ==> dstates(s1).dom().contains(k) && dstates(s1)[k] == dstates(s0)[k])
            // ... and every new one is a published, not yet activated deal of THIS provider, not past its start epoch,
            //     in a sector of the request that lists it and outlives it
            &&& (forall|k: u64| #[trigger] dstates(s1).dom().contains(k) && !dstates(s0).dom().contains(k) ==>
                    exists|j: int| 0 <= j < params.sectors@.len() && #[trigger] params.sectors@[j].deal_ids@.contains(k)
                        && act_ok(s0, k, miner_addr, curr_epoch, params.sectors@[j].sector_expiry)
                        && dstates(s1)[k] == new_state(params.sectors@[j].sector_number, curr_epoch))
            // one result per requested sector
            &&& res->Ok_0.1.codes().len() == params.sectors@.len()
        }),
//@ loop 0
                invariant
                    __vx_i0 <= __vx_v0.len(), __vx_v0@ == params.sectors@,
                    *st == *old(st), proposals.view() == props(*st), states.view() == dstates(*st),
                    pending_deals.0.view() == map2_decode::<Cid, ()>(st.pending_proposals), props_ids(*st), miner_addr.proto == 0,
                    *rt == (Rt { events: rt.events, ..*old(rt) }),
                    batch_gen.codes().len() == __vx_i0, batch_gen.expect() == params.sectors@.len(),
                    keys_distinct(deal_states@),
                    forall|id: u64| activated_deals@.contains(id) <==> #[trigger] has_key(deal_states@, id),
                    ds_ok(deal_states@, *st, miner_addr, curr_epoch, params.sectors@, __vx_i0 as int),
                    // no activation is counted twice: the activations returned are exactly the recorded new deal states
                    total_activated(activations@) == deal_states@.len(),
                decreases __vx_v0.len() - __vx_i0,
//@ loop 1
                    invariant
                        __vx_i1 <= __vx_v1.len(), __vx_v1@ == sector.deal_ids@, sector.deal_ids@.no_duplicates(),
                        0 < __vx_i0 <= __vx_v0.len(), __vx_v0@ == params.sectors@, *sector == params.sectors@[__vx_i0 - 1],
                        *st == *old(st), proposals.view() == props(*st), states.view() == dstates(*st),
                        pending_deals.0.view() == map2_decode::<Cid, ()>(st.pending_proposals), props_ids(*st), miner_addr.proto == 0,
                        *rt == (Rt { events: rt.events, ..*old(rt) }),
                        batch_gen.codes().len() == __vx_i0 - 1, batch_gen.expect() == params.sectors@.len(),
                        keys_distinct(deal_states@),
                        forall|id: u64| activated_deals@.contains(id) <==> #[trigger] has_key(deal_states@, id),
                        ds_ok(deal_states@, *st, miner_addr, curr_epoch, params.sectors@, __vx_i0 - 1),
                        total_activated(activations@) == deal_states@.len(),
                        validated_proposals@.len() == __vx_i1,
                        forall|k: int| 0 <= k < __vx_i1 ==> !activated_deals@.contains(#[trigger] sector.deal_ids@[k])
                            && validated_proposals@[k] == props(*st)[sector.deal_ids@[k]]
                            && act_ok(*st, sector.deal_ids@[k], miner_addr, curr_epoch, sector.sector_expiry),
                    decreases __vx_v1.len() - __vx_i1,
//@ loop 2
                    invariant
                        0 < __vx_i0 <= __vx_v0.len(), __vx_v0@ == params.sectors@, *sector == params.sectors@[__vx_i0 - 1], sector.deal_ids@.no_duplicates(),
                        *st == *old(st), proposals.view() == props(*st), states.view() == dstates(*st),
                        pending_deals.0.view() == map2_decode::<Cid, ()>(st.pending_proposals), props_ids(*st), miner_addr.proto == 0,
                        *rt == (Rt { events: rt.events, ..*old(rt) }),
                        batch_gen.codes().len() == __vx_i0 - 1, batch_gen.expect() == params.sectors@.len(),
                        keys_distinct(deal_states@),
                        forall|id: u64| activated_deals@.contains(id) <==> #[trigger] has_key(deal_states@, id),
                        validated_proposals@.len() == sector.deal_ids@.len(),
                        forall|k: int| 0 <= k < sector.deal_ids@.len() ==> validated_proposals@[k] == props(*st)[#[trigger] sector.deal_ids@[k]]
                            && act_ok(*st, sector.deal_ids@[k], miner_addr, curr_epoch, sector.sector_expiry),
                        ds_ok(deal_states@, *st, miner_addr, curr_epoch, params.sectors@, __vx_i0 as int),
                        activated@.len() == __vx_z0, total_activated(activations@) + __vx_z0 == deal_states@.len(),
                        forall|k: int| __vx_z0 <= k < sector.deal_ids@.len() ==> !activated_deals@.contains(#[trigger] sector.deal_ids@[k]),
//@ loop 3
                    invariant
                        0 < __vx_i0 <= __vx_v0.len(), __vx_v0@ == params.sectors@, *sector == params.sectors@[__vx_i0 - 1], sector.deal_ids@.no_duplicates(),
                        *st == *old(st), proposals.view() == props(*st), states.view() == dstates(*st),
                        pending_deals.0.view() == map2_decode::<Cid, ()>(st.pending_proposals), props_ids(*st), miner_addr.proto == 0,
                        *rt == (Rt { events: rt.events, ..*old(rt) }),
                        batch_gen.codes().len() == __vx_i0 - 1, batch_gen.expect() == params.sectors@.len(),
                        keys_distinct(deal_states@),
                        forall|id: u64| activated_deals@.contains(id) <==> #[trigger] has_key(deal_states@, id),
                        validated_proposals@.len() == sector.deal_ids@.len(),
                        forall|k: int| 0 <= k < sector.deal_ids@.len() ==> validated_proposals@[k] == props(*st)[#[trigger] sector.deal_ids@[k]]
                            && act_ok(*st, sector.deal_ids@[k], miner_addr, curr_epoch, sector.sector_expiry),
                        ds_ok(deal_states@, *st, miner_addr, curr_epoch, params.sectors@, __vx_i0 as int),
                        total_activated(activations@) == deal_states@.len(),
//@ after "let proposal = & (& validated_proposals) [__vx_z0]"
                    proof {
                        assert(!activated_deals@.contains(sector.deal_ids@[__vx_z0 as int]));
                        assert(!has_key(deal_states@, *deal_id));
                        lemma_push_key(deal_states@, (*deal_id, new_state(sector.sector_number, curr_epoch)));
                    }
//@ after "sectors_deals . push"
                let ghost acts0 = activations@;
//@ before "st . put_deal_states"
        proof { lemma_set_all(dstates(*st), deal_states@); }
//@ before "__vx_z1 in 0"
                proof { assert(activations@.drop_last() =~= acts0); }
//@ after "let mut validated_proposals"
                proof { lemma_sorted_nodup(sector.deal_ids@, sector_deal_ids@); }
//@ end

// ======================= BatchActivateDeals: whole method =======================
//@ fn actors/market/src/lib.rs Actor::batch_activate_deals free tx0="State;bad_tx0;&mut __vx_st, rt, params, miner_addr, curr_epoch" ret=res
    requires
        !old(rt).in_tx@, old(rt).tx_log@.len() == 0, old(rt).validated@.is_none(),
        old(rt).msg.caller.proto == 0,      // the immediate caller is always addressed by ID (FVM)
        props_ids(rt_state::<State>(old(rt).state_id@)),
    ensures
        // "only by its own provider": the caller is a miner actor and every activated deal names it as provider
        /*C11*/ /*C08*/ res.is_ok() ==> old(rt).caller_type@ == Some(Type::Miner) && final(rt).validated@.is_some(),
        res.is_ok() ==> final(rt).tx_log@.len() == 1 && final(rt).sends == old(rt).sends && ({
            let s0 = rt_state::<State>(old(rt).state_id@);
            let s1 = rt_state::<State>(final(rt).tx_log@[0]);
            let miner = old(rt).msg.caller;
            &&& (forall|k: u64| #[trigger] dstates(s0).dom().contains(k) ==> dstates(s1).dom().contains(k) && dstates(s1)[k] == dstates(s0)[k])
            &&& (forall|k: u64| #[trigger] dstates(s1).dom().contains(k) && !dstates(s0).dom().contains(k) ==>
                    props(s0).dom().contains(k) && props(s0)[k].provider == miner && old(rt).epoch <= props(s0)[k].start_epoch
                        && dstates(s1)[k].sector_start_epoch == old(rt).epoch)
            &&& res->Ok_0.activation_results.codes().len() == params.sectors@.len()
        }),
//@ end
} // verus!
fn main() {}
