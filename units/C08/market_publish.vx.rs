// unit: market PublishStorageDeals — which proposals get published, under which id, and what is locked for them (C08, C06)
// Under contract, all with their REAL bodies from /repo: Actor::publish_storage_deals (whole method: nothing sliced away), its transaction closure
// (psd_tx0), its two loops once more as stand-alone regions (psd_validate, psd_select — same text, contracts of their own), validate_deal,
// deal_proposal_is_internally_valid, deal_cid, next_update_epoch, alloc_request_for_deal, balance_of, transfer_from, request_current_baseline_power,
// request_current_network_power, the four bounds functions of policy.rs. Token substitutions (each forced by a tool limit, listed in the evidence):
// iterator adapters `enumerate` / `map..collect` / `entry().or_default()` -> prelude helpers; `zip(alloc_ids.iter())` indexing; `for (_, &deal_id)`
// ref pattern; `_ = expr`; the fn-local `struct ValidDeal` (re-stated in prelude/market_publish_assumed.rs); lazy_static TOTAL_FILECOIN.
//@ include prelude/core.rs
//@ include prelude/ipld.rs
//@ include prelude/rt.rs
//@ include prelude/policy.rs
//@ include prelude/btreemap.rs
//@ include prelude/bitfield.rs
//@ include prelude/singletons.rs
//@ include prelude/batch.rs
//@ include prelude/cbor.rs
use std::cmp::{max, min};
use vstd::std_specs::iter::IteratorSpec;
verus! {
//@ include units/shared/market_state.inc
//@ item runtime/src/builtin/reward/smooth/alpha_beta_filter.rs FilterEstimate
//@ item runtime/src/builtin/reward/mod.rs ThisEpochRewardReturn
//@ include prelude/market_clone.rs
//@ include prelude/market_publish_assumed.rs

// ======================= spec: sums over the deals of one message =======================
/// what the deals `vd` lock for participant `a` (as client: collateral + whole storage fee; as provider: collateral)
pub open spec fn vd_lock(vd: Seq<ValidDeal>, a: Address) -> int
    decreases vd.len()
{
    if vd.len() == 0 { 0 } else {
        let p = vd.last().proposal;
        vd_lock(vd.drop_last(), a) + d2(a, p.client, p.client_collateral@ + fee(p), p.provider, p.provider_collateral@)
    }
}
pub open spec fn vd_cc(vd: Seq<ValidDeal>) -> int decreases vd.len()
{ if vd.len() == 0 { 0 } else { vd_cc(vd.drop_last()) + vd.last().proposal.client_collateral@ } }
pub open spec fn vd_pc(vd: Seq<ValidDeal>) -> int decreases vd.len()
{ if vd.len() == 0 { 0 } else { vd_pc(vd.drop_last()) + vd.last().proposal.provider_collateral@ } }
pub open spec fn vd_fee(vd: Seq<ValidDeal>) -> int decreases vd.len()
{ if vd.len() == 0 { 0 } else { vd_fee(vd.drop_last()) + fee(vd.last().proposal) } }
pub open spec fn small(x: int) -> bool { -0x1000_0000_0000_0000 < x < 0x1000_0000_0000_0000 }
pub open spec fn vd_wf(vd: Seq<ValidDeal>) -> bool { forall|j: int| 0 <= j < vd.len() ==> deal_wf((#[trigger] vd[j]).proposal) && small(vd[j].proposal.start_epoch as int) }
pub open spec fn vd_cids(vd: Seq<ValidDeal>) -> vstd::set::Set<Cid> { vd.map_values(|v: ValidDeal| v.cid).to_set() }
/// the (id, proposal) pairs written for `vd` when ids start at `base`
pub open spec fn vd_pairs(vd: Seq<ValidDeal>, base: int) -> Seq<(DealID, DealProposal)> {
    Seq::new(vd.len(), |j: int| ((base + j) as u64, vd[j].proposal))
}
/// every stored proposal has an id that was already handed out
pub open spec fn props_below(s: State) -> bool { forall|k: u64| #[trigger] props_m(s).dom().contains(k) ==> k < s.next_id }

/// what the transaction of PublishStorageDeals does to the state, for the selected deals `vd` (ids = the ids it hands out)
pub open spec fn tx_post(s0: State, s1: State, vd: Seq<ValidDeal>, ids: Seq<DealID>) -> bool {
    // (4) "deal IDs are unique and strictly increasing": ids are next_id, next_id+1, ... in order of the message
    &&& ids.len() == vd.len()
    &&& (forall|j: int| 0 <= j < vd.len() ==> #[trigger] ids[j] == s0.next_id + j)
    &&& s1.next_id == s0.next_id + vd.len()
    // the proposals table gets exactly (next_id + j, proposal j), nothing else is written
    &&& props_m(s1) == put_all_p(props_m(s0), vd_pairs(vd, s0.next_id as int))
    // (3) afterwards every published proposal is pending; nothing else is added to the pending set
    &&& pend(s1) == pend(s0).union(vd_cids(vd))
    // (5) C06: per participant the locked amount grows by exactly what the published deals oblige it to, never above escrow
    &&& s1.escrow_table == s0.escrow_table
    &&& (forall|a: Address| #[trigger] bal(lck(s1), a) == bal(lck(s0), a) + vd_lock(vd, a))
    &&& jinv(s1)
    // ... and the market-wide totals grow by the sums of the per-deal amounts
    &&& s1.total_client_locked_collateral@ == s0.total_client_locked_collateral@ + vd_cc(vd)
    &&& s1.total_provider_locked_collateral@ == s0.total_provider_locked_collateral@ + vd_pc(vd)
    &&& s1.total_client_storage_fee@ == s0.total_client_storage_fee@ + vd_fee(vd)
    // frame (the shared contract of generate_storage_deal_id says nothing about last_cron / provider_sectors, so neither can this one)
    &&& s1.states == s0.states
}

// ======================= first cron epoch of a new deal (real code; truncating % and / via vstd's rust_rem / rust_div) =======================
use vstd::arithmetic::div_mod::{rust_rem, rust_div};
pub proof fn lemma_trunc(x: int, u: int)
    requires u > 0
    ensures
        x >= 0 ==> x - u < u * rust_div(x, u) <= x,
        x < 0 ==> x <= u * rust_div(x, u) < x + u,
        rust_rem(x, u) == x - u * rust_div(x, u),
        -u < rust_rem(x, u) < u,
        u * (rust_div(x, u) + 1) == u * rust_div(x, u) + u,
{
    if x >= 0 {
        vstd::arithmetic::div_mod::lemma_fundamental_div_mod(x, u);
        vstd::arithmetic::div_mod::lemma_mod_bound(x, u);
    } else {
        vstd::arithmetic::div_mod::lemma_fundamental_div_mod(-x, u);
        vstd::arithmetic::div_mod::lemma_mod_bound(-x, u);
        assert(u * -((-x) / u) == -(u * ((-x) / u))) by (nonlinear_arith);
    }
    assert(u * (rust_div(x, u) + 1) == u * rust_div(x, u) + u) by (nonlinear_arith);
}
//@ fn actors/market/src/lib.rs next_update_epoch ops=keep
    requires interval > 0, small(interval as int), small(earliest as int),
    ensures earliest <= r < earliest + interval,       // no sooner than `earliest`, less than one interval later
//@ entry
        proof {
            let off = rust_rem((id as i64) as int, interval as int);
            lemma_trunc((id as i64) as int, interval as int);
            lemma_trunc(earliest - off, interval as int);
        }
//@ end

// ======================= validation of one client-signed proposal (outside the transaction) =======================
//@ item actors/market/src/deal.rs ClientDealProposal
//@ const runtime/src/builtin/network.rs SECONDS_IN_DAY
//@ const runtime/src/builtin/network.rs EPOCH_DURATION_SECONDS
//@ const runtime/src/builtin/network.rs EPOCHS_IN_DAY
pub mod detail {
//@ const actors/market/src/policy.rs DEAL_MAX_LABEL_SIZE
}

/// "the client authenticated it": record `s` is a read-only AuthenticateMessage send to the proposal's client, over the CBOR of
/// exactly this proposal and the client signature that came with it, and the client answered `true`
pub open spec fn auth_send(s: SendRec, d: ClientDealProposal) -> bool {
    &&& s.to == d.proposal.client
    &&& s.method == ext::account::AUTHENTICATE_MESSAGE_METHOD
    &&& s.read_only && s.value == 0
    &&& s.params == Some(IpldBlock { h: auth_params_hash(d.client_signature.bytes@, raw_seq(ser_spec(d.proposal))) })
    &&& s.ok && deser_ok::<bool>(s.ret) && deser_spec::<bool>(s.ret)
}

pub open spec fn stateless_ok(d: DealProposal, epoch: ChainEpoch) -> bool {
    epoch <= d.start_epoch < d.end_epoch && d.end_epoch - d.start_epoch <= 1278 * EPOCHS_IN_DAY
        && d.storage_price_per_epoch@ >= 0 && d.provider_collateral@ >= 0 && d.client_collateral@ >= 0
}

//@ fn actors/market/src/lib.rs deal_proposal_is_internally_valid
    requires !old(rt).in_tx@,
    ensures
        rt_frame(old(rt), final(rt)),
        // a read-only query: this actor's state and balance are as before, whatever the client does
        final(rt).state_id == old(rt).state_id, final(rt).balance == old(rt).balance,
        final(rt).sends == old(rt).sends || rt_pushed(old(rt), final(rt)),
        // C08 "a deal is accepted only if the client authenticated it"
        r.is_ok() ==> rt_pushed(old(rt), final(rt)) && auth_send(final(rt).sends@.last(), *proposal),
//@ entry
        proof { axiom_auth_params_hash(); }
//@ end

//@ fn actors/market/src/policy.rs deal_duration_bounds
    ensures r.0 == 180 * EPOCHS_IN_DAY, r.1 == 1278 * EPOCHS_IN_DAY,
//@ end
//@ fn actors/market/src/policy.rs deal_price_per_epoch_bounds sub0="& TOTAL_FILECOIN=>total_filecoin()"
    ensures r.0@ == 0, r.1@ == total_filecoin_spec(),
//@ end
//@ fn actors/market/src/policy.rs deal_client_collateral_bounds sub0="TOTAL_FILECOIN . clone ()=>total_filecoin().clone()" sigsub0="_ : PaddedPieceSize=>_size : PaddedPieceSize" sigsub1="_ : ChainEpoch=>_duration : ChainEpoch"
    ensures r.0@ == 0, r.1@ == total_filecoin_spec(),
//@ end
/// network-policy facts the collateral formula needs (true of every Policy in runtime/src/runtime/policy.rs: 1 / 100)
pub open spec fn pol_collateral_ok(p: Policy) -> bool { p.prov_collateral_percent_supply_num >= 0 && p.prov_collateral_percent_supply_denom > 0 }
//@ fn actors/market/src/policy.rs deal_provider_collateral_bounds sub0="TOTAL_FILECOIN . clone ()=>total_filecoin().clone()"
    requires pol_collateral_ok(*policy), size.0 > 0, network_circulating_supply@ >= 0,
    ensures r.0@ >= 0, r.1@ == total_filecoin_spec(),
//@ before "TokenAmount :: from_atto"
        proof {
            let (d, pd, n) = (power_share_denom@, policy.prov_collateral_percent_supply_denom as int, num@);
            assert(d >= size.0);
            assert(d * pd > 0) by (nonlinear_arith) requires d > 0, pd > 0;
            assert(lock_target_num@ >= 0) by (nonlinear_arith) requires lock_target_num@ == network_circulating_supply@ * (policy.prov_collateral_percent_supply_num as int), network_circulating_supply@ >= 0, policy.prov_collateral_percent_supply_num >= 0;
            assert(n >= 0) by (nonlinear_arith) requires n == (size.0 as int) * lock_target_num@, lock_target_num@ >= 0;
            vstd::arithmetic::div_mod::lemma_div_pos_is_pos(n, d * pd);
        }
//@ end

//@ fn actors/market/src/lib.rs validate_deal
    requires !old(rt).in_tx@, pol_collateral_ok(rt_policy()), old(rt).epoch >= 0,
    ensures
        rt_frame(old(rt), final(rt)),
        final(rt).state_id == old(rt).state_id, final(rt).balance == old(rt).balance,
        final(rt).sends == old(rt).sends || rt_pushed(old(rt), final(rt)),
        r.is_ok() ==> rt_pushed(old(rt), final(rt)) && auth_send(final(rt).sends@.last(), *deal),
        // what the stateless checks establish about an accepted proposal
        r.is_ok() ==> stateless_ok(deal.proposal, old(rt).epoch),
//@ end

/// lib.rs deal_cid (used by activation / expiry to find a deal in the pending set) computes the very CID under which PublishStorageDeals records it
//@ fn actors/market/src/lib.rs deal_cid rt=ref sub0="data . bytes ()=>& data"
    ensures r.is_ok() ==> r->Ok_0 == deal_cid_spec(*proposal),
//@ end

// ======================= PublishStorageDeals: the stateless validation loop (region of the method) =======================
//@ item actors/market/src/types.rs PublishStorageDealsParams
//@ item actors/market/src/types.rs PublishStorageDealsReturn
pub open spec fn pfx(a: Seq<SendRec>, b: Seq<SendRec>) -> bool { a.len() <= b.len() && forall|i: int| 0 <= i < a.len() ==> a[i] == b[i] }
/// some send of this activation, made at position `from` or later, authenticated proposal `d` (see auth_send)
pub open spec fn authed(sends: Seq<SendRec>, from: int, d: ClientDealProposal) -> bool { exists|k: int| from <= k < sends.len() && 0 <= k && auth_send(#[trigger] sends[k], d) }
pub proof fn lemma_authed_mono(a: Seq<SendRec>, b: Seq<SendRec>, from: int, d: ClientDealProposal)
    requires authed(a, from, d), pfx(a, b)
    ensures authed(b, from, d)
{
    let k = choose|k: int| from <= k < a.len() && 0 <= k && auth_send(#[trigger] a[k], d);
    assert(auth_send(b[k], d));
}
/// the verdicts recorded so far are justified: a `true` at index j means deal j was authenticated by a send of this activation and passed the stateless checks
pub open spec fn verdicts_ok(vi: Seq<bool>, deals: Seq<ClientDealProposal>, sends: Seq<SendRec>, from: int, epoch: ChainEpoch) -> bool {
    forall|j: int| 0 <= j < vi.len() && j < deals.len() && #[trigger] vi[j] ==> authed(sends, from, deals[j]) && stateless_ok(deals[j].proposal, epoch)
}
pub proof fn lemma_verdicts_step(vi: Seq<bool>, deals: Seq<ClientDealProposal>, s0: Seq<SendRec>, s1: Seq<SendRec>, from: int, epoch: ChainEpoch, v: bool)
    requires
        verdicts_ok(vi, deals, s0, from, epoch), pfx(s0, s1), vi.len() < deals.len(), 0 <= from <= s0.len(),
        v ==> s1.len() > s0.len() && auth_send(s1.last(), deals[vi.len() as int]) && stateless_ok(deals[vi.len() as int].proposal, epoch),
    ensures verdicts_ok(vi.push(v), deals, s1, from, epoch)
{
    let vi2 = vi.push(v);
    assert forall|j: int| 0 <= j < vi2.len() && j < deals.len() && #[trigger] vi2[j] implies authed(s1, from, deals[j]) && stateless_ok(deals[j].proposal, epoch) by {
        if j < vi.len() { assert(vi[j]); lemma_authed_mono(s0, s1, from, deals[j]); }
        else { assert(auth_send(s1[s1.len() - 1], deals[j])); }
    }
}

//@ fn actors/market/src/lib.rs Actor::publish_storage_deals region="for (di , deal) in params . deals . iter () . enumerate ()=>for (di , deal) in params . deals . iter () . enumerate ()" as=psd_validate params="rt: &mut Rt, params: &PublishStorageDealsParams, network_raw_power: &StoragePower, baseline_power: &StoragePower, validity_index: &mut Vec<bool>" retty="Result<(), ActorError>" tail="Ok(())" ret=res sub0="params . deals . iter () . enumerate ()=>vx_enumerate(&params.deals)"
    requires !old(rt).in_tx@, pol_collateral_ok(rt_policy()), old(rt).epoch >= 0, old(validity_index)@.len() == 0,
    ensures
        res.is_ok(),
        rt_frame(old(rt), final(rt)), final(rt).state_id == old(rt).state_id, final(rt).balance == old(rt).balance,
        pfx(old(rt).sends@, final(rt).sends@),
        final(validity_index)@.len() == params.deals@.len(),
        // C08 "a deal is accepted only if the client authenticated it": a positive verdict means an AuthenticateMessage send for THAT proposal answered true
        verdicts_ok(final(validity_index)@, params.deals@, final(rt).sends@, old(rt).sends@.len() as int, old(rt).epoch),
//@ loop 0 iter=it
            invariant
                it.seq().len() == params.deals@.len(),
                forall|j: int| 0 <= j < params.deals@.len() ==> (#[trigger] it.seq()[j]).0 == j && *it.seq()[j].1 == params.deals@[j],
                !rt.in_tx@, pol_collateral_ok(rt_policy()), rt.epoch >= 0,
                rt_frame(old(rt), rt), rt.state_id == old(rt).state_id, rt.balance == old(rt).balance,
                pfx(old(rt).sends@, rt.sends@),
                validity_index@.len() == it.index@,
                verdicts_ok(validity_index@, params.deals@, rt.sends@, old(rt).sends@.len() as int, old(rt).epoch),
//@ loopstart 0
            let ghost s0 = rt.sends@;
            let ghost vi0 = validity_index@;
//@ loopend 0
            proof {
                assert(validity_index@ == vi0.push(validity_index@.last()));
                lemma_verdicts_step(vi0, params.deals@, s0, rt.sends@, old(rt).sends@.len() as int, old(rt).epoch, validity_index@.last());
            }
//@ end

// ======================= PublishStorageDeals: the selection loop (region of the method) =======================
use ext::verifreg::AllocationRequest;
//@ fn actors/market/src/lib.rs balance_of
    requires !old(rt).in_tx@,
    ensures
        rt_frame(old(rt), final(rt)), pfx(old(rt).sends@, final(rt).sends@),
        final(rt).sends == old(rt).sends || (rt_pushed(old(rt), final(rt)) && final(rt).sends@.last().to == DATACAP_TOKEN_ACTOR_ADDR && final(rt).sends@.last().method == ext::datacap::BALANCE_OF_METHOD),
        // a query to a singleton actor: if it does not call back, this actor's state is as before
        rt_no_reentry(DATACAP_TOKEN_ACTOR_ADDR, ext::datacap::BALANCE_OF_METHOD) ==> final(rt).state_id == old(rt).state_id,
//@ end

//@ fn actors/market/src/lib.rs alloc_request_for_deal
    requires
        deal.provider.proto == 0, 0 <= deal.start_epoch <= deal.end_epoch, deal.end_epoch - deal.start_epoch <= 1278 * EPOCHS_IN_DAY,
        small(policy.market_default_allocation_term_buffer as int), small(policy.maximum_verified_allocation_expiration as int), small(curr_epoch as int),
//@ end

pub open spec fn idaddr(id: ActorID) -> Address { Address { id, proto: 0 } }
/// valid deal `v` is input deal `d` with its two parties normalised to ID addresses: the provider is the message's provider (named by ID or by the
/// address the first deal used), the client is what the signed client address resolved to; everything else is as the client signed it
pub open spec fn picked(v: ValidDeal, d: ClientDealProposal, provider_id: ActorID, provider_raw: Address) -> bool {
    &&& (d.proposal.provider == idaddr(provider_id) || d.proposal.provider == provider_raw)
    &&& v.proposal.client.proto == 0
    &&& (exists|n: nat| #[trigger] rt_resolve(d.proposal.client, n) == Some(v.proposal.client.id))
    &&& v.proposal == (DealProposal { provider: idaddr(provider_id), client: v.proposal.client, ..d.proposal })
    &&& v.serialized_proposal == ser_spec(v.proposal)
    &&& v.cid == deal_cid_spec(v.proposal)
}
/// `v` comes from an input deal that got a positive verdict in the validation loop and is flagged in the returned bitfield
pub open spec fn has_src(v: ValidDeal, deals: Seq<ClientDealProposal>, vi: Seq<bool>, bf: vstd::set::Set<u64>, provider_id: ActorID, provider_raw: Address) -> bool {
    exists|di: int| 0 <= di < deals.len() && di < vi.len() && vi[di] && bf.contains(di as u64) && #[trigger] picked(v, deals[di], provider_id, provider_raw)
}
/// what the deals `vd` require `a` to have unlocked as a CLIENT (collateral + whole fee of each of its deals)
pub open spec fn vd_creq(vd: Seq<ValidDeal>, a: Address) -> int
    decreases vd.len()
{
    if vd.len() == 0 { 0 } else {
        let p = vd.last().proposal;
        vd_creq(vd.drop_last(), a) + (if p.client == a { p.client_collateral@ + fee(p) } else { 0 })
    }
}
pub open spec fn deals_small(deals: Seq<ClientDealProposal>) -> bool { forall|j: int| 0 <= j < deals.len() ==> small((#[trigger] deals[j]).proposal.start_epoch as int) }
pub open spec fn no_dups(vd: Seq<ValidDeal>) -> bool { forall|a: int, b: int| 0 <= a < b < vd.len() ==> vd[a].cid != vd[b].cid }
/// the selection made so far (loop invariant of the second loop, and its result)
pub open spec fn sel_ok(vd: Seq<ValidDeal>, deals: Seq<ClientDealProposal>, vi: Seq<bool>, bf: vstd::set::Set<u64>, provider_id: ActorID, provider_raw: Address,
    state: State, lookup: vstd::set::Set<Cid>, tcl: Map<ActorID, TokenAmount>, tpl: int) -> bool {
    // every selected deal is an input deal that passed validation, names the message's provider, and is normalised
    &&& forall|k: int| 0 <= k < vd.len() ==> has_src(#[trigger] vd[k], deals, vi, bf, provider_id, provider_raw)
    &&& vd_wf(vd)
    // C08 "an identical pending proposal is rejected": not pending in the state the method read, and no two selected deals share a CID
    &&& forall|k: int| 0 <= k < vd.len() ==> !pend(state).contains((#[trigger] vd[k]).cid)
    &&& no_dups(vd)
    &&& lookup =~= vd_cids(vd)
    // C08 "both parties have enough unlocked escrow": cumulatively per client, and for the provider, against the state the method read
    &&& forall|c: ActorID| #[trigger] tcl.dom().contains(c) ==> tcl[c]@ == vd_creq(vd, idaddr(c)) && bal(lck(state), idaddr(c)) + tcl[c]@ <= bal(esc(state), idaddr(c))
    &&& forall|c: ActorID| !(#[trigger] tcl.dom().contains(c)) ==> vd_creq(vd, idaddr(c)) == 0
    &&& tpl == vd_pc(vd)
    &&& (vd.len() > 0 ==> bal(lck(state), idaddr(provider_id)) + tpl <= bal(esc(state), idaddr(provider_id)))
}
pub proof fn lemma_cids_push(vd: Seq<ValidDeal>, x: ValidDeal)
    ensures vd_cids(vd.push(x)) =~= vd_cids(vd).insert(x.cid)
{
    let f = |v: ValidDeal| v.cid;
    let (a, b) = (vd.push(x).map_values(f), vd.map_values(f));
    assert(a =~= b.push(x.cid));
    assert forall|c: Cid| a.to_set().contains(c) <==> b.to_set().insert(x.cid).contains(c) by {
        if a.contains(c) { let i = choose|i: int| 0 <= i < a.len() && a[i] == c; if i < b.len() { assert(b[i] == c); } }
        if b.contains(c) { let i = choose|i: int| 0 <= i < b.len() && b[i] == c; assert(a[i] == c); }
        if c == x.cid { assert(a[b.len() as int] == c); }
    }
}
pub proof fn lemma_cids_has(vd: Seq<ValidDeal>, c: Cid)
    ensures vd_cids(vd).contains(c) <==> exists|k: int| 0 <= k < vd.len() && (#[trigger] vd[k]).cid == c
{
    let f = |v: ValidDeal| v.cid;
    let a = vd.map_values(f);
    if a.contains(c) { let i = choose|i: int| 0 <= i < a.len() && a[i] == c; assert(vd[i].cid == c); }
    if exists|k: int| 0 <= k < vd.len() && (#[trigger] vd[k]).cid == c { let k = choose|k: int| 0 <= k < vd.len() && (#[trigger] vd[k]).cid == c; assert(a[k] == c); }
}
/// one more deal is selected: the invariant of the second loop is re-established
pub proof fn lemma_sel_push(vd: Seq<ValidDeal>, x: ValidDeal, di: int, deals: Seq<ClientDealProposal>, vi: Seq<bool>, bf: vstd::set::Set<u64>, provider_id: ActorID, provider_raw: Address,
    state: State, lookup: vstd::set::Set<Cid>, tcl: Map<ActorID, TokenAmount>, tpl: int, tcl2: Map<ActorID, TokenAmount>, creq2: TokenAmount)
    requires
        sel_ok(vd, deals, vi, bf, provider_id, provider_raw, state, lookup, tcl, tpl),
        0 <= di < deals.len() && di < vi.len() && vi[di] && picked(x, deals[di], provider_id, provider_raw),
        deal_wf(x.proposal), small(x.proposal.start_epoch as int),
        !pend(state).contains(x.cid), !lookup.contains(x.cid),
        tcl2 == tcl.insert(x.proposal.client.id, creq2),
        creq2@ == (if tcl.dom().contains(x.proposal.client.id) { tcl[x.proposal.client.id]@ } else { 0 }) + x.proposal.client_collateral@ + fee(x.proposal),
        bal(lck(state), x.proposal.client) + creq2@ <= bal(esc(state), x.proposal.client),
        bal(lck(state), idaddr(provider_id)) + tpl + x.proposal.provider_collateral@ <= bal(esc(state), idaddr(provider_id)),
    ensures
        sel_ok(vd.push(x), deals, vi, bf.insert(di as u64), provider_id, provider_raw, state, lookup.insert(x.cid), tcl2, tpl + x.proposal.provider_collateral@),
{
    let vd2 = vd.push(x);
    let bf2 = bf.insert(di as u64);
    assert(vd2.drop_last() =~= vd);
    assert forall|k: int| 0 <= k < vd2.len() implies has_src(#[trigger] vd2[k], deals, vi, bf2, provider_id, provider_raw) by {
        if k < vd.len() {
            assert(has_src(vd[k], deals, vi, bf, provider_id, provider_raw));
            let d0 = choose|d0: int| 0 <= d0 < deals.len() && d0 < vi.len() && vi[d0] && bf.contains(d0 as u64) && #[trigger] picked(vd[k], deals[d0], provider_id, provider_raw);
            assert(bf2.contains(d0 as u64) && picked(vd2[k], deals[d0], provider_id, provider_raw));
        } else {
            assert(bf2.contains(di as u64) && picked(vd2[k], deals[di], provider_id, provider_raw));
        }
    }
    assert forall|j: int| 0 <= j < vd2.len() implies deal_wf((#[trigger] vd2[j]).proposal) && small(vd2[j].proposal.start_epoch as int) by { if j < vd.len() { assert(vd2[j] == vd[j]); } }
    assert forall|k: int| 0 <= k < vd2.len() implies !pend(state).contains((#[trigger] vd2[k]).cid) by { if k < vd.len() { assert(vd2[k] == vd[k]); } }
    assert forall|a: int, b: int| 0 <= a < b < vd2.len() implies vd2[a].cid != vd2[b].cid by {
        if b < vd.len() { assert(vd[a].cid != vd[b].cid); } else { lemma_cids_has(vd, x.cid); if vd2[a].cid == x.cid { assert(vd[a].cid == x.cid); } }
    }
    lemma_cids_push(vd, x);
    assert(x.proposal.client == idaddr(x.proposal.client.id));
    assert forall|c: ActorID| #[trigger] tcl2.dom().contains(c) implies tcl2[c]@ == vd_creq(vd2, idaddr(c)) && bal(lck(state), idaddr(c)) + tcl2[c]@ <= bal(esc(state), idaddr(c)) by {
        if c != x.proposal.client.id { assert(tcl.dom().contains(c)); assert(idaddr(c) != x.proposal.client); }
        else if !tcl.dom().contains(c) { assert(vd_creq(vd, idaddr(c)) == 0); }
    }
    assert forall|c: ActorID| !(#[trigger] tcl2.dom().contains(c)) implies vd_creq(vd2, idaddr(c)) == 0 by {
        assert(!tcl.dom().contains(c)); assert(idaddr(c) != x.proposal.client);
    }
}

/// network-policy facts the allocation request arithmetic needs (all policy epochs are far below 2^60)
pub open spec fn pol_alloc_ok(p: Policy) -> bool { small(p.market_default_allocation_term_buffer as int) && small(p.maximum_verified_allocation_expiration as int) }

//@ fn actors/market/src/lib.rs Actor::publish_storage_deals region="for (di , mut deal) in params . deals . into_iter () . enumerate ()=>for (di , mut deal) in params . deals . into_iter () . enumerate ()" as=psd_select params="rt: &mut Rt, params: PublishStorageDealsParams, validity_index: &Vec<bool>, provider_id: ActorID, provider_raw: Address, state: &State, curr_epoch: ChainEpoch, valid_deals: &mut Vec<ValidDeal>, proposal_cid_lookup: &mut BTreeSet<Cid>, total_client_lockup: &mut BTreeMap<ActorID, TokenAmount>, client_datacap_remaining: &mut BTreeMap<ActorID, TokenAmount>, client_alloc_reqs: &mut BTreeMap<ActorID, Vec<(Cid, AllocationRequest)>>, total_provider_lockup: &mut TokenAmount, valid_input_bf: &mut BitField" retty="Result<(), ActorError>" tail="Ok(())" ret=res desugar_for=0 derefs=total_provider_lockup sub0="params . deals . into_iter () . enumerate ()=>vx_into_enumerate(params.deals)" sub1="client_alloc_reqs . entry (client_id) . or_default ()=>client_alloc_reqs.vx_at(client_id)"
    requires
        !old(rt).in_tx@, jinv(*state), pol_alloc_ok(rt_policy()), small(curr_epoch as int), 0 <= old(rt).epoch,
        verdicts_ok(validity_index@, params.deals@, old(rt).sends@, 0, old(rt).epoch), deals_small(params.deals@),
        old(valid_deals)@.len() == 0, old(proposal_cid_lookup)@ == vstd::set::Set::<Cid>::empty(), old(valid_input_bf)@ == vstd::set::Set::<u64>::empty(),
        old(total_client_lockup).view() == Map::<ActorID, TokenAmount>::empty(), old(total_provider_lockup)@ == 0,
    ensures
        rt_frame(old(rt), final(rt)), pfx(old(rt).sends@, final(rt).sends@),
        rt_no_reentry(DATACAP_TOKEN_ACTOR_ADDR, ext::datacap::BALANCE_OF_METHOD) ==> final(rt).state_id == old(rt).state_id,
        res.is_ok() ==> sel_ok(final(valid_deals)@, params.deals@, validity_index@, final(valid_input_bf)@, provider_id, provider_raw, *state,
            final(proposal_cid_lookup)@, final(total_client_lockup).view(), final(total_provider_lockup)@),
//@ entry
        let ghost deals0 = params.deals@;
        let ghost mut nproc: int = 0;
//@ loop 0
                invariant_except_break
                    0 <= nproc <= deals0.len(), __vx_it0.remaining().len() == deals0.len() - nproc,
                invariant
                    deals0 == params.deals@,
                    forall|j: int| 0 <= j < __vx_it0.remaining().len() ==> ((#[trigger] __vx_it0.remaining()[j]).0 as int) < deals0.len() && __vx_it0.remaining()[j].1 == deals0[__vx_it0.remaining()[j].0 as int],
                    !rt.in_tx@, jinv(*state), pol_alloc_ok(rt_policy()), small(curr_epoch as int), 0 <= old(rt).epoch,
                    verdicts_ok(validity_index@, deals0, old(rt).sends@, 0, old(rt).epoch), deals_small(deals0),
                    rt_frame(old(rt), rt), pfx(old(rt).sends@, rt.sends@),
                    rt_no_reentry(DATACAP_TOKEN_ACTOR_ADDR, ext::datacap::BALANCE_OF_METHOD) ==> rt.state_id == old(rt).state_id,
                    sel_ok(valid_deals@, deals0, validity_index@, valid_input_bf@, provider_id, provider_raw, *state, proposal_cid_lookup@, total_client_lockup.view(), total_provider_lockup@),
                decreases deals0.len() - nproc,
//@ loopstart 0
                let ghost rem0 = __vx_it0.remaining();
                let ghost vd0 = valid_deals@;
                let ghost bf0 = valid_input_bf@;
                let ghost lk0 = proposal_cid_lookup@;
                let ghost tcl0 = total_client_lockup.view();
                let ghost tpl0 = total_provider_lockup@;
                proof { nproc = nproc + 1; }
//@ loopend 0
                proof {
                    let x = valid_deals@.last();
                    let di = rem0[0].0 as int;
                    assert(valid_deals@ == vd0.push(x));
                    assert(rt_resolve(deals0[di].proposal.client, x.proposal.client.id as nat) == rt_resolve(deals0[di].proposal.client, x.proposal.client.id as nat));
                    lemma_sel_push(vd0, x, di, deals0, validity_index@, bf0, provider_id, provider_raw, *state, lk0, tcl0, tpl0, total_client_lockup.view(), total_client_lockup.view()[x.proposal.client.id]);
                }
//@ end

// ======================= PublishStorageDeals: the transaction closure =======================
//@ fn actors/market/src/lib.rs Actor::publish_storage_deals closure=0 as=psd_tx0 params="st: &mut State, rt: &Rt, valid_deals: &Vec<ValidDeal>, deal_allocation_ids: &BTreeMap<Cid, AllocationID>, new_deal_ids: &mut Vec<DealID>" retty="Result<(), ActorError>" derefs=new_deal_ids ret=res
    requires
        jinv(*old(st)),
        vd_wf(valid_deals@),
        old(new_deal_ids)@.len() == 0,
        old(st).next_id + valid_deals@.len() < u64::MAX,                                    // the id counter does not wrap
        rt_policy().deal_updates_interval > 0, small(rt_policy().deal_updates_interval as int),
    ensures
        res.is_ok() ==> tx_post(*old(st), *final(st), valid_deals@, final(new_deal_ids)@),
//@ loop 0 iter=it
            invariant
                it.seq().len() == valid_deals@.len(),
                forall|j: int| 0 <= j < valid_deals@.len() ==> *(#[trigger] it.seq()[j]) == valid_deals@[j],
                vd_wf(valid_deals@), rt_policy().deal_updates_interval > 0, small(rt_policy().deal_updates_interval as int),
                old(st).next_id + valid_deals@.len() < u64::MAX,
                jinv(*st),
                st.next_id == old(st).next_id + it.index@,
                st.escrow_table == old(st).escrow_table, st.proposals == old(st).proposals, st.states == old(st).states,
                st.pending_proposals == old(st).pending_proposals,
                forall|a: Address| #[trigger] bal(lck(*st), a) == bal(lck(*old(st)), a) + vd_lock(valid_deals@.take(it.index@ as int), a),
                st.total_client_locked_collateral@ == old(st).total_client_locked_collateral@ + vd_cc(valid_deals@.take(it.index@ as int)),
                st.total_provider_locked_collateral@ == old(st).total_provider_locked_collateral@ + vd_pc(valid_deals@.take(it.index@ as int)),
                st.total_client_storage_fee@ == old(st).total_client_storage_fee@ + vd_fee(valid_deals@.take(it.index@ as int)),
                pending_deals@.len() == it.index@,
                forall|j: int| 0 <= j < it.index@ ==> #[trigger] pending_deals@[j] == valid_deals@[j].cid,
                deal_proposals@.len() == it.index@,
                forall|j: int| 0 <= j < it.index@ ==> #[trigger] deal_proposals@[j] == ((old(st).next_id + j) as u64, valid_deals@[j].proposal),
                new_deal_ids@.len() == it.index@,
                forall|j: int| 0 <= j < it.index@ ==> #[trigger] new_deal_ids@[j] == old(st).next_id + j,
//@ loopstart 0
                let ghost lck0 = lck(*st);
                let ghost i0 = it.index@ as int;
//@ loopend 0
                proof {
                    assert(valid_deals@.take(i0 + 1).drop_last() =~= valid_deals@.take(i0));
                    assert(valid_deals@.take(i0 + 1).last() == valid_deals@[i0]);
                    assert forall|a: Address| #[trigger] bal(lck(*st), a) == bal(lck(*old(st)), a) + vd_lock(valid_deals@.take(i0 + 1), a) by {
                        assert(bal(lck0, a) == bal(lck(*old(st)), a) + vd_lock(valid_deals@.take(i0), a));
                    }
                }
//@ before "Ok (())"
            proof {
                assert(valid_deals@.take(valid_deals@.len() as int) =~= valid_deals@);
                assert(pending_deals@ =~= valid_deals@.map_values(|v: ValidDeal| v.cid));
                assert(deal_proposals@ =~= vd_pairs(valid_deals@, old(st).next_id as int));
            }
//@ end


// ======================= PublishStorageDeals: the helpers that talk to other actors =======================
//@ fn actors/market/src/lib.rs request_current_baseline_power
    requires !old(rt).in_tx@,
    ensures rt_frame(old(rt), final(rt)), pfx(old(rt).sends@, final(rt).sends@),
        rt_no_reentry(REWARD_ACTOR_ADDR, ext::reward::THIS_EPOCH_REWARD_METHOD) ==> final(rt).state_id == old(rt).state_id,
//@ end
//@ fn actors/market/src/lib.rs request_current_network_power
    requires !old(rt).in_tx@,
    ensures rt_frame(old(rt), final(rt)), pfx(old(rt).sends@, final(rt).sends@),
        rt_no_reentry(STORAGE_POWER_ACTOR_ADDR, ext::power::CURRENT_TOTAL_POWER_METHOD) ==> final(rt).state_id == old(rt).state_id,
//@ end
//@ fn actors/market/src/lib.rs transfer_from
    requires !old(rt).in_tx@,
    ensures
        rt_frame(old(rt), final(rt)), pfx(old(rt).sends@, final(rt).sends@),
        rt_no_reentry(DATACAP_TOKEN_ACTOR_ADDR, ext::datacap::TRANSFER_FROM_METHOD) ==> final(rt).state_id == old(rt).state_id,
//@ end

// ======================= PublishStorageDeals: whole method =======================
//@ item actors/market/src/types.rs MarketNotifyDealParams
/// what no send, event or caller validation changes of the runtime (rt_frame of prelude/rt.rs without `validated`)
pub open spec fn rt_same(o: &Rt, f: &Rt) -> bool { f.epoch == o.epoch && f.tx_log == o.tx_log && f.msg == o.msg && f.in_tx == o.in_tx && f.read_only == o.read_only }
/// EXPLICIT ASSUMPTION (prelude/rt.rs: never made implicitly): the five queries this method sends to built-in actors before its transaction — the
/// provider's miner actor (IsControllingAddress), reward (ThisEpochReward), power (CurrentTotalPower), datacap (Balance, TransferFrom) — do not call
/// back into the market actor. Under it, the state read before the selection loop is the state the transaction starts from. (The
/// AuthenticateMessage sends need no such assumption: they are read-only.) Every clause that does not mention `quiet` holds without it.
pub open spec fn quiet(provider_id: ActorID) -> bool {
    &&& rt_no_reentry(idaddr(provider_id), ext::miner::IS_CONTROLLING_ADDRESS_EXPORTED)
    &&& rt_no_reentry(REWARD_ACTOR_ADDR, ext::reward::THIS_EPOCH_REWARD_METHOD)
    &&& rt_no_reentry(STORAGE_POWER_ACTOR_ADDR, ext::power::CURRENT_TOTAL_POWER_METHOD)
    &&& rt_no_reentry(DATACAP_TOKEN_ACTOR_ADDR, ext::datacap::BALANCE_OF_METHOD)
    &&& rt_no_reentry(DATACAP_TOKEN_ACTOR_ADDR, ext::datacap::TRANSFER_FROM_METHOD)
}
/// "the caller acts for the provider": send `s` asked miner `provider_id` whether `caller` is one of its owner / worker / control addresses, and it said yes
pub open spec fn ctrl_send(s: SendRec, provider_id: ActorID, caller: Address) -> bool {
    &&& s.to == idaddr(provider_id) && s.method == ext::miner::IS_CONTROLLING_ADDRESS_EXPORTED && s.value == 0 && s.ok
    &&& s.params == Some(IpldBlock { h: cbor_hash(ext::miner::IsControllingAddressParam { address: caller }) })
    &&& deser_spec::<ext::miner::IsControllingAddressReturn>(s.ret).is_controlling
}
/// the deals `vd` were published under `ids` (top-level statement of C08 for PublishStorageDeals, part that needs no assumption on other actors);
/// `from` = number of sends of the activation before the method started
pub open spec fn published(vd: Seq<ValidDeal>, deals: Seq<ClientDealProposal>, sends: Seq<SendRec>, from: int, epoch: ChainEpoch, provider_id: ActorID, provider_raw: Address,
    bf: vstd::set::Set<u64>, ids: Seq<DealID>, s1: State) -> bool {
    // (6) at least one proposal was valid; one id per published deal, one flag per published deal
    &&& vd.len() > 0 && ids.len() == vd.len() && bf.len() == vd.len()
    // (1) + (2): every published deal is a proposal of the message that the client authenticated (a read-only AuthenticateMessage send to ITS client over
    //     ITS bytes and signature, made by this call, answered true), names the message's provider, passed the stateless checks, and is stored with both
    //     parties as ID addresses
    &&& forall|k: int| 0 <= k < vd.len() ==> has_auth_src(#[trigger] vd[k], deals, sends, from, epoch, bf, provider_id, provider_raw)
    // (3) no two deals published by the same call share a proposal CID, and afterwards every one of them is pending
    &&& no_dups(vd)
    &&& forall|k: int| 0 <= k < vd.len() ==> pend(s1).contains((#[trigger] vd[k]).cid)
    // (4) each is stored in the proposals table under its own id; ids strictly increase in message order (no id is handed out twice)
    &&& forall|k: int| 0 <= k < vd.len() ==> props_m(s1).dom().contains(#[trigger] ids[k]) && props_m(s1)[ids[k]] == vd[k].proposal
    &&& forall|a: int, b: int| 0 <= a < b < vd.len() ==> ids[a] < ids[b]
}
pub open spec fn has_auth_src(v: ValidDeal, deals: Seq<ClientDealProposal>, sends: Seq<SendRec>, from: int, epoch: ChainEpoch, bf: vstd::set::Set<u64>, provider_id: ActorID, provider_raw: Address) -> bool {
    exists|di: int| 0 <= di < deals.len() && bf.contains(di as u64) && #[trigger] picked(v, deals[di], provider_id, provider_raw)
        && authed(sends, from, deals[di]) && stateless_ok(deals[di].proposal, epoch)
}
/// an id that is written was never used before: stored proposals all have ids below next_id, before and after, and none of them is overwritten
pub open spec fn fresh_ids(s0: State, s1: State) -> bool {
    props_below(s0) ==> props_below(s1) && forall|id: u64| #[trigger] props_m(s0).dom().contains(id) ==> props_m(s1).dom().contains(id) && props_m(s1)[id] == props_m(s0)[id]
}
/// there is a list `vd` of published deals (the method's local `valid_deals`) and a state `spre` (the one the transaction started from) such that ...
pub open spec fn publish_ok(deals: Seq<ClientDealProposal>, sends: Seq<SendRec>, from: int, epoch: ChainEpoch, provider_id: ActorID, provider_raw: Address,
    bf: vstd::set::Set<u64>, ids: Seq<DealID>, s0: State, s1: State) -> bool {
    exists|vd: Seq<ValidDeal>, spre: State| #![trigger published(vd, deals, sends, from, epoch, provider_id, provider_raw, bf, ids, s1), tx_post(spre, s1, vd, ids)]
        // (1)–(4), (6)
        published(vd, deals, sends, from, epoch, provider_id, provider_raw, bf, ids, s1)
        // (4), (5) relative to the state the transaction started from: ids from next_id on, locked balances and market-wide totals grow by exactly the
        //     published deals' amounts and stay within escrow (see `tx_post`); no stored proposal is overwritten
        && tx_post(spre, s1, vd, ids) && fresh_ids(spre, s1)
        // ... which is the state before the call if the queried built-in actors do not call back; then (3): none of the CIDs was pending before the call
        && (quiet(provider_id) ==> spre == s0 && forall|k: int| 0 <= k < vd.len() ==> !pend(s0).contains((#[trigger] vd[k]).cid))
}
/// put_all_p with the consecutive fresh keys base, base+1, ...: entry base+k is proposal k; every other key is untouched
pub proof fn lemma_put_all(m: Map<u64, DealProposal>, vd: Seq<ValidDeal>, base: int)
    requires 0 <= base, base + vd.len() < u64::MAX
    ensures
        forall|k: int| 0 <= k < vd.len() ==> #[trigger] put_all_p(m, vd_pairs(vd, base)).dom().contains((base + k) as u64) && put_all_p(m, vd_pairs(vd, base))[(base + k) as u64] == vd[k].proposal,
        forall|id: u64| !(base <= id < base + vd.len()) ==> (#[trigger] put_all_p(m, vd_pairs(vd, base)).dom().contains(id) <==> m.dom().contains(id)),
        forall|id: u64| !(base <= id < base + vd.len()) && m.dom().contains(id) ==> #[trigger] put_all_p(m, vd_pairs(vd, base))[id] == m[id],
    decreases vd.len()
{
    if vd.len() > 0 {
        let t = vd.drop_last();
        lemma_put_all(m, t, base);
        assert(vd_pairs(vd, base).drop_last() =~= vd_pairs(t, base));
        let r = put_all_p(m, vd_pairs(vd, base));
        let rt_ = put_all_p(m, vd_pairs(t, base));
        assert(r == rt_.insert((base + vd.len() - 1) as u64, vd.last().proposal));
        assert forall|k: int| 0 <= k < vd.len() implies #[trigger] r.dom().contains((base + k) as u64) && r[(base + k) as u64] == vd[k].proposal by {
            if k < t.len() { assert(rt_.dom().contains((base + k) as u64)); assert(t[k] == vd[k]); }
        }
    }
}
/// assembling the top-level statement from what the loops and the transaction established
pub proof fn lemma_published(vd: Seq<ValidDeal>, deals: Seq<ClientDealProposal>, vi: Seq<bool>, bf: vstd::set::Set<u64>, provider_id: ActorID, provider_raw: Address,
    state: State, lookup: vstd::set::Set<Cid>, tcl: Map<ActorID, TokenAmount>, tpl: int, sv: Seq<SendRec>, sends: Seq<SendRec>, from: int, epoch: ChainEpoch,
    ids: Seq<DealID>, spre: State, s1: State)
    requires
        sel_ok(vd, deals, vi, bf, provider_id, provider_raw, state, lookup, tcl, tpl), verdicts_ok(vi, deals, sv, from, epoch), pfx(sv, sends),
        vd.len() > 0, bf.len() == vd.len(), tx_post(spre, s1, vd, ids), spre.next_id + vd.len() < u64::MAX,
    ensures published(vd, deals, sends, from, epoch, provider_id, provider_raw, bf, ids, s1), fresh_ids(spre, s1)
{
    assert forall|k: int| 0 <= k < vd.len() implies has_auth_src(#[trigger] vd[k], deals, sends, from, epoch, bf, provider_id, provider_raw) by {
        assert(has_src(vd[k], deals, vi, bf, provider_id, provider_raw));
        let di = choose|di: int| 0 <= di < deals.len() && di < vi.len() && vi[di] && bf.contains(di as u64) && #[trigger] picked(vd[k], deals[di], provider_id, provider_raw);
        lemma_authed_mono(sv, sends, from, deals[di]);
        assert(picked(vd[k], deals[di], provider_id, provider_raw) && authed(sends, from, deals[di]) && stateless_ok(deals[di].proposal, epoch));
    }
    assert forall|k: int| 0 <= k < vd.len() implies pend(s1).contains((#[trigger] vd[k]).cid) by { lemma_cids_has(vd, vd[k].cid); }
    lemma_put_all(props_m(spre), vd, spre.next_id as int);
    assert forall|k: int| 0 <= k < vd.len() implies props_m(s1).dom().contains(#[trigger] ids[k]) && props_m(s1)[ids[k]] == vd[k].proposal by {
        assert(ids[k] == (spre.next_id + k) as u64);
        assert(put_all_p(props_m(spre), vd_pairs(vd, spre.next_id as int)).dom().contains((spre.next_id + k) as u64));
    }
    if props_below(spre) {
        assert forall|id: u64| #[trigger] props_m(s1).dom().contains(id) implies id < s1.next_id by {
            if !(spre.next_id <= id < spre.next_id + vd.len()) { assert(props_m(spre).dom().contains(id)); }
        }
        assert forall|id: u64| #[trigger] props_m(spre).dom().contains(id) implies props_m(s1).dom().contains(id) && props_m(s1)[id] == props_m(spre)[id] by {
            assert(id < spre.next_id);
        }
    }
}

//@ fn actors/market/src/lib.rs Actor::publish_storage_deals free ret=res tx0="State;psd_tx0;&mut __vx_st, rt, &valid_deals, &deal_allocation_ids, &mut new_deal_ids" desugar_for=1 r17 sub0="params . deals . iter () . enumerate ()=>vx_enumerate(&params.deals)" sub1="params . deals . into_iter () . enumerate ()=>vx_into_enumerate(params.deals)" sub2="client_alloc_reqs . entry (client_id) . or_default ()=>client_alloc_reqs.vx_at(client_id)" sub3="cids_and_reqs . iter () . map (| (_ , req) | req . clone ()) . collect ()=>vx_reqs_of(cids_and_reqs)" sub4="& (alloc_ids . iter ()) [__vx_z0]=>& alloc_ids [__vx_z0]" sub5="(alloc_ids . iter ()) . len ()=>alloc_ids . len ()" sub7="let & deal_id = & (& new_deal_ids) [__vx_z1]=>let deal_id = (& new_deal_ids) [__vx_z1]" sub8="_ = extract_send_result=>let _vx_ignored = extract_send_result" sub6="struct ValidDeal { proposal : DealProposal , serialized_proposal : RawBytes , cid : Cid , }=>;"
    requires
        !old(rt).in_tx@, old(rt).tx_log@.len() == 0,
        0 <= old(rt).epoch, small(old(rt).epoch as int),
        // network policy constants are sane (true of every Policy in runtime/src/runtime/policy.rs)
        pol_collateral_ok(rt_policy()), pol_alloc_ok(rt_policy()), rt_policy().deal_updates_interval > 0, small(rt_policy().deal_updates_interval as int),
        // start epochs are far below 2^60 (NOT enforced by validate_deal: see the report — next_update_epoch would overflow)
        deals_small(params.deals@),
        // the market state invariant of C06 holds of every state this actor can be in; the id counter is not about to wrap
        forall|id: int| jinv(#[trigger] rt_state::<State>(id)),
        forall|id: int| (#[trigger] rt_state::<State>(id)).next_id + params.deals@.len() < u64::MAX,
    ensures
        res.is_ok() ==> ({
            let n0 = old(rt).sends@.len() as int;
            let provider_raw = params.deals@[0].proposal.provider;
            let provider_id = rt_resolve(provider_raw, n0 as nat)->Some_0;
            let s0 = rt_state::<State>(old(rt).state_id@);
            let s1 = rt_state::<State>(final(rt).tx_log@[0]);
            let ret = res->Ok_0;
            &&& params.deals@.len() > 0 && final(rt).tx_log@.len() == 1 && pfx(old(rt).sends@, final(rt).sends@)
            // (2) the provider of the message is a miner actor, and the caller is one of its owner / worker / control addresses
            &&& rt_resolve(provider_raw, n0 as nat).is_some() && rt_code_of(provider_id).is_some() && rt_builtin_type(rt_code_of(provider_id)->Some_0) == Some(Type::Miner)
            &&& final(rt).sends@.len() > n0 && ctrl_send(final(rt).sends@[n0], provider_id, old(rt).msg.caller)
            // (1)–(4), (6): see `published`
            // (1)–(6): see `publish_ok`
            &&& publish_ok(params.deals@, final(rt).sends@, n0, old(rt).epoch, provider_id, provider_raw, ret.valid_deals@, ret.ids@, s0, s1)
        }),
//@ entry
        let ghost deals0 = params.deals@;
        let ghost n0 = rt.sends@.len() as int;
        let ghost mut nproc: int = 0;
//@ before "let mut validity_index"
        let ghost sc = rt.sends@;
        proof { assert(sc.len() == n0 + 1); }
//@ loop 0 iter=it
            invariant
                it.seq().len() == params.deals@.len(), deals0 == params.deals@,
                forall|j: int| 0 <= j < params.deals@.len() ==> (#[trigger] it.seq()[j]).0 == j && *it.seq()[j].1 == params.deals@[j],
                !rt.in_tx@, pol_collateral_ok(rt_policy()), rt.epoch >= 0,
                rt_same(old(rt), rt), pfx(sc, rt.sends@),
                quiet(provider_id) ==> rt.state_id == old(rt).state_id,
                validity_index@.len() == it.index@,
                verdicts_ok(validity_index@, params.deals@, rt.sends@, n0, old(rt).epoch), 0 <= n0 <= rt.sends@.len(),
//@ loopstart 0
            let ghost sl0 = rt.sends@;
            let ghost vi0 = validity_index@;
//@ loopend 0
            proof {
                assert(validity_index@ == vi0.push(validity_index@.last()));
                lemma_verdicts_step(vi0, params.deals@, sl0, rt.sends@, n0, old(rt).epoch, validity_index@.last());
            }
//@ before "let mut valid_deals : Vec"
        let ghost sv = rt.sends@;
//@ loop 1
                invariant_except_break
                    0 <= nproc <= deals0.len(), __vx_it1.remaining().len() == deals0.len() - nproc,
                invariant
                    forall|j: int| 0 <= j < __vx_it1.remaining().len() ==> ((#[trigger] __vx_it1.remaining()[j]).0 as int) < deals0.len() && __vx_it1.remaining()[j].1 == deals0[__vx_it1.remaining()[j].0 as int],
                    !rt.in_tx@, jinv(state), pol_alloc_ok(rt_policy()), small(curr_epoch as int), 0 <= old(rt).epoch,
                    verdicts_ok(validity_index@, deals0, sv, n0, old(rt).epoch), deals_small(deals0),
                    rt_same(old(rt), rt), pfx(sv, rt.sends@),
                    quiet(provider_id) ==> rt.state_id == old(rt).state_id,
                    valid_deals@.len() + __vx_it1.remaining().len() <= deals0.len(),
                    sel_ok(valid_deals@, deals0, validity_index@, valid_input_bf@, provider_id, provider_raw, state, proposal_cid_lookup@, total_client_lockup.view(), total_provider_lockup@),
                decreases deals0.len() - nproc,
//@ loopstart 1
                let ghost rem0 = __vx_it1.remaining();
                let ghost vd0 = valid_deals@;
                let ghost bf0 = valid_input_bf@;
                let ghost lk0 = proposal_cid_lookup@;
                let ghost tcl0 = total_client_lockup.view();
                let ghost tpl0 = total_provider_lockup@;
                proof { nproc = nproc + 1; }
//@ loopend 1
                proof {
                    let x = valid_deals@.last();
                    let di = rem0[0].0 as int;
                    assert(valid_deals@ == vd0.push(x));
                    lemma_sel_push(vd0, x, di, deals0, validity_index@, bf0, provider_id, provider_raw, state, lk0, tcl0, tpl0, total_client_lockup.view(), total_client_lockup.view()[x.proposal.client.id]);
                }
//@ loop 2 iter=it2
            invariant
                !rt.in_tx@, rt_same(old(rt), rt), pfx(sv, rt.sends@),
                quiet(provider_id) ==> rt.state_id == old(rt).state_id,
//@ loop 3
                invariant
                    cids_and_reqs@.len() == alloc_ids@.len(),
//@ loop 4
            invariant
                !rt.in_tx@, rt.tx_log == tx_log1, pfx(sv, rt.sends@), valid_deals@.len() == new_deal_ids@.len(),
                forall|k: int| 0 <= k < valid_deals@.len() ==> (#[trigger] valid_deals@[k]).proposal.client.proto == 0 && valid_deals@[k].proposal.provider.proto == 0,
//@ before "let valid_deal_count = valid_input_bf . len ()"
        let ghost spre = rt_state::<State>(rt.state_id@);
//@ before "for __vx_z1 in 0"
        let ghost tx_log1 = rt.tx_log;
        let ghost s1 = rt_state::<State>(rt.state_id@);
        proof {
            assert(tx_log1@.len() == 1 && tx_log1@[0] == rt.state_id@);
            assert(tx_post(spre, s1, valid_deals@, new_deal_ids@));
            assert forall|k: int| 0 <= k < valid_deals@.len() implies (#[trigger] valid_deals@[k]).proposal.client.proto == 0 && valid_deals@[k].proposal.provider.proto == 0 by {
                assert(has_src(valid_deals@[k], deals0, validity_index@, valid_input_bf@, provider_id, provider_raw));
            }
        }
//@ before "Ok"
        proof {
            lemma_published(valid_deals@, deals0, validity_index@, valid_input_bf@, provider_id, provider_raw, state, proposal_cid_lookup@, total_client_lockup.view(), total_provider_lockup@,
                sv, rt.sends@, n0, old(rt).epoch, new_deal_ids@, spre, s1);
            assert(pfx(sc, rt.sends@));
            assert(rt.sends@[n0] == sc[n0]);
            assert(rt.tx_log@[0] == tx_log1@[0]);
            let s0g = rt_state::<State>(old(rt).state_id@);
            if quiet(provider_id) {
                assert(spre == s0g && state == spre);
                assert forall|k: int| 0 <= k < valid_deals@.len() implies !pend(s0g).contains((#[trigger] valid_deals@[k]).cid) by {}
            }
            assert(published(valid_deals@, deals0, rt.sends@, n0, old(rt).epoch, provider_id, provider_raw, valid_input_bf@, new_deal_ids@, s1) && tx_post(spre, s1, valid_deals@, new_deal_ids@));
            assert(publish_ok(deals0, rt.sends@, n0, old(rt).epoch, provider_id, provider_raw, valid_input_bf@, new_deal_ids@, s0g, s1));
        }
//@ end
} // verus!
fn main() {}
