// unit: EVM instruction implementations NOT covered by units/C17/evm_arith — stack (PUSHn DUPn SWAPn POP), control flow
// (JUMP JUMPI JUMPDEST INVALID STOP RETURN REVERT), memory (MLOAD MSTORE MSTORE8 MSIZE MCOPY), call data / code
// (CALLDATALOAD CALLDATASIZE CALLDATACOPY CODESIZE CODECOPY), storage (SLOAD SSTORE TLOAD TSTORE), hashing (KECCAK256) —
// against Yellow-Paper / EIP spec functions over `int` and `Seq<u8>` (C17).
//
// usize = 64 bit (host / reference semantics). With `global size_of usize == 4` the only failing obligations are the three
// instantiations of `get_memory_region` (overflow in `Memory::grow`): finding F3 of C18, not repeated here.
//
// Trusted base added by this unit (all in prelude/, nothing in this file):
//   prelude/evm_instr_bytes.rs          U256::from_big_endian / write_as_big_endian, slice helpers (copy_within, sub-slice, to_vec,
//                                       array prefix copy), Option::filter, From<u64>/From<u128>/Default for U256, hash_64 (Keccak
//                                       uninterpreted), and the ARITHMETIC MEANING of the macro be_u64! of instructions/stack.rs
//                                       (vx cannot extract macro_rules items).
//   prelude/evm_instr_stack_assumed.rs  logical contract of the unsafe `Stack::dup`.
// Companion Kani crate (real files, fully symbolic words): /verif/.work/evm-instr/kani — `push_NN` run the real stack.rs with its
// real be_u64!/be_shift! macros (discharges the macro assumption), `d_*`/`u_*` run the real text of instructions/mod.rs (every
// `def_*!` macro and every opcode definition) and prove the operand order µ_s[0] → first parameter for all 147 opcodes, `PC`, and
// the opcode values of execution.rs against the Yellow Paper table.
//
// Substitutions used (all listed in the evidence by vx): monomorphisation of `impl TryInto<u32>` / `System<impl Runtime>`; the
// wildcard parameter `_` named; slice expressions Verus has no spec for replaced by prelude helpers whose body is the original
// expression; the two `map_err(|_| ..)` closures of get_memory_region and the `filter(|&start| ..)` closure of calldataload given an
// explicit `ensures` (Verus learns nothing from an un-annotated closure; the annotated closure body is verified against it).
//@ include prelude/core.rs
//@ include prelude/ipld.rs
//@ include prelude/rt.rs
//@ include prelude/cbor.rs
//@ include prelude/u256.rs
//@ include prelude/kamt.rs
//@ include prelude/slices.rs
//@ include prelude/evm_instr_bytes.rs
macro_rules! debug_assert_eq { ($($t:tt)*) => { () } }
verus! {
global size_of usize == 8;
// items that derive `Structural` stay outside `mod evm` (this Verus crashes on the derive inside a nested module)
//@ item actors/evm/src/interpreter/output.rs Outcome attr="#[derive(Clone, Copy, PartialEq, Eq, Structural)]"
//@ item actors/evm/src/state.rs Tombstone attr="#[derive(Clone, Copy, PartialEq, Eq, Structural)]"
//@ item actors/evm/src/state.rs TransientDataLifespan attr="#[derive(Clone, Copy, PartialEq, Eq, Structural)]"
//@ item actors/evm/src/state.rs TransientData attr="#[derive(Clone, Copy, PartialEq, Eq, Structural)]"
pub mod evm {
use super::*;
broadcast use super::u256_axioms::u256_range;

//@ const actors/evm/src/lib.rs EVM_CONTRACT_INVALID_INSTRUCTION
//@ const actors/evm/src/lib.rs EVM_CONTRACT_STACK_UNDERFLOW
//@ const actors/evm/src/lib.rs EVM_CONTRACT_STACK_OVERFLOW
//@ const actors/evm/src/lib.rs EVM_CONTRACT_ILLEGAL_MEMORY_ACCESS
//@ const actors/evm/src/lib.rs EVM_CONTRACT_BAD_JUMPDEST
//@ const actors/evm/src/lib.rs EVM_WORD_SIZE
//@ const actors/evm/src/interpreter/stack.rs STACK_SIZE
//@ const actors/evm/src/interpreter/memory.rs PAGE_SIZE
pub mod opcodes {
//@ opcode actors/evm/src/interpreter/execution.rs JUMPDEST
//@ opcode actors/evm/src/interpreter/execution.rs PUSH1
//@ opcode actors/evm/src/interpreter/execution.rs PUSH32
}
pub struct EthAddress(pub [u8; 20]);
//@ implconst actors/evm/shared/src/uints.rs U256::ZERO
    ensures Self::ZERO@ == 0
//@ end
pub type ErrorNumber = u32;
//@ item actors/evm/src/interpreter/stack.rs Stack
//@ include prelude/evm_instr_stack_assumed.rs
//@ item actors/evm/src/interpreter/bytecode.rs Bytecode
//@ item actors/evm/src/interpreter/memory.rs Memory
//@ item actors/evm/src/interpreter/instructions/memory.rs MemoryRegion
//@ item actors/evm/src/interpreter/output.rs Output
//@ item actors/evm/src/interpreter/execution.rs ExecutionState
// the `System` model of unit C19 (same item directives)
//@ item actors/evm/src/state.rs State
//@ item actors/evm/src/interpreter/system.rs EvmBytecode attr="#[derive(Clone, Copy)]"
//@ item actors/evm/src/interpreter/system.rs StateKamt
//@ item actors/evm/src/interpreter/system.rs System tsub0="< 'r , RT : Runtime >=>< 'r >" tsub1="& 'r RT=>& 'r mut Rt" tsub2="RT :: Blockstore=>&'static Store"

// =====================================================================================================================
// Abstract machine state the Yellow Paper speaks about
// =====================================================================================================================
/// the stack µ_s as a sequence, TOP = LAST element; "the stack never exceeds 1024 items" (YP 9.1)
pub open spec fn stack_ok(s: Stack) -> bool { s.stack@.len() <= 1024 }
/// µ_s[k] of the Yellow Paper: the k-th item counted from the top
pub open spec fn mu_s(s: Seq<U256>, k: int) -> U256 { s[s.len() - 1 - k] }
/// memory µ_m is an infinite, zero-initialised byte array of which the first µ_i words are "active":
/// the view is the active prefix; every byte beyond it reads as zero
pub open spec fn mem_byte(m: Seq<u8>, i: int) -> u8 { if 0 <= i < m.len() { m[i] } else { 0u8 } }
pub open spec fn round32(n: int) -> int { if n % 32 == 0 { n } else { n + (32 - n % 32) } }
/// YP (H.1) M(s, f, l), in bytes: the active size after an access to [f, f+l); an access of length 0 never expands
pub open spec fn mem_size_after(len: int, f: int, l: int) -> int {
    if l == 0 { len } else if round32(f + l) > len { round32(f + l) } else { len }
}
/// the active size is a whole number of 32-byte words
pub open spec fn mem_ok(m: Memory) -> bool { m.0@.len() % 32 == 0 }
/// everything of the execution state except the memory is untouched
pub open spec fn same_but_memory(a: ExecutionState, b: ExecutionState) -> bool {
    a.stack == b.stack && a.input_data == b.input_data && a.return_data == b.return_data && a.caller == b.caller
        && a.receiver == b.receiver && a.value_received == b.value_received
}
/// FEVM has no gas-priced memory: instead any access whose end exceeds 2^32 - 1 fails with ILLEGAL_MEMORY_ACCESS (38)
pub open spec fn mem_access_ok(f: int, l: int) -> bool { l == 0 || (l <= u32::MAX && f + l <= u32::MAX) }
/// memory after touching [f, f+l) without writing: expanded, old bytes kept, new bytes zero
pub open spec fn mem_expanded(old_m: Seq<u8>, new_m: Seq<u8>, f: int, l: int) -> bool {
    new_m.len() == mem_size_after(old_m.len() as int, f, l)
        && forall|i: int| 0 <= i < new_m.len() ==> #[trigger] new_m[i] == mem_byte(old_m, i)
}

/// two windows with the same (zero-extended) bytes have the same big-endian value
pub broadcast proof fn lemma_be_at_ext(a: Seq<u8>, offa: int, b: Seq<u8>, offb: int, n: nat)
    requires forall|k: int| 0 <= k < n ==> #[trigger] w_at(a, offa, k) == w_at(b, offb, k)
    ensures #[trigger] be_at(a, offa, n) == #[trigger] be_at(b, offb, n)
    decreases n
{
    if n > 0 {
        lemma_be_at_ext(a, offa, b, offb, (n - 1) as nat);
        assert(w_at(a, offa, n - 1) == w_at(b, offb, n - 1));
    }
}

// =====================================================================================================================
// interpreter/stack.rs (safe functions, contract text of unit C18/evm_bounds)
// =====================================================================================================================
//@ fn actors/evm/src/interpreter/stack.rs Stack::len
    ensures r == self.stack@.len(),
//@ end
//@ fn actors/evm/src/interpreter/stack.rs Stack::push
    requires stack_ok(*old(self)),
    ensures
        stack_ok(*final(self)),
        r.is_ok() <==> old(self).stack@.len() < 1024,
        r.is_ok() ==> final(self).stack@ == old(self).stack@.push(value),
        r.is_err() ==> final(self).stack@ == old(self).stack@ && r->Err_0.code == 37,
//@ end
//@ fn actors/evm/src/interpreter/stack.rs Stack::drop
    ensures
        r.is_ok() <==> old(self).stack@.len() > 0,
        r.is_ok() ==> final(self).stack@ == old(self).stack@.drop_last(),
        r.is_err() ==> final(self).stack@ == old(self).stack@ && r->Err_0.code == 36,
//@ end
//@ fn actors/evm/src/interpreter/stack.rs Stack::swap_top
    ensures
        r.is_ok() <==> old(self).stack@.len() > i,
        r.is_ok() ==> ({
            let n = old(self).stack@.len() as int;
            final(self).stack@ == old(self).stack@.update(n - 1 - i, old(self).stack@[n - 1]).update(n - 1, old(self).stack@[n - 1 - i])
        }),
        r.is_err() ==> final(self).stack@ == old(self).stack@ && r->Err_0.code == 36,
        final(self).stack@.len() == old(self).stack@.len(),
//@ end

// =====================================================================================================================
// (1) instructions/stack.rs: PUSHn, DUPn, SWAPn, POP
// =====================================================================================================================
/// YP PUSHn: µ'_s[0] = c(µ_pc + 1 .. µ_pc + n) where c(x) = I_b[x] if x < |I_b| and 0 otherwise, read as a big-endian number.
/// `code` is the code from µ_pc + 1 on.
pub open spec fn yp_push(code: Seq<u8>, n: nat) -> int { be_at(code, 0, n) }

//@ fn actors/evm/src/interpreter/instructions/stack.rs push sub0="padded [.. code . len ()] . copy_from_slice (code)=>vx_arr_copy_prefix(&mut padded, code.len(), code)"
    requires stack_ok(*old(stack)), LEN <= 32,
    ensures
        stack_ok(*final(stack)),
        // the only failure is stack overflow, and then nothing is pushed
        r.is_ok() <==> old(stack).stack@.len() < 1024,
        r.is_err() ==> final(stack).stack@ == old(stack).stack@ && r->Err_0.code == 37,
        // exactly one word is pushed: the big-endian value of the next LEN code bytes, zeros where the code has ended
        r.is_ok() ==> final(stack).stack@.len() == old(stack).stack@.len() + 1
            && final(stack).stack@.drop_last() == old(stack).stack@
            && final(stack).stack@.last()@ == yp_push(code@, LEN as nat),
        // the program counter advances over the immediate
        r.is_ok() ==> r->Ok_0 == LEN,
//@ entry
        broadcast use lemma_be_at_ext;
//@ end

//@ fn actors/evm/src/interpreter/instructions/stack.rs dup
    requires stack_ok(*old(stack)), 1 <= HEIGHT,
    ensures
        stack_ok(*final(stack)),
        // YP DUPn: µ'_s[0] = µ_s[n-1], everything else below it unchanged
        r.is_ok() <==> old(stack).stack@.len() >= HEIGHT && old(stack).stack@.len() < 1024,
        r.is_ok() ==> final(stack).stack@ == old(stack).stack@.push(mu_s(old(stack).stack@, HEIGHT - 1)),
        r.is_err() ==> final(stack).stack@ == old(stack).stack@
            && r->Err_0.code == (if old(stack).stack@.len() >= 1024 { 37u32 } else { 36u32 }),
//@ end

//@ fn actors/evm/src/interpreter/instructions/stack.rs swap
    ensures
        // YP SWAPn: µ'_s[0] = µ_s[n], µ'_s[n] = µ_s[0], every other item unchanged
        r.is_ok() <==> old(stack).stack@.len() > HEIGHT,
        r.is_ok() ==> final(stack).stack@.len() == old(stack).stack@.len()
            && mu_s(final(stack).stack@, 0) == mu_s(old(stack).stack@, HEIGHT as int)
            && mu_s(final(stack).stack@, HEIGHT as int) == mu_s(old(stack).stack@, 0)
            && forall|k: int| 0 <= k < old(stack).stack@.len() && k != 0 && k != HEIGHT ==> mu_s(final(stack).stack@, k) == mu_s(old(stack).stack@, k),
        r.is_err() ==> final(stack).stack@ == old(stack).stack@ && r->Err_0.code == 36,
//@ end

//@ fn actors/evm/src/interpreter/instructions/stack.rs pop
    ensures
        // YP POP: removes µ_s[0]
        r.is_ok() <==> old(stack).stack@.len() > 0,
        r.is_ok() ==> final(stack).stack@ == old(stack).stack@.drop_last(),
        r.is_err() ==> final(stack).stack@ == old(stack).stack@ && r->Err_0.code == 36,
//@ end


// =====================================================================================================================
// interpreter/memory.rs, instructions/memory.rs: growth and regions (contract text of unit C18/evm_memory.inc)
// =====================================================================================================================
//@ fn actors/evm/src/interpreter/memory.rs Memory::reserve_pages suball0="self . 0 . len ()=>self.0.len()"
    requires PAGE_SIZE * pages <= usize::MAX, PAGE_SIZE * pages >= old(self).0@.len(),
    ensures final(self).0@ == old(self).0@,
//@ end
//@ fn actors/evm/src/interpreter/memory.rs Memory::grow sub0="self . len ()=>self.0.len()"
    requires
        new_size as int + 4096 <= usize::MAX,       // no wrap-around in the alignment and page arithmetic
    ensures
        // memory only grows, in whole 32-byte words; old contents are kept and new bytes are zero
        final(self).0@.len() == (if new_size <= old(self).0@.len() { old(self).0@.len() as int } else { round32(new_size as int) }),
        final(self).0@.len() >= old(self).0@.len(), final(self).0@.len() >= new_size,
        old(self).0@.len() % 32 == 0 ==> final(self).0@.len() % 32 == 0,
        forall|i: int| 0 <= i < final(self).0@.len() ==> #[trigger] final(self).0@[i] == (if i < old(self).0@.len() { old(self).0@[i] } else { 0u8 }),
//@ end

// `get_memory_region(mem, offset: impl TryInto<u32>, size: impl TryInto<u32>)` at the three operand-type pairs the instructions use.
// One contract, written once over (offset, size) as integers:
/// the region covers exactly [f, f+l), memory has been expanded as the Yellow Paper's M(µ_i, f, l) says, nothing was overwritten
pub open spec fn region_spec(old_m: Seq<u8>, new_m: Seq<u8>, f: int, l: int, r: Result<Option<MemoryRegion>, ActorError>) -> bool {
    &&& (r.is_ok() <==> mem_access_ok(f, l))
    &&& (r.is_err() ==> r->Err_0.code == 38 && new_m == old_m)
    &&& (r.is_ok() ==> (r->Ok_0.is_none() <==> l == 0))
    &&& (r.is_ok() && l == 0 ==> new_m == old_m)
    &&& (r.is_ok() && l != 0 ==> r->Ok_0->Some_0.offset == f && r->Ok_0->Some_0.size.v == l && new_m.len() >= f + l)
    // old bytes are kept, new bytes are zero; the active size follows M(µ_i, f, l) (stated for a word-aligned active size, which
    // `Memory::default` establishes and every growth preserves)
    &&& (forall|i: int| 0 <= i < new_m.len() ==> #[trigger] new_m[i] == mem_byte(old_m, i))
    &&& (r.is_ok() && old_m.len() % 32 == 0 ==> mem_expanded(old_m, new_m, f, l))
    &&& (old_m.len() % 32 == 0 ==> new_m.len() % 32 == 0)
}
//@ fn actors/evm/src/interpreter/instructions/memory.rs get_memory_region sigsub0="impl TryInto < u32 >=>U256" sub0="unsafe { NonZeroUsize :: new_unchecked (size as usize) }=>NonZeroUsize::new_unchecked(size as usize)" suball1="| _vx_unused |=>|_vx_unused| -> (e: ActorError) ensures e.code == 38"
    requires 0 <= size@, 0 <= offset@,
    ensures region_spec(old(mem).0@, final(mem).0@, offset@, size@, r),
//@ end
//@ fn actors/evm/src/interpreter/instructions/memory.rs get_memory_region as=get_memory_region_word sigsub0="offset : impl TryInto < u32 >=>offset : U256" sigsub1="size : impl TryInto < u32 >=>size : usize" sub0="unsafe { NonZeroUsize :: new_unchecked (size as usize) }=>NonZeroUsize::new_unchecked(size as usize)" suball1="| _vx_unused |=>|_vx_unused| -> (e: ActorError) ensures e.code == 38"
    ensures region_spec(old(mem).0@, final(mem).0@, offset@, size as int, r),
//@ end
//@ fn actors/evm/src/interpreter/instructions/memory.rs get_memory_region as=get_memory_region_byte sigsub0="offset : impl TryInto < u32 >=>offset : U256" sigsub1="size : impl TryInto < u32 >=>size : i32" sub0="unsafe { NonZeroUsize :: new_unchecked (size as usize) }=>NonZeroUsize::new_unchecked(size as usize)" suball1="| _vx_unused |=>|_vx_unused| -> (e: ActorError) ensures e.code == 38"
    requires size >= 0,
    ensures region_spec(old(mem).0@, final(mem).0@, offset@, size as int, r),
//@ end

// =====================================================================================================================
// (3) instructions/memory.rs: MLOAD, MSTORE, MSTORE8, MSIZE, MCOPY
// =====================================================================================================================
/// YP MLOAD: µ'_s[0] = µ_m[µ_s[0] .. µ_s[0] + 31], big-endian, over the zero-extended memory
pub open spec fn yp_mload(m: Seq<u8>, a: int) -> int { be_at(m, a, 32) }
/// YP MSTORE: µ'_m[µ_s[0] .. µ_s[0] + 31] = µ_s[1] (big-endian); every other byte as before
pub open spec fn yp_mstore_byte(m: Seq<u8>, a: int, v: int, i: int) -> u8 { if a <= i < a + 32 { be_byte(v, i - a) } else { mem_byte(m, i) } }
/// YP MSTORE8: µ'_m[µ_s[0]] = µ_s[1] mod 256
pub open spec fn yp_mstore8_byte(m: Seq<u8>, a: int, v: int, i: int) -> u8 { if i == a { (v % 256) as u8 } else { mem_byte(m, i) } }
/// EIP-5656 MCOPY: "copies length bytes from src to dst ... as if an intermediate buffer was used, allowing the destination and
/// source to overlap": every destination byte is the OLD byte of the source window
pub open spec fn eip5656_byte(m: Seq<u8>, dst: int, src: int, len: int, i: int) -> u8 { if dst <= i < dst + len { mem_byte(m, src + (i - dst)) } else { mem_byte(m, i) } }
pub open spec fn max_int(a: int, b: int) -> int { if a >= b { a } else { b } }

//@ fn actors/evm/src/interpreter/instructions/memory.rs mload ops=keep sigsub0="System < impl Runtime >=>System" sub0="get_memory_region (& mut state . memory , index , EVM_WORD_SIZE)=>get_memory_region_word(&mut state.memory, index, EVM_WORD_SIZE)" sub1="& state . memory [region . offset .. region . offset + region . size . get ()]=>vx_subslice(&state.memory.0, region.offset, region.offset + region.size.get())"
    requires mem_ok(old(state).memory),
    ensures
        mem_ok(final(state).memory), same_but_memory(*old(state), *final(state)),
        r.is_ok() <==> index@ + 32 <= u32::MAX,
        r.is_err() ==> r->Err_0.code == 38 && final(state).memory.0@ == old(state).memory.0@,
        // the word read, and the expansion of the active memory (no byte changes)
        r.is_ok() ==> r->Ok_0@ == yp_mload(old(state).memory.0@, index@)
            && mem_expanded(old(state).memory.0@, final(state).memory.0@, index@, 32),
//@ entry
        broadcast use lemma_be_at_ext;
//@ end

//@ fn actors/evm/src/interpreter/instructions/memory.rs mstore ops=keep sigsub0="System < impl Runtime >=>System" sub0="get_memory_region (& mut state . memory , index , EVM_WORD_SIZE)=>get_memory_region_word(&mut state.memory, index, EVM_WORD_SIZE)" sub1="value . write_as_big_endian (& mut state . memory [region . offset .. region . offset + EVM_WORD_SIZE])=>vx_write_be(&mut state.memory.0, region.offset, region.offset + EVM_WORD_SIZE, value)"
    requires mem_ok(old(state).memory),
    ensures
        mem_ok(final(state).memory), same_but_memory(*old(state), *final(state)),
        r.is_ok() <==> index@ + 32 <= u32::MAX,
        r.is_err() ==> r->Err_0.code == 38 && final(state).memory.0@ == old(state).memory.0@,
        r.is_ok() ==> final(state).memory.0@.len() == mem_size_after(old(state).memory.0@.len() as int, index@, 32)
            && forall|i: int| 0 <= i < final(state).memory.0@.len() ==> #[trigger] final(state).memory.0@[i] == yp_mstore_byte(old(state).memory.0@, index@, value@, i),
//@ end

//@ fn actors/evm/src/interpreter/instructions/memory.rs mstore8 ops=keep sigsub0="System < impl Runtime >=>System" sub0="get_memory_region (& mut state . memory , index , 1)=>get_memory_region_byte(&mut state.memory, index, 1)" sub1="state . memory [region . offset] = value=>state.memory.0[region.offset] = value"
    requires mem_ok(old(state).memory),
    ensures
        mem_ok(final(state).memory), same_but_memory(*old(state), *final(state)),
        r.is_ok() <==> index@ + 1 <= u32::MAX,
        r.is_err() ==> r->Err_0.code == 38 && final(state).memory.0@ == old(state).memory.0@,
        r.is_ok() ==> final(state).memory.0@.len() == mem_size_after(old(state).memory.0@.len() as int, index@, 1)
            && forall|i: int| 0 <= i < final(state).memory.0@.len() ==> #[trigger] final(state).memory.0@[i] == yp_mstore8_byte(old(state).memory.0@, index@, value@, i),
//@ entry
        proof {
            assert(forall|x: u32| #[trigger] (x & 0xff) == x % 256) by (bit_vector);
            vstd::arithmetic::div_mod::lemma_mod_mod(value@, 256, 0x100_0000);
        }
//@ end

//@ fn actors/evm/src/interpreter/instructions/memory.rs msize sigsub0="System < impl Runtime >=>System" sub0="state . memory . len ()=>state.memory.0.len()"
    ensures
        // YP MSIZE: 32 · µ_i, the active memory size in bytes
        r.is_ok() && r->Ok_0@ == old(state).memory.0@.len(), *final(state) == *old(state),
//@ end

//@ fn actors/evm/src/interpreter/instructions/memory.rs copy_within_memory ops=keep sub0="memory . copy_within (source_range , destination_index)=>vx_copy_within(&mut memory.0, source_range.start, source_range.end, destination_index)"
    requires mem_ok(*old(memory)), size@ > 0,
    ensures
        mem_ok(*final(memory)),
        r.is_ok() <==> src_index@ + size@ <= u32::MAX && dest_index@ + size@ <= u32::MAX,
        r.is_err() ==> r->Err_0.code == 38,
        // nothing is overwritten on failure (the active size may already have grown for the source window)
        r.is_err() ==> forall|i: int| 0 <= i < final(memory).0@.len() ==> #[trigger] final(memory).0@[i] == mem_byte(old(memory).0@, i),
        r.is_ok() ==> final(memory).0@.len() == max_int(mem_size_after(old(memory).0@.len() as int, src_index@, size@), mem_size_after(old(memory).0@.len() as int, dest_index@, size@))
            && forall|i: int| 0 <= i < final(memory).0@.len() ==> #[trigger] final(memory).0@[i] == eip5656_byte(old(memory).0@, dest_index@, src_index@, size@, i),
//@ end

//@ fn actors/evm/src/interpreter/instructions/memory.rs mcopy sigsub0="_ : & System < impl Runtime >=>_sys : & System"
    requires mem_ok(old(state).memory),
    ensures
        mem_ok(final(state).memory), same_but_memory(*old(state), *final(state)),
        // EIP-5656: a zero-length copy is a no-op that does not expand memory, whatever the offsets
        size@ == 0 ==> r.is_ok() && final(state).memory.0@ == old(state).memory.0@,
        r.is_ok() <==> size@ == 0 || (src_index@ + size@ <= u32::MAX && dest_index@ + size@ <= u32::MAX),
        r.is_err() ==> r->Err_0.code == 38
            && forall|i: int| 0 <= i < final(state).memory.0@.len() ==> #[trigger] final(state).memory.0@[i] == mem_byte(old(state).memory.0@, i),
        r.is_ok() && size@ > 0 ==> final(state).memory.0@.len() == max_int(mem_size_after(old(state).memory.0@.len() as int, src_index@, size@), mem_size_after(old(state).memory.0@.len() as int, dest_index@, size@))
            && forall|i: int| 0 <= i < final(state).memory.0@.len() ==> #[trigger] final(state).memory.0@[i] == eip5656_byte(old(state).memory.0@, dest_index@, src_index@, size@, i),
//@ end

// =====================================================================================================================
// interpreter/bytecode.rs: jump-destination analysis (contract text of unit C18/evm_bounds) + the Yellow-Paper reading of it
// =====================================================================================================================
/// Yellow-Paper 9.4.3, N(i, w): the position of the next instruction
pub open spec fn next_instr(code: Seq<u8>, i: int) -> int {
    if 0x60 <= code[i] <= 0x7f { i + (code[i] - 0x60) + 2 } else { i + 1 }
}
/// i is reached by walking instruction by instruction from `from`
pub open spec fn reaches(code: Seq<u8>, from: int, i: int) -> bool
    decreases (if from < code.len() { code.len() - from } else { 0 })
{
    if from >= code.len() || from > i || from < 0 { false }
    else if from == i { true }
    else { reaches(code, next_instr(code, from), i) }
}
/// D(c): the valid jump destinations — JUMPDEST bytes at instruction boundaries (not inside PUSH data)
pub open spec fn valid_dest(code: Seq<u8>, i: int) -> bool { 0 <= i < code.len() && reaches(code, 0, i) && code[i] == 0x5b }
/// the analysed bytecode: the `jumpdest` table is exactly D(code)
pub open spec fn bc_ok(b: Bytecode) -> bool {
    b.jumpdest@.len() == b.code@.len() && forall|k: int| 0 <= k < b.code@.len() ==> (#[trigger] b.jumpdest@[k] <==> valid_dest(b.code@, k))
}

//@ fn actors/evm/src/interpreter/bytecode.rs Bytecode::new attr="#[verifier::loop_isolation(false)]"
    requires
        bytecode@.len() < usize::MAX - 40,      // a byte vector is at most isize::MAX long
    ensures
        r.code@ == bytecode@,
        bc_ok(r),
//@ loop 0
            invariant
                jumpdest@.len() == bytecode@.len(),
                0 <= i,
                // i is an instruction boundary (or past the end, having walked a whole instruction)
                i < bytecode@.len() ==> reaches(bytecode@, 0, i as int),
                // everything below i is decided; nothing at or above i is marked yet
                forall|k: int| 0 <= k < i && k < bytecode@.len() ==> (#[trigger] jumpdest@[k] <==> valid_dest(bytecode@, k)),
                forall|k: int| i <= k < bytecode@.len() ==> !(#[trigger] jumpdest@[k]),
                // positions strictly between the last boundary and i are not boundaries: recorded as "walk from 0 to k passes through i or stops before"
                forall|k: int| #![trigger reaches(bytecode@, 0, k)] i <= k < bytecode@.len() ==> (reaches(bytecode@, 0, k) <==> reaches(bytecode@, i as int, k)),
                // one-step unfolding of the walk (a fact about the definition, carried so that the solver may use it for every k)
                forall|a: int, k: int| #![trigger reaches(bytecode@, a, k)] 0 <= a < k < bytecode@.len() ==> reaches(bytecode@, a, k) == reaches(bytecode@, next_instr(bytecode@, a), k),
                forall|a: int| #![trigger reaches(bytecode@, a, a)] 0 <= a < bytecode@.len() ==> reaches(bytecode@, a, a),
                forall|a: int, k: int| #![trigger reaches(bytecode@, a, k)] a > k ==> !reaches(bytecode@, a, k),
                i <= bytecode@.len() + 33,
            decreases bytecode@.len() + 40 - i,
//@ end
//@ fn actors/evm/src/interpreter/bytecode.rs Bytecode::valid_jump_destination
    ensures r == (offset < self.jumpdest@.len() && self.jumpdest@[offset as int]), self.jumpdest@.len() <= usize::MAX,
//@ end

// =====================================================================================================================
// (2) instructions/control.rs: JUMP, JUMPI, JUMPDEST, INVALID, STOP, RETURN, REVERT
// =====================================================================================================================
/// Landing on a JUMPDEST and executing it (a no-op that advances the counter by one) are fused by the implementation:
/// a successful jump to `dest` continues at dest + 1. (Gas, the only other effect of JUMPDEST, does not exist in FEVM.)
//@ fn actors/evm/src/interpreter/instructions/control.rs jump
    requires bc_ok(*bytecode),
    ensures
        // YP JUMP: J_JUMP(µ) = µ_s[0]; exceptional halt unless µ_s[0] ∈ D(I_b)  (here: BAD_JUMPDEST, 39)
        r.is_ok() <==> valid_dest(bytecode.code@, dest@),
        r.is_ok() ==> r->Ok_0 == dest@ + 1,
        r.is_err() ==> r->Err_0.code == 39,
//@ entry
        proof { assert(bytecode.jumpdest.len() <= usize::MAX); }
//@ end
//@ fn actors/evm/src/interpreter/instructions/control.rs jumpi
    requires bc_ok(*bytecode), pc < usize::MAX,
    ensures
        // YP JUMPI: J_JUMPI(µ) = µ_s[0] if µ_s[1] ≠ 0, µ_pc + 1 otherwise; the destination is checked only when the jump is taken
        test@ == 0 ==> r.is_ok() && r->Ok_0 == pc + 1,
        test@ != 0 ==> (r.is_ok() <==> valid_dest(bytecode.code@, dest@)),
        test@ != 0 && r.is_ok() ==> r->Ok_0 == dest@ + 1,
        r.is_err() ==> r->Err_0.code == 39,
//@ entry
        proof { assert(bytecode.jumpdest.len() <= usize::MAX); }
//@ end

//@ fn actors/evm/src/interpreter/instructions/control.rs nop sigsub0="System < impl Runtime >=>System"
    ensures r.is_ok(), *final(_state) == *old(_state),       // YP JUMPDEST: no effect on machine state
//@ end
//@ fn actors/evm/src/interpreter/instructions/control.rs invalid sigsub0="System < impl Runtime >=>System"
    ensures r.is_err() && r->Err_0.code == 34, *final(_state) == *old(_state),   // YP INVALID: designated invalid instruction → exceptional halt
//@ end
//@ fn actors/evm/src/interpreter/instructions/control.rs stop sigsub0="System < impl Runtime >=>System"
    ensures
        // YP STOP: halts; H(µ, I) = () — the empty output, a normal (non-reverting) halt
        r.is_ok() && r->Ok_0.return_data@.len() == 0 && r->Ok_0.outcome == Outcome::Return && r->Ok_0.pc == pc,
        *final(_state) == *old(_state),
//@ end

/// YP RETURN / REVERT: H_RETURN(µ) = µ_m[µ_s[0] .. µ_s[0] + µ_s[1] − 1], µ'_i = M(µ_i, µ_s[0], µ_s[1])
pub open spec fn yp_output(old_m: Seq<u8>, new_m: Seq<u8>, offset: int, size: int, status: Outcome, pc: usize, r: Result<Output, ActorError>) -> bool {
    &&& (r.is_ok() <==> mem_access_ok(offset, size))
    &&& (r.is_err() ==> r->Err_0.code == 38 && new_m == old_m)
    &&& (r.is_ok() ==> r->Ok_0.outcome == status && r->Ok_0.pc == pc && r->Ok_0.return_data@.len() == size
            && forall|k: int| 0 <= k < size ==> #[trigger] r->Ok_0.return_data@[k] == mem_byte(old_m, offset + k))
    // a zero-length output never touches memory, whatever the offset
    &&& (size == 0 ==> new_m == old_m)
    &&& (r.is_ok() ==> mem_expanded(old_m, new_m, offset, size))
}
//@ fn actors/evm/src/interpreter/instructions/control.rs exit ops=keep r10map sub0="super :: memory :: get_memory_region=>get_memory_region" sub1="memory [region . offset .. region . offset + region . size . get ()] . to_vec ()=>vx_slice_to_vec(&memory.0, region.offset, region.offset + region.size.get())"
    requires mem_ok(*old(memory)),
    ensures mem_ok(*final(memory)), yp_output(old(memory).0@, final(memory).0@, offset@, size@, status, pc, r),
//@ end
//@ fn actors/evm/src/interpreter/instructions/control.rs ret sigsub0="System < impl Runtime >=>System"
    requires mem_ok(old(state).memory),
    ensures
        mem_ok(final(state).memory), same_but_memory(*old(state), *final(state)),
        yp_output(old(state).memory.0@, final(state).memory.0@, offset@, size@, Outcome::Return, pc, r),
//@ end
//@ fn actors/evm/src/interpreter/instructions/control.rs revert sigsub0="System < impl Runtime >=>System"
    requires mem_ok(old(state).memory),
    ensures
        mem_ok(final(state).memory), same_but_memory(*old(state), *final(state)),
        yp_output(old(state).memory.0@, final(state).memory.0@, offset@, size@, Outcome::Revert, pc, r),
//@ end

// =====================================================================================================================
// (4) instructions/call.rs: CALLDATALOAD, CALLDATASIZE, CALLDATACOPY, CODESIZE, CODECOPY  (+ copy_to_memory of memory.rs)
// =====================================================================================================================
/// a window of zero bytes has the value zero
pub broadcast proof fn lemma_be_at_zero(s: Seq<u8>, off: int, n: nat)
    requires forall|k: int| 0 <= k < n ==> #[trigger] w_at(s, off, k) == 0
    ensures #[trigger] be_at(s, off, n) == 0
    decreases n
{
    if n > 0 { lemma_be_at_zero(s, off, (n - 1) as nat); assert(w_at(s, off, n - 1) == 0); }
}
/// YP CALLDATALOAD: µ'_s[0] = I_d[µ_s[0] .. µ_s[0] + 31], with I_d[x] = 0 for x ≥ |I_d|
pub open spec fn yp_calldataload(input: Seq<u8>, a: int) -> int { be_at(input, a, 32) }
/// YP CALLDATACOPY / CODECOPY (and the other *COPY): µ'_m[µ_s[0] + i] = data[µ_s[1] + i] if µ_s[1] + i < |data|, 0 (for CODECOPY:
/// STOP = 0) otherwise, for 0 ≤ i < µ_s[2]; every other byte as before
pub open spec fn yp_copy_byte(m: Seq<u8>, dst: int, len: int, data: Seq<u8>, src: int, i: int) -> u8 {
    if dst <= i < dst + len { c_at(data, src + (i - dst)) as u8 } else { mem_byte(m, i) }
}
pub open spec fn yp_copy(old_m: Seq<u8>, new_m: Seq<u8>, dst: int, len: int, data: Seq<u8>, src: int, r: Result<(), ActorError>) -> bool {
    &&& (r.is_ok() <==> mem_access_ok(dst, len))
    &&& (r.is_err() ==> r->Err_0.code == 38 && new_m == old_m)
    // a zero-length copy never touches memory
    &&& (len == 0 ==> new_m == old_m)
    &&& (r.is_ok() ==> new_m.len() == mem_size_after(old_m.len() as int, dst, len)
            && forall|i: int| 0 <= i < new_m.len() ==> #[trigger] new_m[i] == yp_copy_byte(old_m, dst, len, data, src, i))
}

// R14: the helper nested in copy_to_memory, lifted out as a free function (as in C18)
//@ fn actors/evm/src/interpreter/instructions/memory.rs copy_to_memory nested=min as=ctm_min ops=keep
    ensures r as int == (if a@ < b as int { a@ } else { b as int }),
//@ end
//@ fn actors/evm/src/interpreter/instructions/memory.rs copy_to_memory ops=keep lift="min=>ctm_min" sub0="memory [region . offset .. region . offset + copy_size] . copy_from_slice (& data [data_offset .. data_offset + copy_size])=>vx_copy_from_slice(&mut memory.0, region.offset, region.offset + copy_size, data, data_offset, data_offset + copy_size)" sub1="memory [region . offset + copy_size .. region . offset + region . size . get ()] . fill (0)=>vx_fill(&mut memory.0, region.offset + copy_size, region.offset + region.size.get(), 0)"
    requires mem_ok(*old(memory)),
    ensures
        mem_ok(*final(memory)),
        zero_fill ==> yp_copy(old(memory).0@, final(memory).0@, dest_offset@, dest_size@, data@, data_offset@, r),
//@ end

//@ fn actors/evm/src/interpreter/instructions/call.rs calldataload ops=keep r10map sigsub0="_ : & System < impl Runtime >=>_sys : & System" suball0="crate :: EVM_WORD_SIZE=>EVM_WORD_SIZE" sub1="| & start | start < input_len=>|start: &usize| -> (b: bool) ensures b == (*start < input_len) { *start < input_len }" sub2="data [.. end - start] . copy_from_slice (& state . input_data [start .. end])=>vx_arr_copy_prefix(&mut data, end - start, vx_subslice(&state.input_data, start, end))"
    ensures
        r.is_ok() && r->Ok_0@ == yp_calldataload(old(state).input_data@, index@),
        *final(state) == *old(state),
//@ entry
        broadcast use lemma_be_at_ext, lemma_be_at_zero;
//@ end
//@ fn actors/evm/src/interpreter/instructions/call.rs calldatasize sigsub0="_ : & System < impl Runtime >=>_sys : & System"
    ensures
        r.is_ok() && r->Ok_0@ == old(state).input_data@.len(),      // YP CALLDATASIZE: |I_d|
        *final(state) == *old(state),
//@ end
//@ fn actors/evm/src/interpreter/instructions/call.rs calldatacopy sigsub0="_ : & System < impl Runtime >=>_sys : & System"
    requires mem_ok(old(state).memory),
    ensures
        mem_ok(final(state).memory), same_but_memory(*old(state), *final(state)),
        yp_copy(old(state).memory.0@, final(state).memory.0@, mem_index@, size@, old(state).input_data@, input_index@, r),
//@ end
//@ fn actors/evm/src/interpreter/instructions/call.rs codesize sigsub0="_ : & System < impl Runtime >=>_sys : & System"
    ensures
        r.is_ok() && r->Ok_0@ == code@.len(),       // YP CODESIZE: |I_b|
        *final(_state) == *old(_state),
//@ entry
        proof {
            assert(p256() > 0xffff_ffff_ffff_ffff) by (compute);
            vstd::arithmetic::div_mod::lemma_small_mod(code@.len(), p256() as nat);
        }
//@ end
//@ fn actors/evm/src/interpreter/instructions/call.rs codecopy sigsub0="_ : & System < impl Runtime >=>_sys : & System"
    requires mem_ok(old(state).memory),
    ensures
        mem_ok(final(state).memory), same_but_memory(*old(state), *final(state)),
        yp_copy(old(state).memory.0@, final(state).memory.0@, mem_index@, size@, code@, input_index@, r),
//@ end

// =====================================================================================================================
// (5) instructions/storage.rs: SLOAD, SSTORE, TLOAD (EIP-1153), TSTORE over the `System` cache (set_* contract text of unit C19)
// =====================================================================================================================
/// σ[I_a]_s[k] — the value of a storage slot; a slot that is absent from the map holds zero (YP: the storage trie only
/// contains non-zero values)
pub open spec fn slot_val(m: Map<U256, U256>, k: U256) -> int { if m.dom().contains(k) { m[k]@ } else { 0 } }
/// YP SSTORE: σ'[I_a]_s[µ_s[0]] = µ_s[1] and no other slot changes; a zero value removes the slot
pub open spec fn yp_store(old_m: Map<U256, U256>, new_m: Map<U256, U256>, key: U256, value: int) -> bool {
    &&& slot_val(new_m, key) == value
    &&& (value == 0 ==> !new_m.dom().contains(key))
    &&& forall|k: U256| k != key ==> #[trigger] new_m.dom().contains(k) == old_m.dom().contains(k) && slot_val(new_m, k) == slot_val(old_m, k)
}
/// everything of the System except the two slot maps and the dirty flag
pub open spec fn sys_rest_same(a: &System, b: &System) -> bool {
    a.nonce == b.nonce && a.tombstone == b.tombstone && a.bytecode == b.bytecode && a.readonly == b.readonly && *a.rt == *b.rt
        && a.current_transient_data_lifespan == b.current_transient_data_lifespan
}

//@ fn actors/evm/src/interpreter/system.rs System::get_storage impl="impl<'r> System<'r>"
    ensures
        r.is_ok() ==> r->Ok_0@ == slot_val(old(self).slots.view(), key),
        r.is_err() ==> r->Err_0.code == 20,
        final(self).slots.view() == old(self).slots.view(), final(self).transient_slots.view() == old(self).transient_slots.view(),
        final(self).saved_state_root == old(self).saved_state_root, sys_rest_same(old(self), final(self)),
//@ end
//@ fn actors/evm/src/interpreter/system.rs System::get_transient_storage impl="impl<'r> System<'r>"
    ensures
        r.is_ok() ==> r->Ok_0@ == slot_val(old(self).transient_slots.view(), key),
        r.is_err() ==> r->Err_0.code == 20,
        final(self).slots.view() == old(self).slots.view(), final(self).transient_slots.view() == old(self).transient_slots.view(),
        final(self).saved_state_root == old(self).saved_state_root, sys_rest_same(old(self), final(self)),
//@ end
//@ fn actors/evm/src/interpreter/system.rs System::set_storage impl="impl<'r> System<'r>" r10rmap
    ensures
        r.is_ok() ==> final(self).slots.view() == (if value@ == 0 { old(self).slots.view().remove(key) } else { old(self).slots.view().insert(key, value) }),
        // dirty exactly when the stored map changed
        r.is_ok() ==> final(self).saved_state_root == (if (value@ == 0 && old(self).slots.view().dom().contains(key))
                || (value@ != 0 && !(old(self).slots.view().dom().contains(key) && old(self).slots.view()[key]@ == value@)) { None::<Cid> } else { old(self).saved_state_root }),
        final(self).transient_slots == old(self).transient_slots, sys_rest_same(old(self), final(self)),
        r.is_err() ==> final(self).slots.view() == old(self).slots.view() && final(self).saved_state_root == old(self).saved_state_root && r->Err_0.code == 20,
//@ end
//@ fn actors/evm/src/interpreter/system.rs System::set_transient_storage impl="impl<'r> System<'r>" r10rmap
    ensures
        r.is_ok() ==> final(self).transient_slots.view() == (if value@ == 0 { old(self).transient_slots.view().remove(key) } else { old(self).transient_slots.view().insert(key, value) }),
        r.is_ok() ==> final(self).saved_state_root == (if (value@ == 0 && old(self).transient_slots.view().dom().contains(key))
                || (value@ != 0 && !(old(self).transient_slots.view().dom().contains(key) && old(self).transient_slots.view()[key]@ == value@)) { None::<Cid> } else { old(self).saved_state_root }),
        final(self).slots == old(self).slots, sys_rest_same(old(self), final(self)),
        r.is_err() ==> final(self).transient_slots.view() == old(self).transient_slots.view() && final(self).saved_state_root == old(self).saved_state_root && r->Err_0.code == 20,
//@ end

//@ fn actors/evm/src/interpreter/instructions/storage.rs sload sigsub0="System < impl Runtime >=>System"
    ensures
        // YP SLOAD: µ'_s[0] = σ[I_a]_s[µ_s[0]]; nothing changes
        r.is_ok() ==> r->Ok_0@ == slot_val(old(system).slots.view(), location),
        r.is_err() ==> r->Err_0.code == 20,         // only a failing block store (KAMT error)
        final(system).slots.view() == old(system).slots.view(), final(system).transient_slots.view() == old(system).transient_slots.view(),
        final(system).saved_state_root == old(system).saved_state_root, sys_rest_same(old(system), final(system)),
        *final(_state) == *old(_state),
//@ end
//@ fn actors/evm/src/interpreter/instructions/storage.rs sstore sigsub0="System < impl Runtime >=>System"
    ensures
        // EIP-214: in a static context SSTORE is an exceptional halt with no effect (USR_READ_ONLY, 25)
        old(system).readonly ==> r.is_err() && r->Err_0.code == 25 && final(system).slots.view() == old(system).slots.view()
            && final(system).saved_state_root == old(system).saved_state_root,
        // YP SSTORE: the slot now holds the value (what a later SLOAD of the same key reads), no other slot changes, zero deletes
        r.is_ok() ==> !old(system).readonly && yp_store(old(system).slots.view(), final(system).slots.view(), key, value@),
        // the only other failure is a failing block store, and then nothing is written
        r.is_err() && !old(system).readonly ==> r->Err_0.code == 20 && final(system).slots.view() == old(system).slots.view(),
        final(system).transient_slots.view() == old(system).transient_slots.view(), sys_rest_same(old(system), final(system)),
        *final(_state) == *old(_state),
//@ end
//@ fn actors/evm/src/interpreter/instructions/storage.rs tload sigsub0="System < impl Runtime >=>System"
    ensures
        // EIP-1153 TLOAD: the value of the transient slot, zero if never written
        r.is_ok() ==> r->Ok_0@ == slot_val(old(system).transient_slots.view(), location),
        r.is_err() ==> r->Err_0.code == 20,
        final(system).slots.view() == old(system).slots.view(), final(system).transient_slots.view() == old(system).transient_slots.view(),
        final(system).saved_state_root == old(system).saved_state_root, sys_rest_same(old(system), final(system)),
        *final(_state) == *old(_state),
//@ end
//@ fn actors/evm/src/interpreter/instructions/storage.rs tstore sigsub0="System < impl Runtime >=>System"
    ensures
        // EIP-1153: "If the TSTORE opcode is called within the context of a STATICCALL, it will result in an exception"
        old(system).readonly ==> r.is_err() && r->Err_0.code == 25 && final(system).transient_slots.view() == old(system).transient_slots.view()
            && final(system).saved_state_root == old(system).saved_state_root,
        r.is_ok() ==> !old(system).readonly && yp_store(old(system).transient_slots.view(), final(system).transient_slots.view(), key, value@),
        r.is_err() && !old(system).readonly ==> r->Err_0.code == 20 && final(system).transient_slots.view() == old(system).transient_slots.view(),
        final(system).slots.view() == old(system).slots.view(), sys_rest_same(old(system), final(system)),
        *final(_state) == *old(_state),
//@ end

// =====================================================================================================================
// (6) instructions/hash.rs: KECCAK256
// =====================================================================================================================
//@ fn actors/evm/src/interpreter/instructions/hash.rs keccak256 ops=keep sigsub0="System < impl Runtime >=>System" sub0="& state . memory [region . offset .. region . offset + region . size . get ()]=>vx_subslice(&state.memory.0, region.offset, region.offset + region.size.get())"
    requires mem_ok(old(state).memory),
    ensures
        mem_ok(final(state).memory), same_but_memory(*old(state), *final(state)),
        r.is_ok() <==> mem_access_ok(index@, size@),
        r.is_err() ==> r->Err_0.code == 38 && final(state).memory.0@ == old(state).memory.0@,
        size@ == 0 ==> final(state).memory.0@ == old(state).memory.0@,
        // YP KECCAK256: µ'_s[0] = KEC(µ_m[µ_s[0] .. µ_s[0] + µ_s[1] − 1]), µ'_i = M(µ_i, µ_s[0], µ_s[1]); the digest read as a big-endian word
        r.is_ok() ==> mem_expanded(old(state).memory.0@, final(state).memory.0@, index@, size@)
            && exists|w: Seq<u8>| #![trigger keccak256_spec(w)] w.len() == size@
                && (forall|k: int| 0 <= k < size@ ==> #[trigger] w[k] == mem_byte(old(state).memory.0@, index@ + k))
                && r->Ok_0@ == be_at(keccak256_spec(w), 0, 32),
//@ entry
        broadcast use lemma_be_at_ext;
//@ end

// =====================================================================================================================
// consequences (pure lemmas): what MSTORE writes is what MLOAD reads
// =====================================================================================================================
pub proof fn lemma_pow2_pos(a: nat) ensures pow2(a) > 0 decreases a { if a > 0 { lemma_pow2_pos((a - 1) as nat); } }
pub proof fn lemma_pow2_add(a: nat, b: nat) ensures pow2(a + b) == pow2(a) * pow2(b) decreases b
{
    if b == 0 { assert(pow2(a) * 1 == pow2(a)); } else {
        lemma_pow2_add(a, (b - 1) as nat);
        assert(pow2(a + b) == 2 * pow2((a + b - 1) as nat));
        assert(2 * (pow2(a) * pow2((b - 1) as nat)) == pow2(a) * (2 * pow2((b - 1) as nat))) by (nonlinear_arith);
    }
}
pub proof fn lemma_pow2_256() ensures pow2(256) == p256(), pow2(8) == 256
{
    assert(pow2(64) == p64()) by (compute);
    lemma_pow2_add(64, 64); lemma_pow2_add(128, 128);
    assert(pow2(8) == 256) by (compute);
}
/// the first n bytes of the big-endian representation of v are the number v div 2^(8·(32−n))
pub proof fn lemma_be_prefix(s: Seq<u8>, off: int, v: int, n: nat)
    requires 0 <= v < p256(), n <= 32, forall|k: int| 0 <= k < n ==> #[trigger] w_at(s, off, k) == be_byte(v, k) as int
    ensures be_at(s, off, n) == v / pow2((8 * (32 - n)) as nat)
    decreases n
{
    lemma_pow2_256();
    if n == 0 {
        assert(v / p256() == 0) by (nonlinear_arith) requires 0 <= v < p256();
    } else {
        lemma_be_prefix(s, off, v, (n - 1) as nat);
        let e = (8 * (32 - n)) as nat;
        let d = pow2(e);
        lemma_pow2_pos(e);
        lemma_pow2_add(e, 8);
        assert(pow2((8 * (32 - (n - 1))) as nat) == d * 256) by { assert((8 * (32 - (n - 1))) as nat == e + 8); }
        vstd::arithmetic::div_mod::lemma_div_denominator(v, d, 256);
        assert(v / (d * 256) == (v / d) / 256);
        vstd::arithmetic::div_mod::lemma_fundamental_div_mod(v / d, 256);
        assert(0 <= (v / d) % 256 < 256) by (nonlinear_arith);
        assert(w_at(s, off, n - 1) == be_byte(v, n - 1) as int);
        assert((8 * (31 - (n - 1))) as nat == e);
        assert(be_at(s, off, n) == be_at(s, off, (n - 1) as nat) * 256 + w_at(s, off, n - 1));
        assert(((v / d) / 256) * 256 + (v / d) % 256 == v / d) by (nonlinear_arith)
            requires v / d == 256 * ((v / d) / 256) + (v / d) % 256;
    }
}
/// YP: after MSTORE(a, v), MLOAD(a) yields v — for ANY memory image that satisfies MSTORE's postcondition
pub proof fn theorem_mstore_then_mload(old_m: Seq<u8>, new_m: Seq<u8>, a: int, v: int)
    requires
        0 <= a, 0 <= v < p256(), new_m.len() >= a + 32,
        forall|i: int| 0 <= i < new_m.len() ==> #[trigger] new_m[i] == yp_mstore_byte(old_m, a, v, i),
    ensures yp_mload(new_m, a) == v
{
    assert forall|k: int| 0 <= k < 32 implies #[trigger] w_at(new_m, a, k) == be_byte(v, k) as int by {
        assert(new_m[a + k] == yp_mstore_byte(old_m, a, v, a + k));
    }
    lemma_be_prefix(new_m, a, v, 32);
    assert(pow2(0) == 1);
}
/// YP: after SSTORE(k, v) an SLOAD(k) yields v and an SLOAD of any other key yields what it yielded before
pub proof fn theorem_sstore_then_sload(old_m: Map<U256, U256>, new_m: Map<U256, U256>, key: U256, v: int, k: U256)
    requires yp_store(old_m, new_m, key, v)
    ensures slot_val(new_m, k) == (if k == key { v } else { slot_val(old_m, k) })
{
    if k != key { assert(new_m.dom().contains(k) == old_m.dom().contains(k)); }
}

// =====================================================================================================================
// the spec functions on concrete inputs (sanity of the specification itself)
// =====================================================================================================================
pub proof fn examples()
{
    // PUSH4 with only the two bytes de ad left in the code: Yellow Paper c(x) = 0 beyond the code → 0xdead0000 (right padding)
    let code = seq![0xdeu8, 0xadu8];
    reveal_with_fuel(be_at, 5);
    assert(yp_push(code, 4) == 0xdead0000int);
    // PUSH2 de ad
    assert(yp_push(code, 2) == 0xdeadint);
    // MCOPY(dst = 1, src = 0, len = 2) on 01 02 03: EIP-5656 "as if an intermediate buffer was used" gives 01 01 02 —
    // a forward byte-by-byte copy would give 01 01 01 and violates the postcondition of `mcopy` at byte 2
    let m = seq![1u8, 2u8, 3u8];
    assert(eip5656_byte(m, 1, 0, 2, 0) == 1u8 && eip5656_byte(m, 1, 0, 2, 1) == 1u8 && eip5656_byte(m, 1, 0, 2, 2) == 2u8);
    // CALLDATALOAD at |I_d| - 1 reads the last byte followed by 31 zero bytes; beyond the end it reads 0
    let d = seq![0xabu8];
    reveal_with_fuel(be_at, 33);
    assert(yp_calldataload(d, 5) == 0);
    // memory expansion: touching byte 32 of a 32-byte memory makes it 64 bytes; a zero-length access never expands
    assert(mem_size_after(32, 32, 1) == 64 && mem_size_after(32, 1000000, 0) == 32 && mem_size_after(0, 0, 32) == 32);
}
} // mod evm
} // verus!
fn main() {}
