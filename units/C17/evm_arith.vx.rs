// unit: EVM arithmetic / comparison / bitwise instructions against Yellow-Paper spec functions (C17)
//@ include prelude/core.rs
//@ include prelude/u256.rs
verus! {
pub mod evm {
use super::*;
broadcast use super::u256_axioms::u256_range, super::u256_axioms::u512_range;

// ================= Yellow Paper / EIP spec functions over the naturals below 2^256 =================
/// two's-complement reading of a word and back
pub open spec fn sval(x: int) -> int { if x >= p255() { x - p256() } else { x } }
pub open spec fn uval(x: int) -> int { if x < 0 { x + p256() } else { x } }
/// division truncating towards zero (YP SDIV) and the remainder with the dividend's sign (YP SMOD)
pub open spec fn tdiv(a: int, b: int) -> int
    recommends b != 0
{
    if a >= 0 && b > 0 { a / b } else if a < 0 && b > 0 { -((-a) / b) } else if a >= 0 && b < 0 { -(a / (-b)) } else { (-a) / (-b) }
}
pub open spec fn tmod(a: int, b: int) -> int
    recommends b != 0
{
    let bb = if b < 0 { -b } else { b };
    if a >= 0 { a % bb } else { -((-a) % bb) }
}
pub open spec fn yp_add(a: int, b: int) -> int { (a + b) % p256() }
pub open spec fn yp_mul(a: int, b: int) -> int { (a * b) % p256() }
pub open spec fn yp_sub(a: int, b: int) -> int { (a - b) % p256() }
pub open spec fn yp_div(a: int, b: int) -> int { if b == 0 { 0 } else { a / b } }
pub open spec fn yp_mod(a: int, b: int) -> int { if b == 0 { 0 } else { a % b } }
pub open spec fn yp_sdiv(a: int, b: int) -> int {
    if b == 0 { 0 }
    else if sval(a) == -p255() && sval(b) == -1 { p255() }
    else { uval(tdiv(sval(a), sval(b))) }
}
pub open spec fn yp_smod(a: int, b: int) -> int { if b == 0 { 0 } else { uval(tmod(sval(a), sval(b))) } }
pub open spec fn yp_addmod(a: int, b: int, n: int) -> int { if n == 0 { 0 } else { (a + b) % n } }
pub open spec fn yp_mulmod(a: int, b: int, n: int) -> int { if n == 0 { 0 } else { (a * b) % n } }
pub open spec fn b2i(b: bool) -> int { if b { 1 } else { 0 } }

pub proof fn lemma_consts()
    ensures p256() == 2 * p255(), p255() > 1, p512() == p256() * p256(), p256() > 0,
{
    assert(p256() == 2 * p255()) by (compute);
    assert(p255() > 1) by (compute);
    assert(p256() > 0) by (compute);
}

// ================= actors/evm/shared/src/uints.rs =================
//@ implconst actors/evm/shared/src/uints.rs U256::ZERO
    ensures Self::ZERO@ == 0
//@ end
//@ implconst actors/evm/shared/src/uints.rs U256::ONE
    ensures Self::ONE@ == 1
//@ end

//@ fn actors/evm/shared/src/uints.rs U256::i256_neg
    ensures
        // two's-complement negation
        r@ == (if self@ == 0 { 0 } else { p256() - self@ }),
//@ entry
        proof { lemma_consts(); }
//@ end

//@ fn actors/evm/shared/src/uints.rs U256::i256_cmp
    ensures
        // signed comparison of the two's-complement readings
        r == (if sval(self@) < sval(other@) { Ordering::Less } else if sval(self@) == sval(other@) { Ordering::Equal } else { Ordering::Greater }),
//@ entry
        proof { lemma_consts(); }
//@ end

//@ fn actors/evm/shared/src/uints.rs U256::i256_div
    ensures
        r@ == yp_sdiv(self@, other@),
//@ entry
        proof {
            lemma_consts();
            assert(forall|x: int| x > 0 ==> #[trigger] (0int / x) == 0) by (nonlinear_arith);
        }
//@ after "let d = :: core :: ops :: Div :: div (first , second) ;"
        proof {
            assert(d@ <= first@) by (nonlinear_arith) requires d@ == first@ / second@, second@ > 0, first@ >= 0;
            assert(d@ >= 0) by (nonlinear_arith) requires d@ == first@ / second@, second@ > 0, first@ >= 0;
            assert(second@ == 1 ==> d@ == first@) by (nonlinear_arith) requires d@ == first@ / second@;
            assert(second@ >= 2 ==> 2 * d@ <= first@) by (nonlinear_arith) requires d@ == first@ / second@, first@ >= 0;
        }
//@ end

//@ fn actors/evm/shared/src/uints.rs U256::i256_mod
    ensures
        r@ == yp_smod(self@, other@),
//@ entry
        proof { lemma_consts(); }
//@ after "let r = :: core :: ops :: Rem :: rem (first , second) ;"
        proof {
            assert(0 <= r@ < second@) by (nonlinear_arith) requires r@ == first@ % second@, second@ > 0;
        }
//@ end

pub proof fn lemma_bits_64(x: int)
    requires 0 <= x < p256()
    ensures bits_spec(x) > 64 <==> x >= p64()
{
    broadcast use u256_axioms::bits_spec_def;
    lemma_pow2_64();
    if bits_spec(x) > 64 {
        lemma_pow2_mono(64, (bits_spec(x) - 1) as nat);
    } else {
        lemma_pow2_mono(bits_spec(x), 64);
    }
}
pub proof fn lemma_pow2_64() ensures pow2(64) == p64()
{
    assert(pow2(64) == p64()) by (compute);
}
pub proof fn lemma_pow2_mono(a: nat, b: nat)
    requires a <= b
    ensures pow2(a) <= pow2(b), pow2(a) > 0
    decreases b
{
    if a < b { lemma_pow2_mono(a, (b - 1) as nat); } else { lemma_pow2_pos(a); }
}
pub proof fn lemma_pow2_pos(a: nat) ensures pow2(a) > 0 decreases a { if a > 0 { lemma_pow2_pos((a - 1) as nat); } }

// ================= instructions/arithmetic.rs =================
//@ fn actors/evm/src/interpreter/instructions/arithmetic.rs add
    ensures r@ == yp_add(a@, b@),
//@ end
//@ fn actors/evm/src/interpreter/instructions/arithmetic.rs mul
    ensures r@ == yp_mul(a@, b@),
//@ end
//@ fn actors/evm/src/interpreter/instructions/arithmetic.rs sub
    ensures r@ == yp_sub(a@, b@),
//@ end
//@ fn actors/evm/src/interpreter/instructions/arithmetic.rs div
    ensures r@ == yp_div(a@, b@),
//@ end
//@ fn actors/evm/src/interpreter/instructions/arithmetic.rs sdiv
    ensures r@ == yp_sdiv(a@, b@),
//@ end
//@ fn actors/evm/src/interpreter/instructions/arithmetic.rs modulo
    ensures r@ == yp_mod(a@, b@),
//@ end
//@ fn actors/evm/src/interpreter/instructions/arithmetic.rs smod
    ensures r@ == yp_smod(a@, b@),
//@ end
//@ fn actors/evm/src/interpreter/instructions/arithmetic.rs addmod
    ensures r@ == yp_addmod(a@, b@, c@),    // intermediate sum not subject to the 2^256 modulo
//@ entry
        proof {
            lemma_consts();
            assert(a@ + b@ < p512()) by (nonlinear_arith) requires a@ < p256(), b@ < p256(), p512() == p256() * p256(), p256() > 2;
            assert(c@ > 0 ==> (a@ + b@) % c@ < c@) by (nonlinear_arith) requires a@ + b@ >= 0;
            assert(c@ > 0 ==> (a@ + b@) % c@ >= 0) by (nonlinear_arith) requires a@ + b@ >= 0;
            if c@ > 0 { vstd::arithmetic::div_mod::lemma_small_mod(((a@ + b@) % c@) as nat, p256() as nat); }
        }
//@ end
//@ fn actors/evm/src/interpreter/instructions/arithmetic.rs mulmod
    ensures r@ == yp_mulmod(a@, b@, c@),
//@ entry
        proof {
            lemma_consts();
            assert(a@ * b@ < p512()) by (nonlinear_arith) requires 0 <= a@ < p256(), 0 <= b@ < p256(), p512() == p256() * p256();
            assert(a@ * b@ >= 0) by (nonlinear_arith) requires 0 <= a@, 0 <= b@;
            assert(c@ > 0 ==> (a@ * b@) % c@ < c@) by (nonlinear_arith) requires a@ * b@ >= 0;
            assert(c@ > 0 ==> (a@ * b@) % c@ >= 0) by (nonlinear_arith) requires a@ * b@ >= 0;
            if c@ > 0 { vstd::arithmetic::div_mod::lemma_small_mod(((a@ * b@) % c@) as nat, p256() as nat); }
        }
//@ end

// ================= instructions/boolean.rs =================
//@ fn actors/evm/src/interpreter/instructions/boolean.rs lt sub0="(a < b) . into ()=>(if a < b { 1u64 } else { 0u64 })"
    ensures r@ == b2i(a@ < b@),
//@ end
//@ fn actors/evm/src/interpreter/instructions/boolean.rs gt sub0="(a > b) . into ()=>(if a > b { 1u64 } else { 0u64 })"
    ensures r@ == b2i(a@ > b@),
//@ end
//@ fn actors/evm/src/interpreter/instructions/boolean.rs slt sub0="(a . i256_cmp (& b) == Ordering :: Less) . into ()=>(if a.i256_cmp(&b) == Ordering::Less { 1u64 } else { 0u64 })"
    ensures r@ == b2i(sval(a@) < sval(b@)),
//@ end
//@ fn actors/evm/src/interpreter/instructions/boolean.rs sgt sub0="(a . i256_cmp (& b) == Ordering :: Greater) . into ()=>(if a.i256_cmp(&b) == Ordering::Greater { 1u64 } else { 0u64 })"
    ensures r@ == b2i(sval(a@) > sval(b@)),
//@ end
//@ fn actors/evm/src/interpreter/instructions/boolean.rs eq sub0="(a == b) . into ()=>(if a == b { 1u64 } else { 0u64 })"
    ensures r@ == b2i(a@ == b@),
//@ end
//@ fn actors/evm/src/interpreter/instructions/boolean.rs iszero sub0="a . is_zero () . into ()=>(if a.is_zero() { 1u64 } else { 0u64 })"
    ensures r@ == b2i(a@ == 0),
//@ end
//@ fn actors/evm/src/interpreter/instructions/boolean.rs and
    ensures r@ == and_spec(a@, b@),
//@ end
//@ fn actors/evm/src/interpreter/instructions/boolean.rs or
    ensures r@ == or_spec(a@, b@),
//@ end
//@ fn actors/evm/src/interpreter/instructions/boolean.rs xor
    ensures r@ == xor_spec(a@, b@),
//@ end
//@ fn actors/evm/src/interpreter/instructions/boolean.rs not
    ensures r@ == p256() - 1 - v@,
//@ end

// ================= instructions/bitwise.rs =================
//@ fn actors/evm/src/interpreter/instructions/bitwise.rs byte
    ensures
        // YP BYTE: the i-th byte counting from the most significant, 0 for i >= 32
        r@ == (if i@ >= 32 { 0 } else { (x@ / pow2((8 * (31 - i@)) as nat)) % 256 }),
//@ entry
        proof { lemma_pow2_64(); assert(p64() > 32) by (compute); }
//@ end
//@ fn actors/evm/src/interpreter/instructions/bitwise.rs shl
    ensures r@ == (if shift@ >= 256 { 0 } else { (value@ * pow2(shift@ as nat)) % p256() }),
//@ entry
        proof { lemma_consts(); assert(forall|k: int| #[trigger] (0 * k) % p256() == 0) by (nonlinear_arith) requires p256() > 0; }
//@ end
//@ fn actors/evm/src/interpreter/instructions/bitwise.rs shr
    ensures r@ == (if shift@ >= 256 { 0 } else { value@ / pow2(shift@ as nat) }),
//@ entry
        proof {
            assert forall|n: nat| 0int / #[trigger] pow2(n) == 0 by { lemma_pow2_pos(n); assert(0int / pow2(n) == 0) by (nonlinear_arith) requires pow2(n) > 0; }
        }
//@ end

/// YP SAR: arithmetic right shift of the two's-complement reading (floor division by 2^shift; all sign bits for shift >= 256)
pub open spec fn yp_sar(shift: int, x: int) -> int { uval(sval(x) / pow2((if shift >= 256 { 256 } else { shift }) as nat)) }
pub proof fn lemma_pow2_256() ensures pow2(256) == p256(), pow2(32) == 0x1_0000_0000
{
    assert(pow2(64) == p64()) by (compute);
    lemma_pow2_add(64, 64); lemma_pow2_add(128, 128);
    assert(pow2(32) == 0x1_0000_0000) by (compute);
}
pub proof fn lemma_pow2_add(a: nat, b: nat) ensures pow2(a + b) == pow2(a) * pow2(b) decreases b
{
    if b == 0 { assert(pow2(a) * 1 == pow2(a)); } else {
        lemma_pow2_add(a, (b - 1) as nat);
        assert(pow2(a + b) == 2 * pow2((a + b - 1) as nat));
        assert(2 * (pow2(a) * pow2((b - 1) as nat)) == pow2(a) * (2 * pow2((b - 1) as nat))) by (nonlinear_arith);
    }
}
/// floor(-n / d) == -(floor((n-1)/d) + 1) for n >= 1, d >= 1
pub proof fn lemma_neg_floor(n: int, d: int)
    requires n >= 1, d >= 1
    ensures (-n) / d == -((n - 1) / d) - 1
{
    let q = (n - 1) / d;
    let r = (n - 1) % d;
    assert(n - 1 == d * q + r && 0 <= r < d) by (nonlinear_arith) requires q == (n - 1) / d, r == (n - 1) % d, d >= 1;
    // -n = d * (-q - 1) + (d - 1 - r), with 0 <= d - 1 - r < d
    assert(-n == (-q - 1) * d + (d - 1 - r)) by (nonlinear_arith) requires n - 1 == d * q + r;
    vstd::arithmetic::div_mod::lemma_fundamental_div_mod_converse(-n, d, -q - 1, d - 1 - r);
}
//@ fn actors/evm/src/interpreter/instructions/bitwise.rs sar
    ensures r@ == yp_sar(shift@, value@),
//@ entry
        proof {
            lemma_consts(); lemma_pow2_256();
            let x = value@;
            if x >= p255() {
                // negative: n = |x|, 1 <= n <= 2^255
                let n = p256() - x;
                let s: nat = (if shift@ >= 256 { 256 } else { shift@ }) as nat;
                lemma_pow2_pos(s);
                lemma_neg_floor(n, pow2(s));
                assert((n - 1) / pow2(s) >= 0) by (nonlinear_arith) requires n >= 1, pow2(s) > 0;
                assert((n - 1) / pow2(s) <= n - 1) by (nonlinear_arith) requires n >= 1, pow2(s) > 0;
                if shift@ >= 256 {
                    assert((n - 1) / p256() == 0) by (nonlinear_arith) requires 0 <= n - 1 < p256();
                }
                vstd::arithmetic::div_mod::lemma_small_mod((n - 1) as nat, p256() as nat);
                vstd::arithmetic::div_mod::lemma_small_mod(((n - 1) / pow2(s) + 1) as nat, p256() as nat);
            } else {
                let s: nat = (if shift@ >= 256 { 256 } else { shift@ }) as nat;
                lemma_pow2_pos(s);
                assert(x / pow2(s) >= 0) by (nonlinear_arith) requires x >= 0, pow2(s) > 0;
                assert(x / pow2(s) <= x) by (nonlinear_arith) requires x >= 0, pow2(s) > 0;
                if shift@ >= 256 { assert(x / p256() == 0) by (nonlinear_arith) requires 0 <= x < p256(); }
            }
            if shift@ < 256 { vstd::arithmetic::div_mod::lemma_small_mod(shift@ as nat, 0x1_0000_0000nat); }
        }
//@ end
//@ fn actors/evm/src/interpreter/instructions/bitwise.rs clz
    ensures r@ == 256 - bits_spec(value@),      // EIP-7939: leading zero bits, 256 for zero
//@ entry
        proof {
            broadcast use u256_axioms::bits_spec_def;
            assert(p256() > 256) by (compute);
            vstd::arithmetic::div_mod::lemma_small_mod((256 - bits_spec(value@)) as nat, p256() as nat);
        }
//@ end

} // mod evm
} // verus!
fn main() {}
