// unit: EVM EXP instruction (square-and-multiply over the exponent's limbs) against the Yellow-Paper definition
//       mu'_s[0] = mu_s[0] ^ mu_s[1] mod 2^256 (0^0 = 1), for all 256-bit operands (C17)
//@ include prelude/core.rs
//@ include prelude/u256.rs
//@ include prelude/evm_exp_limbs.rs
//@ include prelude/evm_exp_array_iter.rs
verus! {
pub mod evm {
use super::*;
use vstd::arithmetic::power::{pow, lemma_pow0, lemma_pow1, lemma_pow_adds};
use vstd::arithmetic::div_mod::{lemma_mul_mod_noop, lemma_fundamental_div_mod, lemma_small_mod};
broadcast use super::u256_axioms::u256_range;

// ================= Yellow Paper EXP =================
/// (b ^ e) mod 2^256; `pow` is vstd's recursive definition (pow(b, 0) == 1, also for b == 0)
pub open spec fn pow_mod(b: int, e: nat) -> int { pow(b, e) % p256() }
/// the same with an integer exponent (all exponents below are provably >= 0; saves `as nat` casts in invariants)
pub open spec fn pmi(b: int, e: int) -> int { pow_mod(b, e as nat) }

// ================= the exponent as limbs =================
/// value of the j least significant limbs: sum_{i<j} l[i] * 2^(64 i)
pub open spec fn limbs_val(l: Seq<u64>, j: nat) -> int
    decreases j
{
    if j == 0 { 0 } else { limbs_val(l, (j - 1) as nat) + l[j - 1] as int * pow2((64 * (j - 1)) as nat) }
}
pub open spec fn max0(x: int) -> int { if x > 0 { x } else { 0 } }
pub open spec fn min64(x: int) -> int { if x < 64 { x } else { 64 } }
/// number of loop iterations the code spends on limb j when the exponent has nb significant bits
pub open spec fn limb_iters(nb: int, j: int) -> int { min64(max0(nb - 64 * j)) }
/// every limb fits into the iterations spent on it (i.e. the bits that are skipped are zero)
pub open spec fn limbs_bounded(l: Seq<u64>, nb: int) -> bool {
    forall|i: int| 0 <= i < 4 ==> ((#[trigger] l[i]) as int) < pow2(limb_iters(nb, i) as nat)
}

// ----- powers of two (prelude pow2) -----
pub proof fn lemma_pow2_pos(a: nat) ensures pow2(a) > 0 decreases a { if a > 0 { lemma_pow2_pos((a - 1) as nat); } }
pub proof fn lemma_pow2_add(a: nat, b: nat) ensures pow2(a + b) == pow2(a) * pow2(b) decreases b
{
    if b == 0 { assert(pow2(a) * 1 == pow2(a)); } else {
        lemma_pow2_add(a, (b - 1) as nat);
        assert(pow2(a + b) == 2 * pow2((a + b - 1) as nat));
        assert(2 * (pow2(a) * pow2((b - 1) as nat)) == pow2(a) * (2 * pow2((b - 1) as nat))) by (nonlinear_arith);
    }
}
pub proof fn lemma_pow2_mono(a: nat, b: nat)
    requires a <= b
    ensures pow2(a) <= pow2(b), pow2(a) > 0
    decreases b
{
    if a < b { lemma_pow2_mono(a, (b - 1) as nat); } else { lemma_pow2_pos(a); }
}
pub proof fn lemma_pow2_consts()
    ensures pow2(0) == 1, pow2(64) == p64(), pow2(128) == p128(), pow2(192) == p128() * p64(), p256() > 0
{
    assert(pow2(64) == p64()) by (compute);
    lemma_pow2_add(64, 64);
    lemma_pow2_add(128, 64);
    assert(p256() > 0) by (compute);
}

// ----- limbs -----
pub proof fn lemma_limbs_val_4(l: Seq<u64>)
    ensures
        limbs_val(l, 4) == l[0] as int + l[1] as int * p64() + l[2] as int * p128() + l[3] as int * (p128() * p64()),
        limbs_val(l, 0) == 0,
{
    lemma_pow2_consts();
    reveal_with_fuel(limbs_val, 5);
    assert(l[0] as int * pow2(0) == l[0] as int);
}
pub proof fn lemma_limbs_val_nonneg(l: Seq<u64>, j: nat)
    ensures limbs_val(l, j) >= 0
    decreases j
{
    if j > 0 {
        lemma_limbs_val_nonneg(l, (j - 1) as nat);
        lemma_pow2_pos((64 * (j - 1)) as nat);
        assert(l[j - 1] as int * pow2((64 * (j - 1)) as nat) >= 0) by (nonlinear_arith)
            requires l[j - 1] as int >= 0, pow2((64 * (j - 1)) as nat) > 0;
    }
}
/// one limb is at most the whole value: l[j] * 2^(64 j) <= limbs_val(l, 4)
pub proof fn lemma_limb_le_val(l: Seq<u64>, j: nat)
    requires j < 4
    ensures l[j as int] as int * pow2((64 * j) as nat) <= limbs_val(l, 4)
{
    reveal_with_fuel(limbs_val, 5);
    lemma_pow2_pos(0); lemma_pow2_pos(64); lemma_pow2_pos(128); lemma_pow2_pos(192);
    assert(l[0] as int * pow2(0) >= 0) by (nonlinear_arith) requires l[0] as int >= 0, pow2(0) > 0;
    assert(l[1] as int * pow2(64) >= 0) by (nonlinear_arith) requires l[1] as int >= 0, pow2(64) > 0;
    assert(l[2] as int * pow2(128) >= 0) by (nonlinear_arith) requires l[2] as int >= 0, pow2(128) > 0;
    assert(l[3] as int * pow2(192) >= 0) by (nonlinear_arith) requires l[3] as int >= 0, pow2(192) > 0;
}
/// SKIPPING IS SOUND: if the value is below 2^nb then limb j is below 2^(iterations spent on limb j); in particular the
/// limbs above the most significant set bit are zero and the top limb has no bit at or above position nb
pub proof fn lemma_limb_bound(l: Seq<u64>, nb: nat, j: nat)
    requires j < 4, limbs_val(l, 4) < pow2(nb)
    ensures (l[j as int] as int) < pow2(limb_iters(nb as int, j as int) as nat)
{
    let lj = l[j as int] as int;
    let sh = pow2((64 * j) as nat);
    lemma_limb_le_val(l, j);
    lemma_pow2_pos((64 * j) as nat);
    lemma_pow2_consts();
    if nb >= 64 * j + 64 {
        assert(lj < p64());
    } else if nb > 64 * j {
        let n = (nb - 64 * j) as nat;
        lemma_pow2_add((64 * j) as nat, n);
        assert(lj < pow2(n)) by (nonlinear_arith) requires lj * sh < sh * pow2(n), sh > 0;
    } else {
        lemma_pow2_mono(nb, (64 * j) as nat);
        assert(lj < 1) by (nonlinear_arith) requires lj * sh < sh, sh > 0, lj >= 0;
    }
}
pub proof fn lemma_limbs_bounded(l: Seq<u64>, nb: nat)
    requires limbs_val(l, 4) < pow2(nb)
    ensures limbs_bounded(l, nb as int)
{
    assert forall|i: int| 0 <= i < 4 implies ((#[trigger] l[i]) as int) < pow2(limb_iters(nb as int, i) as nat) by {
        lemma_limb_bound(l, nb, i as nat);
    }
}
/// facts about the exponent established once, at entry
pub proof fn lemma_exp_entry(power: U256)
    ensures
        limbs_spec(power).len() == 4,
        limbs_val(limbs_spec(power), 4) == power@,
        limbs_bounded(limbs_spec(power), bits_spec(power@) as int),
        bits_spec(power@) <= 256,
        pmi(0, 0) == 1 && forall|b: int| #[trigger] pmi(b, 0) == 1,
        forall|b: int| 0 <= b < p256() ==> #[trigger] pmi(b, 1) == b,
{
    broadcast use u256_axioms::bits_spec_def;
    u256_limbs_value(power);
    lemma_limbs_val_4(limbs_spec(power));
    lemma_limbs_bounded(limbs_spec(power), bits_spec(power@));
    lemma_pow2_consts();
    assert(1int % p256() == 1) by { assert(p256() > 1) by (compute); lemma_small_mod(1, p256() as nat); }
    assert forall|b: int| #[trigger] pmi(b, 0) == 1 by { lemma_pow0(b); }
    assert forall|b: int| 0 <= b < p256() implies #[trigger] pmi(b, 1) == b by { lemma_pow1(b); lemma_small_mod(b as nat, p256() as nat); }
}

// ----- modular powers -----
/// b^x * b^y == b^(x+y)  (mod 2^256)
pub proof fn lemma_pm_mul(b: int, x: nat, y: nat)
    ensures (pow_mod(b, x) * pow_mod(b, y)) % p256() == pow_mod(b, x + y)
{
    lemma_pow2_consts();
    lemma_mul_mod_noop(pow(b, x), pow(b, y), p256());
    lemma_pow_adds(b, x, y);
}
/// one bit of the current limb: word = 2 * (word / 2) + bit; the consumed low part m grows by bit * 2^t
pub proof fn lemma_bit_step(lj: int, w: int, t: nat, m: int)
    requires 0 <= w, w * pow2(t) + m == lj, 0 <= m < pow2(t)
    ensures
        (w / 2) * pow2(t + 1) + (m + (w % 2) * pow2(t)) == lj,
        0 <= m + (w % 2) * pow2(t) < pow2(t + 1),
        0 <= w / 2, 0 <= w % 2 <= 1,
{
    lemma_fundamental_div_mod(w, 2);
    let q = w / 2; let bit = w % 2; let p = pow2(t);
    assert(pow2(t + 1) == 2 * p);
    assert((2 * q + bit) * p == q * (2 * p) + bit * p) by (nonlinear_arith);
    assert(0 <= bit * p <= p) by (nonlinear_arith) requires 0 <= bit <= 1, p > 0;
}
/// INDUCTIVE STEP of the inner loop (bit t of limb j, i.e. bit k = 64 j + t of the exponent):
/// before: v = b0^c, base = b0^(2^k) with c = L + m * 2^(64 j);  after: v' = b0^(c + bit * 2^k), base' = b0^(2^(k+1))
pub proof fn lemma_inner_step(b0: int, ll: int, lj: int, j: nat, t: nat, w: int, m: int, vo: int, bo: int, vn: int, bn: int)
    requires
        0 <= ll, 0 <= w, w * pow2(t) + m == lj, 0 <= m < pow2(t),
        vo == pmi(b0, ll + m * pow2((64 * j) as nat)),
        bo == pmi(b0, pow2((64 * j + t) as nat)),
        vn == (if w % 2 == 1 { (vo * bo) % p256() } else { vo }),
        bn == (bo * bo) % p256(),
    ensures
        (w / 2) * pow2(t + 1) + (m + (w % 2) * pow2(t)) == lj,
        0 <= m + (w % 2) * pow2(t) < pow2(t + 1),
        vn == pmi(b0, ll + (m + (w % 2) * pow2(t)) * pow2((64 * j) as nat)),
        bn == pmi(b0, pow2((64 * j + t + 1) as nat)),
{
    lemma_bit_step(lj, w, t, m);
    let sh = pow2((64 * j) as nat);
    let pk = pow2((64 * j + t) as nat);
    let bit = w % 2;
    lemma_pow2_pos((64 * j) as nat); lemma_pow2_pos((64 * j + t) as nat); lemma_pow2_pos(t);
    lemma_pow2_add((64 * j) as nat, t);
    assert(m * sh >= 0) by (nonlinear_arith) requires m >= 0, sh > 0;
    let c = ll + m * sh;
    assert((m + bit * pow2(t)) * sh == m * sh + bit * (sh * pow2(t))) by (nonlinear_arith);
    if bit == 1 {
        assert(ll + (m + bit * pow2(t)) * sh == c + pk);
        lemma_pm_mul(b0, c as nat, pk as nat);
    } else {
        assert(bit == 0);
        assert(ll + (m + bit * pow2(t)) * sh == c);
    }
    lemma_pm_mul(b0, pk as nat, pk as nat);
    assert(pow2((64 * j + t + 1) as nat) == 2 * pk);
}
/// END OF A LIMB: after n = limb_iters iterations nothing of the limb is left (lj < 2^n), so the consumed part is the whole limb
pub proof fn lemma_limb_done(lj: int, w: int, n: nat, m: int)
    requires 0 <= w, w * pow2(n) + m == lj, 0 <= m, lj < pow2(n)
    ensures w == 0, m == lj
{
    lemma_pow2_pos(n);
    assert(w == 0) by (nonlinear_arith) requires 0 <= w, w * pow2(n) + m == lj, 0 <= m, lj < pow2(n), pow2(n) > 0;
}
pub proof fn lemma_word_bits(w: u64)
    ensures ((w & 1) != 0) <==> (w % 2 == 1), (w & 1) == w % 2, (w >> 1) == w / 2
{
    assert(((w & 1) != 0) <==> (w % 2 == 1)) by (bit_vector);
    assert((w & 1) == w % 2) by (bit_vector);
    assert((w >> 1) == w / 2) by (bit_vector);
}

// ================= actors/evm/shared/src/uints.rs =================
//@ implconst actors/evm/shared/src/uints.rs U256::ONE
    ensures Self::ONE@ == 1
//@ end

// ================= instructions/arithmetic.rs: EXP =================
// `power . 0` (field of the opaque U256) is read through prelude/evm_exp_limbs.rs `u256_limbs` (whose body is `x.0`);
// the outer `for` over the array by value is desugared to `into_iter` / `next` (prelude/evm_exp_array_iter.rs).
//@ fn actors/evm/src/interpreter/instructions/arithmetic.rs exp desugar_for=0 sub0="power . 0=>u256_limbs(power)"
    ensures
        // Yellow Paper: EXP = base ^ power mod 2^256 (0^0 = 1), all operands
        r@ == pow_mod(base@, power@ as nat),
//@ entry
        let ghost b0: int = base@;
        let ghost mut j: nat = 0;       // limbs consumed
        let ghost mut t: nat = 0;       // bits of the current limb consumed
        let ghost mut m: int = 0;       // value of the consumed bits of the current limb
        let ghost mut n: nat = 0;       // iterations spent on the current limb
        let ghost mut lj: int = 0;      // the current limb
        let ghost mut ll: int = 0;      // value of the limbs below the current one
        proof { lemma_exp_entry(power); }
//@ loop 0
            invariant
                limbs_spec(power).len() == 4,
                limbs_val(limbs_spec(power), 4) == power@,
                limbs_bounded(limbs_spec(power), bits_spec(power@) as int),
                bits_spec(power@) <= 256,
                0 <= b0 < p256(),
                j <= 4,
                arr_iter_rest(__vx_it0) == limbs_spec(power).skip(j as int),
                remaining_bits as int == max0(bits_spec(power@) - 64 * j),
                // v = b0 ^ (the j low limbs of the exponent)
                v@ == pmi(b0, limbs_val(limbs_spec(power), j)),
                // base = b0 ^ (2 ^ (64 j)) as long as bits remain
                remaining_bits > 0 ==> base@ == pmi(b0, pow2((64 * j) as nat)),
            ensures
                j == 4,
            decreases 4 - j
//@ loopstart 0
                proof {
                    t = 0; m = 0;
                    n = limb_iters(bits_spec(power@) as int, j as int) as nat;
                    ll = limbs_val(limbs_spec(power), j);
                    lemma_limbs_val_nonneg(limbs_spec(power), j);
                    if j < 4 {
                        lj = limbs_spec(power)[j as int] as int;
                        assert(lj * pow2(0) + 0 == lj) by { assert(pow2(0) == 1); }
                        assert(limbs_val(limbs_spec(power), j + 1) == ll + lj * pow2((64 * j) as nat));
                        assert(limbs_spec(power).skip(j as int).skip(1) =~= limbs_spec(power).skip((j + 1) as int));
                        assert(limbs_spec(power).skip(j as int)[0] == limbs_spec(power)[j as int]);
                        assert(0 * pow2((64 * j) as nat) == 0);
                        if n == 0 { lemma_limb_done(lj, lj, 0, 0); }
                    }
                }
//@ loop 1 iter=it
                            invariant
                                t == it.index@, it.seq().len() == n, n <= 64, j < 4,
                                n > 0 <==> remaining_bits > 0,
                                // the limb: word holds the bits not yet consumed, m the consumed ones
                                word as int * pow2(t) + m == lj, 0 <= m < pow2(t),
                                lj < pow2(n), 0 <= ll,
                                t == n ==> word == 0 && m == lj,
                                // v = b0 ^ (low limbs + consumed bits of this limb), base = b0 ^ (2 ^ (64 j + t))
                                v@ == pmi(b0, ll + m * pow2((64 * j) as nat)),
                                n > 0 ==> base@ == pmi(b0, pow2((64 * j + t) as nat)),
//@ loopstart 1
                                let ghost w_old = word;
                                let ghost v_old = v@;
                                let ghost base_old = base@;
                                proof { lemma_word_bits(word); }
//@ loopend 1
                                proof {
                                    lemma_inner_step(b0, ll, lj, j, t, w_old as int, m, v_old, base_old, v@, base@);
                                    m = m + (w_old as int % 2) * pow2(t);
                                    t = t + 1;
                                    if t == n { lemma_limb_done(lj, word as int, n, m); }
                                }
//@ loopend 0
                proof {
                    // all n iterations done: the whole limb is consumed
                    assert(m == lj);
                    assert(v@ == pmi(b0, limbs_val(limbs_spec(power), j + 1)));
                    if remaining_bits > 0 { assert(n == 64 && t == 64); }
                    j = j + 1;
                }
//@ end

} // mod evm
} // verus!
fn main() {}
