// unit: payment channel — constructor and settle, whole methods (C16; caller clauses for C11)
//@ include prelude/core.rs
//@ include prelude/ipld.rs
//@ include prelude/rt.rs
verus! {

//@ const runtime/src/builtin/network.rs EPOCH_DURATION_SECONDS
//@ const runtime/src/builtin/network.rs SECONDS_IN_HOUR
//@ const runtime/src/builtin/network.rs EPOCHS_IN_HOUR
//@ const actors/paych/src/types.rs SETTLE_DELAY
//@ const actors/paych/src/types.rs LANE_STATES_AMT_BITWIDTH
//@ item actors/paych/src/state.rs State
//@ item actors/paych/src/state.rs LaneState
//@ item actors/paych/src/types.rs ConstructorParams
//@ include prelude/misc_methods_paych.rs

pub open spec fn lanes_of(s: State) -> Map<u64, LaneState> { array_decode::<LaneState>(s.lane_states) }

// ---------------- resolve_to_actor_id (runtime/src/builtin/shared.rs): what the id IS ----------------
//@ fn runtime/src/builtin/shared.rs resolve_to_actor_id
    requires !old(rt).in_tx@,
    ensures
        rt_frame(old(rt), final(rt)),
        final(rt).state_id == old(rt).state_id, final(rt).created == old(rt).created,
        final(rt).balance@ == old(rt).balance@,
        // an address that already resolves costs no message; otherwise exactly one zero-value plain send to it creates the account
        rt_resolve(*address, old(rt).sends@.len()).is_some() ==> final(rt).sends == old(rt).sends
            && (r.is_ok() ==> r->Ok_0 == rt_resolve(*address, old(rt).sends@.len())->Some_0),
        rt_resolve(*address, old(rt).sends@.len()).is_none() ==> rt_pushed(old(rt), final(rt))
            && final(rt).sends@.last().to == *address && final(rt).sends@.last().method == METHOD_SEND && final(rt).sends@.last().value == 0,
        rt_resolve(*address, old(rt).sends@.len()).is_none() && r.is_ok() ==> final(rt).sends@.last().ok,
        // the result is what the address resolves to NOW, and (when asked) an actor with code lives there
        r.is_ok() ==> rt_resolve(*address, final(rt).sends@.len()) == Some(r->Ok_0),
        r.is_ok() && check_existence ==> rt_code_of(r->Ok_0).is_some(),
//@ end

//@ fn actors/paych/src/state.rs State::new
    ensures r.from == from, r.to == to, r.to_send@ == 0, r.settling_at == 0, r.min_settle_height == 0, r.lane_states == empty_arr_cid,
//@ end

// ---------------- constructor (whole method) ----------------
//@ fn actors/paych/src/lib.rs Actor::constructor free
    requires
        !old(rt).in_tx@, old(rt).sends@.len() == 0,
    ensures
        // only the init actor creates a channel
        /*C11*/ r.is_ok() ==> old(rt).caller_type@ == Some(Type::Init) && final(rt).validated@.is_some(),
        r.is_ok() ==> ({
            let st = rt_state::<State>(final(rt).state_id@);
            let n = final(rt).sends@.len();
            // both parties are stored as ID addresses, the ones the given addresses resolve to, and an actor exists at each
            &&& st.to.proto == 0 && st.from.proto == 0
            &&& n <= 2
            &&& rt_resolve(params.from, n) == Some(st.from.id)
            // (`to` is resolved first: before any message if it already has an ID, otherwise after the one send that creates its account)
            &&& rt_resolve(params.to, if rt_resolve(params.to, 0).is_some() { 0nat } else { 1nat }) == Some(st.to.id)
            &&& rt_code_of(st.to.id).is_some() && rt_code_of(st.from.id).is_some()
            // a fresh channel owes nothing, is not settling, has no minimum settle height and no lanes
            &&& st.to_send@ == 0 && st.settling_at == 0 && st.min_settle_height == 0
            &&& lanes_of(st).dom() =~= Set::<u64>::empty()
            // the only messages are zero-value plain sends that create the parties' accounts: nothing leaves the channel
            &&& forall|i: int| 0 <= i < n ==> (#[trigger] final(rt).sends@[i]).method == METHOD_SEND && final(rt).sends@[i].value == 0
            &&& final(rt).balance@ == old(rt).balance@
        }),
        // a failed construction writes no state
        r.is_err() ==> final(rt).state_id == old(rt).state_id,
//@ before "rt . create"
        proof { axiom_empty_array_any_type::<(), LaneState>(empty_arr_cid); }
//@ end

// ---------------- settle (closure, as in units/C16/paych.vx.rs) ----------------
//@ fn actors/paych/src/lib.rs Actor::settle closure=0 as=settle_tx0 params="st: &mut State, rt: &mut Rt" retty="Result<(), ActorError>"
    requires
        old(rt).epoch <= i64::MAX - SETTLE_DELAY,
    ensures
        final(st).from == old(st).from, final(st).to == old(st).to,
        final(st).to_send == old(st).to_send, final(st).lane_states == old(st).lane_states,
        final(st).min_settle_height == old(st).min_settle_height,
        // only a channel party may settle, only once, and collection is at least SETTLE_DELAY away and not before min_settle_height
        /*C11*/ r.is_ok() ==> (old(rt).msg.caller == old(st).from || old(rt).msg.caller == old(st).to) && final(rt).validated@.is_some(),
        r.is_ok() ==> old(st).settling_at == 0,
        r.is_ok() ==> final(st).settling_at == (if old(rt).epoch + SETTLE_DELAY >= old(st).min_settle_height { old(rt).epoch + SETTLE_DELAY } else { old(st).min_settle_height as int }),
        r.is_err() ==> final(st).settling_at == old(st).settling_at,
        // (added for the whole method) the closure touches nothing of the runtime but the caller validation
        final(rt).sends == old(rt).sends, final(rt).balance == old(rt).balance, final(rt).in_tx == old(rt).in_tx, final(rt).state_id == old(rt).state_id,
        final(rt).tx_log == old(rt).tx_log, final(rt).deleted == old(rt).deleted, final(rt).read_only == old(rt).read_only, final(rt).msg == old(rt).msg,
        final(rt).epoch == old(rt).epoch,
//@ end

// ---------------- settle (whole method) ----------------
//@ fn actors/paych/src/lib.rs Actor::settle free tx0="State;settle_tx0;&mut __vx_st, rt"
    requires
        !old(rt).in_tx@, old(rt).sends@.len() == 0, old(rt).tx_log@.len() == 0,
        // chain epochs are non-negative (and far from i64::MAX)
        0 <= old(rt).epoch <= i64::MAX - SETTLE_DELAY,
    ensures
        // nothing is sent, nothing is deleted
        final(rt).sends@.len() == 0, final(rt).balance == old(rt).balance, final(rt).deleted == old(rt).deleted,
        /*C11*/ r.is_ok() ==> ({ let s0 = rt_state::<State>(old(rt).state_id@); old(rt).msg.caller == s0.from || old(rt).msg.caller == s0.to }) && final(rt).validated@.is_some(),
        r.is_ok() ==> ({
            let s0 = rt_state::<State>(old(rt).state_id@);
            let s1 = rt_state::<State>(final(rt).state_id@);
            // only a party, only once
            &&& (old(rt).msg.caller == s0.from || old(rt).msg.caller == s0.to)
            &&& s0.settling_at == 0
            // "funds can be collected only after the settlement delay, which vouchers' minimum settle heights can only extend"
            &&& s1.settling_at == (if old(rt).epoch + SETTLE_DELAY >= s0.min_settle_height { old(rt).epoch + SETTLE_DELAY } else { s0.min_settle_height as int })
            &&& s1.settling_at >= old(rt).epoch + SETTLE_DELAY && s1.settling_at >= s0.min_settle_height && s1.settling_at != 0
            // parties, amount owed, lanes and minimum settle height are untouched
            &&& s1.from == s0.from && s1.to == s0.to && s1.to_send == s0.to_send && s1.lane_states == s0.lane_states && s1.min_settle_height == s0.min_settle_height
            &&& final(rt).tx_log@.len() == 1
        }),
        // a refused settle changes nothing
        r.is_err() ==> final(rt).state_id == old(rt).state_id && final(rt).tx_log@.len() == 0,
//@ end

} // verus!
fn main() {}
