// unit: payment channel — voucher redemption, settle, collect (C16; payee solvency clause of C01)
//@ include prelude/core.rs
//@ include prelude/ipld.rs
//@ include prelude/rt.rs
verus! {

//@ const runtime/src/builtin/network.rs EPOCH_DURATION_SECONDS
//@ const runtime/src/builtin/network.rs SECONDS_IN_HOUR
//@ const runtime/src/builtin/network.rs EPOCHS_IN_HOUR
//@ const actors/paych/src/types.rs MAX_LANE
//@ const actors/paych/src/types.rs SETTLE_DELAY
//@ item actors/paych/src/state.rs State
//@ item actors/paych/src/state.rs LaneState
//@ item actors/paych/src/state.rs Merge attr="#[derive(Clone, Copy)]"
//@ const actors/paych/src/types.rs MAX_SECRET_SIZE
//@ item actors/paych/src/types.rs ModVerifyParams
//@ item actors/paych/src/types.rs SignedVoucher
//@ item actors/paych/src/types.rs UpdateChannelStateParams
//@ const actors/paych/src/lib.rs ERR_CHANNEL_STATE_UPDATE_AFTER_SETTLED
//@ include prelude/cbor.rs
//@ include prelude/paych_method_assumed.rs
pub mod ext {
    pub mod account {
        use super::super::*;
//@ item actors/paych/src/ext.rs AuthenticateMessageParams
    }
}

// derive(Clone, Default) of LaneState re-stated (the extractor strips derives); verified, not assumed
impl Clone for LaneState {
    fn clone(&self) -> (r: Self) ensures r.redeemed@ == self.redeemed@, r.nonce == self.nonce
    { LaneState { redeemed: self.redeemed.clone(), nonce: self.nonce } }
}
impl LaneState {
    pub fn default() -> (r: Self) ensures r.redeemed@ == 0, r.nonce == 0
    { LaneState { redeemed: TokenAmount::zero(), nonce: 0 } }
}

// ======================= spec =======================
pub open spec fn lanes_of(s: State) -> Map<u64, LaneState> { array_decode::<LaneState>(s.lane_states) }
pub open spec fn redeemed_at(l: Map<u64, LaneState>, k: u64) -> int { if l.dom().contains(k) { l[k].redeemed@ } else { 0 } }
/// sum, over the first n merge ENTRIES, of what was already redeemed on the named lane
pub open spec fn merge_sum(l: Map<u64, LaneState>, ms: Seq<Merge>, n: int) -> int
    decreases n
{
    if n <= 0 { 0 } else { merge_sum(l, ms, n - 1) + redeemed_at(l, ms[n - 1].lane) }
}
/// effect of processing the first n merge entries on the lane table: nonces are raised, redeemed amounts untouched
pub open spec fn lanes_after(l0: Map<u64, LaneState>, l: Map<u64, LaneState>, ms: Seq<Merge>, n: int) -> bool {
    &&& l.dom() =~= l0.dom()
    &&& forall|k: u64| l0.dom().contains(k) ==> (#[trigger] l[k]).redeemed@ == l0[k].redeemed@ && l[k].nonce >= l0[k].nonce
    &&& forall|k: u64| l0.dom().contains(k) && (forall|j: int| 0 <= j < n ==> (#[trigger] ms[j]).lane != k) ==> (#[trigger] l[k]).nonce == l0[k].nonce
    &&& forall|j: int| 0 <= j < n ==> l0.dom().contains((#[trigger] ms[j]).lane) && l[ms[j].lane].nonce >= ms[j].nonce
}

//@ fn actors/paych/src/lib.rs find_lane
    ensures
        r.is_ok() ==> id <= MAX_LANE,
        r.is_ok() ==> (r->Ok_0.is_some() <==> ls.view().dom().contains(id)),
        r.is_ok() && r->Ok_0.is_some() ==> *(r->Ok_0->Some_0) == ls.view()[id],
//@ end

// ---------------- transaction closure of update_channel_state (R3) ----------------
//@ fn actors/paych/src/lib.rs Actor::update_channel_state closure=0 as=update_tx0 params="st: &mut State, rt: &Rt, sv: SignedVoucher" retty="Result<(), ActorError>"
    ensures
        final(st).from == old(st).from, final(st).to == old(st).to,
        // the amount owed is never negative and never above what the channel holds (payee solvency)
        /*C01*/ /*C16*/ r.is_ok() ==> 0 <= final(st).to_send@ <= rt.balance@,
        r.is_ok() ==> ({
            let l0 = lanes_of(*old(st));
            let l1 = lanes_of(*final(st));
            let ms = sv.merges@;
            // nonce strictly higher than the last one used on its lane (replay freedom: afterwards the lane nonce IS the voucher's)
            &&& (l0.dom().contains(sv.lane) ==> l0[sv.lane].nonce < sv.nonce)
            &&& l1.dom().contains(sv.lane) && l1[sv.lane].nonce == sv.nonce && l1[sv.lane].redeemed@ == sv.amount@
            // every merged lane exists, is not the voucher's own lane, and had a lower nonce; its nonce is raised, its redeemed amount kept
            &&& forall|j: int| 0 <= j < ms.len() ==> (#[trigger] ms[j]).lane != sv.lane && l0.dom().contains(ms[j].lane)
                    && l1.dom().contains(ms[j].lane) && l1[ms[j].lane].nonce >= ms[j].nonce && l1[ms[j].lane].redeemed@ == l0[ms[j].lane].redeemed@
                    // "... a nonce higher than the last one used ... on every lane it merges": STRICTLY higher than what the lane had
                    && l0[ms[j].lane].nonce < ms[j].nonce
            // all other lanes unchanged
            &&& forall|k: u64| k != sv.lane && (forall|j: int| 0 <= j < ms.len() ==> (#[trigger] ms[j]).lane != k) ==>
                    (l1.dom().contains(k) == l0.dom().contains(k))
                    && (l0.dom().contains(k) ==> (#[trigger] l1[k]).nonce == l0[k].nonce && l1[k].redeemed@ == l0[k].redeemed@)
            // the amount owed moves by exactly: amount - already redeemed on its lane - already redeemed on the merged lanes
            &&& final(st).to_send@ == old(st).to_send@ + sv.amount@ - redeemed_at(l0, sv.lane) - merge_sum(l0, ms, ms.len() as int)
            // minimum settle heights only extend the delay
            &&& final(st).min_settle_height >= old(st).min_settle_height
            &&& (sv.min_settle_height != 0 ==> final(st).min_settle_height >= sv.min_settle_height)
            &&& final(st).settling_at >= old(st).settling_at
            &&& (old(st).settling_at == 0 ==> final(st).settling_at == 0)
        }),
//@ entry
        let ghost ms = sv.merges@;
        let ghost l0 = lanes_of(*old(st));
//@ loop 0 iter=it
            invariant
                it.seq() == ms,
                *st == *old(st),
                l0 == lanes_of(*old(st)),
                lanes_after(l0, l_states.view(), ms, it.index@),
                redeemed_from_others@ == merge_sum(l0, ms, it.index@),
                forall|j: int| 0 <= j < it.index@ ==> (#[trigger] ms[j]).lane != sv.lane,
                forall|j: int| 0 <= j < it.index@ ==> l0.dom().contains((#[trigger] ms[j]).lane) && l0[ms[j].lane].nonce < ms[j].nonce,
                lane_id == sv.lane,
                lane_state.nonce == (if l0.dom().contains(sv.lane) { l0[sv.lane].nonce } else { 0 }),
                lane_state.redeemed@ == redeemed_at(l0, sv.lane),
                l0.dom().contains(sv.lane) ==> l0[sv.lane].nonce < sv.nonce,
//@ end


/// "what was already redeemed ... on the lanes it merges": each merged LANE counted once, however often it is named
pub open spec fn named_before(ms: Seq<Merge>, n: int, lane: u64) -> bool { exists|j: int| 0 <= j < n && (#[trigger] ms[j]).lane == lane }
pub open spec fn distinct_sum(l: Map<u64, LaneState>, ms: Seq<Merge>, n: int) -> int
    decreases n
{
    if n <= 0 { 0 } else { distinct_sum(l, ms, n - 1) + (if named_before(ms, n - 1, ms[n - 1].lane) { 0 } else { redeemed_at(l, ms[n - 1].lane) }) }
}
pub open spec fn lanes_distinct(ms: Seq<Merge>, n: int) -> bool { forall|i: int, j: int| 0 <= i < j < n ==> (#[trigger] ms[i]).lane != (#[trigger] ms[j]).lane }
/// for every voucher whose merge list names no lane twice the two sums coincide, so `update_tx0` proves the property for it
pub proof fn distinct_sum_eq_when_distinct(l: Map<u64, LaneState>, ms: Seq<Merge>, n: int)
    requires 0 <= n <= ms.len(), lanes_distinct(ms, n)
    ensures distinct_sum(l, ms, n) == merge_sum(l, ms, n)
    decreases n
{
    if n > 0 {
        distinct_sum_eq_when_distinct(l, ms, n - 1);
        assert(!named_before(ms, n - 1, ms[n - 1].lane));
    }
}

// ---------------- the same closure against the PROPERTY's formula: sum over DISTINCT merged lanes (known finding F4) ----------------
//@ fn actors/paych/src/lib.rs Actor::update_channel_state closure=0 as=update_tx0_prop params="st: &mut State, rt: &Rt, sv: SignedVoucher" retty="Result<(), ActorError>"
    ensures
        final(st).from == old(st).from, final(st).to == old(st).to,
        // the amount owed is never negative and never above what the channel holds (payee solvency)
        /*C01*/ /*C16*/ r.is_ok() ==> 0 <= final(st).to_send@ <= rt.balance@,
        r.is_ok() ==> ({
            let l0 = lanes_of(*old(st));
            let l1 = lanes_of(*final(st));
            let ms = sv.merges@;
            // nonce strictly higher than the last one used on its lane (replay freedom: afterwards the lane nonce IS the voucher's)
            &&& (l0.dom().contains(sv.lane) ==> l0[sv.lane].nonce < sv.nonce)
            &&& l1.dom().contains(sv.lane) && l1[sv.lane].nonce == sv.nonce && l1[sv.lane].redeemed@ == sv.amount@
            // every merged lane exists, is not the voucher's own lane, and had a lower nonce; its nonce is raised, its redeemed amount kept
            &&& forall|j: int| 0 <= j < ms.len() ==> (#[trigger] ms[j]).lane != sv.lane && l0.dom().contains(ms[j].lane)
                    && l1.dom().contains(ms[j].lane) && l1[ms[j].lane].nonce >= ms[j].nonce && l1[ms[j].lane].redeemed@ == l0[ms[j].lane].redeemed@
                    // "... a nonce higher than the last one used ... on every lane it merges": STRICTLY higher than what the lane had
                    && l0[ms[j].lane].nonce < ms[j].nonce
            // all other lanes unchanged
            &&& forall|k: u64| k != sv.lane && (forall|j: int| 0 <= j < ms.len() ==> (#[trigger] ms[j]).lane != k) ==>
                    (l1.dom().contains(k) == l0.dom().contains(k))
                    && (l0.dom().contains(k) ==> (#[trigger] l1[k]).nonce == l0[k].nonce && l1[k].redeemed@ == l0[k].redeemed@)
            // the amount owed moves by exactly: amount - already redeemed on its lane - already redeemed on the merged lanes
            &&& final(st).to_send@ == old(st).to_send@ + sv.amount@ - redeemed_at(l0, sv.lane) - distinct_sum(l0, ms, ms.len() as int)
            // minimum settle heights only extend the delay
            &&& final(st).min_settle_height >= old(st).min_settle_height
            &&& (sv.min_settle_height != 0 ==> final(st).min_settle_height >= sv.min_settle_height)
            &&& final(st).settling_at >= old(st).settling_at
            &&& (old(st).settling_at == 0 ==> final(st).settling_at == 0)
        }),
//@ entry
        let ghost ms = sv.merges@;
        let ghost l0 = lanes_of(*old(st));
//@ loop 0 iter=it
            invariant
                it.seq() == ms,
                *st == *old(st),
                l0 == lanes_of(*old(st)),
                lanes_after(l0, l_states.view(), ms, it.index@),
                redeemed_from_others@ == merge_sum(l0, ms, it.index@),
                forall|j: int| 0 <= j < it.index@ ==> (#[trigger] ms[j]).lane != sv.lane,
                forall|j: int| 0 <= j < it.index@ ==> l0.dom().contains((#[trigger] ms[j]).lane) && l0[ms[j].lane].nonce < ms[j].nonce,
                lane_id == sv.lane,
                lane_state.nonce == (if l0.dom().contains(sv.lane) { l0[sv.lane].nonce } else { 0 }),
                lane_state.redeemed@ == redeemed_at(l0, sv.lane),
                l0.dom().contains(sv.lane) ==> l0[sv.lane].nonce < sv.nonce,
//@ end

// ---------------- update_channel_state (whole method: the checks that guard the closure) ----------------
/// the read-only AuthenticateMessage call to `signer` over this voucher's signing bytes that came back `true`
pub open spec fn authenticated_by(s: SendRec, signer: Address, sv: SignedVoucher) -> bool {
    &&& s.to == signer && s.method == authenticate_message_method_spec() && s.read_only && s.ok && s.value == 0
    &&& deser_ok::<bool>(s.ret) && deser_spec::<bool>(s.ret)
    &&& s.params == Some(IpldBlock { h: auth_params_hash(sv.signature->Some_0.bytes@, signing_bytes_spec(sv)) })
}
//@ fn actors/paych/src/lib.rs Actor::update_channel_state free tx0="State;update_tx0;&mut __vx_st, rt, sv" ret=res sub1="ext :: account :: AUTHENTICATE_MESSAGE_METHOD=>authenticate_message_method()" sub3="sig . to_vec ()=>vx_bytes_to_vec(sig)" sub4="hashed_secret != sv . secret_pre_image . as_slice ()=>vx_bytes_ne(hashed_secret, sv.secret_pre_image.as_slice())" sub2="Some (IpldBlock { codec : CBOR , data : extra . data . to_vec () })=>vx_block_of_raw(&extra.data)"
    requires
        !old(rt).in_tx@, old(rt).sends@.len() == 0,
    ensures
        res.is_ok() ==> ({
            let st = rt_state::<State>(old(rt).state_id@);
            let caller = old(rt).msg.caller;
            let signer = if caller == st.from { st.to } else { st.from };
            let sv = params.sv;
            // only a channel party may submit a voucher ...
            &&& (caller == st.from || caller == st.to)
            // ... and it must be signed by the OTHER party: the first message sent is a read-only AuthenticateMessage to that party over the
            // voucher's signing bytes and its signature, and it answered `true`
            &&& sv.signature.is_some()
            &&& final(rt).sends@.len() >= 1 && authenticated_by(final(rt).sends@[0], signer, sv)
            // it names THIS channel
            &&& rt_resolve(sv.channel_addr, 1).is_some() && old(rt).msg.receiver == (Address { id: rt_resolve(sv.channel_addr, 1)->Some_0, proto: 0 })
            // it is inside its time lock, and the channel has not reached its settling epoch
            &&& old(rt).epoch >= sv.time_lock_min && (sv.time_lock_max == 0 || old(rt).epoch <= sv.time_lock_max)
            &&& (st.settling_at == 0 || old(rt).epoch < st.settling_at)
            // it carries the right secret
            &&& (sv.secret_pre_image@.len() > 0 ==> blake2b_spec(params.secret@) == sv.secret_pre_image@)
            &&& sv.amount@ >= 0
            // an `extra` verification call, when present, was made and succeeded
            &&& (sv.extra.is_some() ==> final(rt).sends@.len() == 2 && final(rt).sends@[1].to == sv.extra->Some_0.actor
                    && final(rt).sends@[1].method == sv.extra->Some_0.method && final(rt).sends@[1].ok && final(rt).sends@[1].value == 0)
            &&& (sv.extra.is_none() ==> final(rt).sends@.len() == 1)
        }),
        /*C11*/ res.is_ok() ==> final(rt).validated@.is_some(),
        // a rejected voucher changes nothing
        res.is_err() && params.sv.extra.is_none() ==> final(rt).state_id == old(rt).state_id,
//@ entry
        proof { axiom_auth_params_hash(); }
//@ end

// ---------------- settle (closure) ----------------
//@ fn actors/paych/src/lib.rs Actor::settle closure=0 as=settle_tx0 params="st: &mut State, rt: &mut Rt" retty="Result<(), ActorError>"
    requires
        old(rt).epoch <= i64::MAX - SETTLE_DELAY,
    ensures
        final(st).from == old(st).from, final(st).to == old(st).to,
        final(st).to_send == old(st).to_send, final(st).lane_states == old(st).lane_states,
        final(st).min_settle_height == old(st).min_settle_height,
        // only a channel party may settle, only once, and collection is at least SETTLE_DELAY away and not before min_settle_height
        /*C11*/ r.is_ok() ==> (old(rt).msg.caller == old(st).from || old(rt).msg.caller == old(st).to) && final(rt).validated@.is_some(),
        r.is_ok() ==> old(st).settling_at == 0,
        r.is_ok() ==> final(st).settling_at == (if old(rt).epoch + SETTLE_DELAY >= old(st).min_settle_height { old(rt).epoch + SETTLE_DELAY } else { old(st).min_settle_height as int }),
        r.is_err() ==> final(st).settling_at == old(st).settling_at,
//@ end

// ---------------- collect (whole method) ----------------
//@ fn actors/paych/src/lib.rs Actor::collect free
    requires
        !old(rt).in_tx@,
        !old(rt).deleted@,
        old(rt).sends@.len() == 0,
    ensures
        r.is_ok() ==> ({
            let st = rt_state::<State>(old(rt).state_id@);
            // only a party, only after the settlement delay has elapsed
            &&& (old(rt).msg.caller == st.from || old(rt).msg.caller == st.to)
            &&& st.settling_at != 0 && old(rt).epoch >= st.settling_at
            // pays the payee exactly the amount owed, then returns the remainder to the payer, then deletes the channel
            &&& final(rt).sends@.len() == 2
            &&& final(rt).sends@[0].to == st.to && final(rt).sends@[0].method == METHOD_SEND && final(rt).sends@[0].value == st.to_send@ && final(rt).sends@[0].ok
            &&& final(rt).sends@[1].to == st.from && final(rt).sends@[1].method == METHOD_SEND && final(rt).sends@[1].ok
            // the remainder: everything the channel holds after the payee was paid. The constructor only checks that an actor exists behind
            // each party address (NOT that it is an account), so a party can be the channel itself: value "sent" to oneself stays.
            &&& (final(rt).sends@[1].value == old(rt).balance@ - st.to_send@
                 || (rt_is_self(*old(rt), st.to) && final(rt).sends@[1].value == old(rt).balance@))
            &&& (rt_never_self(*old(rt), st.to) && rt_never_self(*old(rt), st.from)) ==>
                    final(rt).sends@[1].value == old(rt).balance@ - st.to_send@ && final(rt).balance@ == 0
            &&& final(rt).deleted@
        }),
        /*C11*/ r.is_ok() ==> (old(rt).msg.caller == rt_state::<State>(old(rt).state_id@).from || old(rt).msg.caller == rt_state::<State>(old(rt).state_id@).to) && final(rt).validated@.is_some(),
        // nothing is paid out unless the whole collection succeeds in order
        r.is_err() ==> final(rt).sends@.len() <= 2 && !final(rt).deleted@,
//@ end

} // verus!
fn main() {}
