// unit: miner monies.rs — penalty formulas (C15), locked reward share (C14)
//@ include prelude/core.rs
use std::cmp;
verus! {

//@ const runtime/src/builtin/network.rs EPOCH_DURATION_SECONDS
//@ const runtime/src/builtin/network.rs SECONDS_IN_DAY
//@ const runtime/src/builtin/network.rs EPOCHS_IN_DAY
//@ const runtime/src/builtin/network.rs EXPECTED_LEADERS_PER_EPOCH
//@ const actors/miner/src/monies.rs TERM_FEE_PLEDGE_MULTIPLE_NUM
//@ const actors/miner/src/monies.rs TERM_FEE_PLEDGE_MULTIPLE_DENOM
//@ const actors/miner/src/monies.rs TERM_FEE_MIN_PLEDGE_MULTIPLE_NUM
//@ const actors/miner/src/monies.rs TERM_FEE_MIN_PLEDGE_MULTIPLE_DENOM
//@ const actors/miner/src/monies.rs TERM_FEE_MAX_FAULT_FEE_MULTIPLE_NUM
//@ const actors/miner/src/monies.rs TERM_FEE_MAX_FAULT_FEE_MULTIPLE_DENOM
//@ const actors/miner/src/monies.rs TERMINATION_LIFETIME_CAP
//@ const actors/miner/src/monies.rs CONSENSUS_FAULT_FACTOR
//@ const actors/miner/src/monies.rs LOCKED_REWARD_FACTOR_NUM
//@ const actors/miner/src/monies.rs LOCKED_REWARD_FACTOR_DENOM
//@ const runtime/src/builtin/network.rs SECONDS_IN_HOUR
//@ const runtime/src/builtin/network.rs EPOCHS_IN_HOUR
//@ item actors/miner/src/policy.rs VestSpec
//@ const actors/miner/src/policy.rs REWARD_VESTING_SPEC

// ---- the property's numbers, written independently of the source constants -----------------
// "every early-terminated sector is charged a termination fee of at least 2% of its pledge and
//  at most the protocol cap" (cap: 8.5% of pledge, or 105% of the fault fee when that is larger)
pub open spec fn two_percent(ip: int) -> int { (2 * ip) / 100 }
pub open spec fn cap_pledge(ip: int) -> int { (85 * ip) / 1000 }
pub open spec fn cap_fault_fee(ff: int) -> int { (105 * ff) / 100 }
pub open spec fn imax(a: int, b: int) -> int { if a >= b { a } else { b } }

//@ fn actors/miner/src/monies.rs pledge_penalty_for_termination
    requires
        initial_pledge@ >= 0,
        fault_fee@ >= 0,
        sector_age >= 0,
    ensures
        r@ >= two_percent(initial_pledge@),
        r@ <= imax(cap_pledge(initial_pledge@), cap_fault_fee(fault_fee@)),
        r@ >= 0,
//@ entry
        proof {
            // age-scaled fee is non-negative: (age * fee) / (140 * 2880) with age, fee >= 0
            assert(TERMINATION_LIFETIME_CAP * EPOCHS_IN_DAY == 403200) by (compute);
            lemma_frac_order(initial_pledge@);
        }
//@ end

//@ fn actors/miner/src/monies.rs consensus_fault_penalty
    requires
        this_epoch_reward@ >= 0,
    ensures
        r@ >= 0,                                            // "penalties are never negative"
        this_epoch_reward@ >= pow10_18() ==> r@ > 0,        // "... penalises the miner" (a reward of >= 1 FIL gives a positive penalty)
//@ end

//@ fn actors/miner/src/monies.rs locked_reward_from_reward
    requires
        reward@ >= 0,
    ensures
        // 75% of a block reward is locked (rounded down), never more than the reward itself
        r.0@ == (3 * reward@) / 4,
        0 <= r.0@ <= reward@,
        // "vest linearly over 180 days in daily steps"
        r.1.vest_period == 180 * 2880,
        r.1.step_duration == 2880,
        r.1.initial_delay == 0,
//@ end

pub proof fn lemma_frac_order(ip: int)
    requires ip >= 0
    ensures (2 * ip) / 100 <= (85 * ip) / 1000, (85 * ip) / 1000 >= 0, (2 * ip) / 100 >= 0
{
    assert((2 * ip) / 100 <= (85 * ip) / 1000) by (nonlinear_arith) requires ip >= 0;
    assert((85 * ip) / 1000 >= 0) by (nonlinear_arith) requires ip >= 0;
    assert((2 * ip) / 100 >= 0) by (nonlinear_arith) requires ip >= 0;
}

} // verus!
fn main() {}
