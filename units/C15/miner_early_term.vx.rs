// unit: miner process_early_terminations — every early-terminated sector is charged its termination fee and releases its pledge (C15, C03)
//@ include prelude/core.rs
//@ include prelude/ipld.rs
//@ include prelude/bitfield.rs
//@ include prelude/rt.rs
//@ include prelude/singletons.rs
//@ include prelude/policy.rs
//@ include prelude/cbor.rs
verus! {
//@ item actors/miner/src/policy.rs VestSpec
//@ item runtime/src/builtin/reward/smooth/alpha_beta_filter.rs FilterEstimate
}
//@ include prelude/miner_vesting.rs
//@ include prelude/miner_ext.rs
use std::cmp;
macro_rules! log_debug { ($($t:tt)*) => { () } }
macro_rules! info { ($($t:tt)*) => { () } }
verus! {
//@ include units/shared/miner_funds.inc
//@ include units/shared/miner_methods.inc
pub type DealWeight = BigInt;
#[derive(Clone, Copy, PartialEq, Eq, Structural)]
pub struct SectorOnChainInfoFlags { pub bits: u32 }
//@ item actors/miner/src/types.rs SectorOnChainInfo
//@ include prelude/miner_early_term_assumed.rs
//@ const actors/miner/src/monies.rs TERM_FEE_PLEDGE_MULTIPLE_NUM
//@ const actors/miner/src/monies.rs TERM_FEE_PLEDGE_MULTIPLE_DENOM
//@ const actors/miner/src/monies.rs TERM_FEE_MIN_PLEDGE_MULTIPLE_NUM
//@ const actors/miner/src/monies.rs TERM_FEE_MIN_PLEDGE_MULTIPLE_DENOM
//@ const actors/miner/src/monies.rs TERM_FEE_MAX_FAULT_FEE_MULTIPLE_NUM
//@ const actors/miner/src/monies.rs TERM_FEE_MAX_FAULT_FEE_MULTIPLE_DENOM
//@ const actors/miner/src/monies.rs TERMINATION_LIFETIME_CAP
//@ const runtime/src/builtin/network.rs SECONDS_IN_DAY
//@ const runtime/src/builtin/network.rs EPOCH_DURATION_SECONDS
//@ const runtime/src/builtin/network.rs EPOCHS_IN_DAY

/// "a termination fee of at least 2% of its pledge"
pub open spec fn two_pct(p: int) -> int { floor_div(p * 2, 100) }
//@ fn actors/miner/src/monies.rs pledge_penalty_for_termination
    ensures r@ >= two_pct(initial_pledge@),
//@ end

// ---- sums over the terminated sectors ----
pub open spec fn fee_lb(ss: Seq<SectorOnChainInfo>) -> int decreases ss.len() { if ss.len() == 0 { 0 } else { fee_lb(ss.drop_last()) + two_pct(ss.last().initial_pledge@) } }
pub open spec fn pledge_of(ss: Seq<SectorOnChainInfo>) -> int decreases ss.len() { if ss.len() == 0 { 0 } else { pledge_of(ss.drop_last()) + ss.last().initial_pledge@ } }
pub open spec fn fee_lb_pairs(root: Cid, ps: Seq<(ChainEpoch, BitField)>) -> int decreases ps.len() { if ps.len() == 0 { 0 } else { fee_lb_pairs(root, ps.drop_last()) + fee_lb(sectors_named(root, ps.last().1)) } }
pub open spec fn pledge_pairs(root: Cid, ps: Seq<(ChainEpoch, BitField)>) -> int decreases ps.len() { if ps.len() == 0 { 0 } else { pledge_pairs(root, ps.drop_last()) + pledge_of(sectors_named(root, ps.last().1)) } }
pub proof fn lemma_pledge_nonneg(ss: Seq<SectorOnChainInfo>)
    requires forall|i: int| 0 <= i < ss.len() ==> (#[trigger] ss[i]).initial_pledge@ >= 0
    ensures pledge_of(ss) >= 0
    decreases ss.len()
{ if ss.len() > 0 { lemma_pledge_nonneg(ss.drop_last()); } }

//@ fn actors/miner/src/lib.rs process_early_terminations closure=0 as=pet_tx0 params="state: &mut State, rt: &mut Rt, reward_smoothed: &FilterEstimate, quality_adj_power_smoothed: &FilterEstimate, terminated_sector_nums: &mut Vec<SectorNumber>, sectors_with_data: &mut Vec<SectorNumber>" retty="Result<(TerminationResult, bool, TokenAmount, TokenAmount), ActorError>" ret=res derefs=terminated_sector_nums,sectors_with_data sub0="result . iter ()=>result.vx_pairs()" suball0="info !=>info !"
    requires st_wf(*old(state)),
    ensures
        *final(rt) == *old(rt),
        res.is_ok() ==> ({
            let s0 = *old(state);
            let s1 = *final(state);
            let (result, more, penalty, pledge_delta) = res->Ok_0;
            let ps = result.pairs@;
            let charged = s1.fee_debt@ + penalty@ - s0.fee_debt@;
            &&& ps == pet_pop_pairs(s0, rt_policy().addressed_partitions_max, rt_policy().addressed_sectors_max)
            &&& (result.sectors_processed == 0 ==> penalty@ == 0 && pledge_delta@ == 0 && s1.fee_debt == s0.fee_debt && s1.initial_pledge == s0.initial_pledge && s1.locked_funds == s0.locked_funds)
            &&& (result.sectors_processed != 0 ==> {
                // "every early-terminated sector is charged a termination fee of at least 2% of its pledge": the amount charged (burnt now or kept as
                // fee debt) is at least the sum of those minimum fees over all terminated sectors
                &&& charged >= fee_lb_pairs(s0.sectors, ps)
                // every terminated sector's pledge requirement is released, exactly
                &&& s1.initial_pledge@ == s0.initial_pledge@ - pledge_pairs(s0.sectors, ps)
                // what is burnt now never exceeds the unlocked balance; the rest stays fee debt
                &&& penalty@ >= 0 && penalty@ <= unlocked(s1, old(rt).balance@) && s1.fee_debt@ >= 0
                // C03: the pledge delta reported equals the change of vesting funds + initial pledge
                &&& pledge_delta@ == (s1.locked_funds@ + s1.initial_pledge@) - (s0.locked_funds@ + s0.initial_pledge@)
                &&& st_wf(s1)
            })
        }),
//@ before "apply_penalty (& total_penalty)"
        proof { assert(result.pairs@.subrange(0, result.pairs@.len() as int) =~= result.pairs@); assert(state.sectors == old(state).sectors); }
//@ loopstart 0
            let ghost tp0 = total_penalty@;
            let ghost ti0 = total_initial_pledge@;
            let ghost i0 = it0.index@ as int;
//@ loopend 0
            proof {
                let ps = result.pairs@;
                assert(sectors@.subrange(0, sectors@.len() as int) =~= sectors@);
                assert(ps.subrange(0, i0 + 1).drop_last() =~= ps.subrange(0, i0));
                assert(ps.subrange(0, i0 + 1).last() == ps[i0]);
                assert(sectors@ == sectors_named(state.sectors, ps[i0].1));
            }
//@ loopend 1
                proof {
                    let j = it1.index@ as int;
                    assert(sectors@.subrange(0, j + 1).drop_last() =~= sectors@.subrange(0, j));
                    assert(sectors@.subrange(0, j + 1).last() == sectors@[j]);
                }
//@ loop 0 iter=it0
            invariant
                *rt == *old(rt), it0.index@ <= it0.seq().len(), it0.seq().len() == result.pairs@.len(),
                forall|i: int| 0 <= i < it0.seq().len() ==> (#[trigger] it0.seq()[i]).0 == result.pairs@[i].0 && *it0.seq()[i].1 == result.pairs@[i].1,
                sectors.root() == state.sectors,
                total_penalty@ >= fee_lb_pairs(state.sectors, result.pairs@.subrange(0, it0.index@ as int)),
                total_initial_pledge@ == pledge_pairs(state.sectors, result.pairs@.subrange(0, it0.index@ as int)),
                total_initial_pledge@ >= 0,
                forall|i: int| 0 <= i < result.pairs@.len() ==> -0x2000_0000_0000_0000 < (#[trigger] result.pairs@[i]).0 < 0x2000_0000_0000_0000,
//@ loop 1 iter=it1
                invariant
                    *rt == *old(rt), it1.index@ <= it1.seq().len(), it1.seq().len() == sectors@.len(),
                    forall|i: int| 0 <= i < it1.seq().len() ==> *(#[trigger] it1.seq()[i]) == sectors@[i],
                    forall|i: int| 0 <= i < sectors@.len() ==> (#[trigger] sectors@[i]).initial_pledge@ >= 0 && -0x2000_0000_0000_0000 < sectors@[i].activation < 0x2000_0000_0000_0000,
                    -0x2000_0000_0000_0000 < epoch < 0x2000_0000_0000_0000,
                    total_penalty@ >= tp0 + fee_lb(sectors@.subrange(0, it1.index@ as int)),
                    total_initial_pledge@ == ti0 + pledge_of(sectors@.subrange(0, it1.index@ as int)),
                    total_initial_pledge@ >= 0, ti0 >= 0,
//@ end

// ======================= process_early_terminations: whole function =======================
//@ fn actors/miner/src/lib.rs process_early_terminations tx0="State;pet_tx0;&mut __vx_st, rt, reward_smoothed, quality_adj_power_smoothed, &mut terminated_sector_nums, &mut sectors_with_data" suball0="info !=>info !" sub0="log :: debug !=>log_debug !"
    requires
        !old(rt).in_tx@, st_wf(rt_state::<State>(old(rt).state_id@)), old(rt).epoch >= 0,
    ensures
        r.is_ok() ==> final(rt).tx_log@.len() == old(rt).tx_log@.len() + 1 && final(rt).sends@.len() >= old(rt).sends@.len() && ({
            let s0 = rt_state::<State>(old(rt).state_id@);
            let s1 = rt_state::<State>(final(rt).tx_log@.last());
            let ps = pet_pop_pairs(s0, rt_policy().addressed_partitions_max, rt_policy().addressed_sectors_max);
            let n0 = old(rt).sends@.len() as int;
            let s = final(rt).sends@;
            let burnt = if s.len() > n0 && is_burn(s[n0]) && s[n0].ok { s[n0].value } else { 0 };
            let delta = (s1.locked_funds@ + s1.initial_pledge@) - (s0.locked_funds@ + s0.initial_pledge@);
            &&& (forall|i: int| 0 <= i < n0 ==> s[i] == old(rt).sends@[i])
            // C15: what is charged for the batch — burnt in this call or kept as fee debt — is at least the sum of the minimum termination
            //      fees (2% of pledge) of all sectors terminated in it, and each such sector's pledge is released
            &&& (s1.fee_debt@ + burnt - s0.fee_debt@ >= fee_lb_pairs(s0.sectors, ps) || s1.fee_debt == s0.fee_debt && s1.initial_pledge == s0.initial_pledge)
            &&& (s1.initial_pledge@ == s0.initial_pledge@ - pledge_pairs(s0.sectors, ps) || s1.initial_pledge == s0.initial_pledge)
            // C03: the power actor is told the change of vesting funds + initial pledge
            &&& (delta != 0 ==> exists|k: int| n0 <= k < s.len() && is_pledge_note(#[trigger] s[k]) && s[k].ok
                    && exists|d: TokenAmount| s[k].params == Some(IpldBlock { h: #[trigger] cbor_hash(d) }) && d@ == delta)
        }),
//@ loop 0 iter=it
        invariant
            !rt.in_tx@, rt.sends == sends_fin, rt.tx_log == log_fin, rt.state_id == id_fin, rt.epoch == old(rt).epoch, rt.msg == old(rt).msg,
//@ before "for sector in"
        let ghost sends_fin = rt.sends;
        let ghost log_fin = rt.tx_log;
        let ghost id_fin = rt.state_id;
//@ end
} // verus!
fn main() {}
