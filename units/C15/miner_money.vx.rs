// unit: miner actor — the remaining MONEY-moving and CONTROL methods under whole-method contracts (C14, C15, C03, C01, C02, C13, C11)
// Real bodies, extracted whole from /repo (no R21 region / slice: nothing is dropped): Actor::{apply_rewards, repay_debt, terminate_sectors,
// change_worker_address, confirm_change_worker_address, change_beneficiary, change_peer_id, change_multiaddresses, get_beneficiary,
// control_addresses, constructor} — each transaction closure lifted (R3) and the parent method around it — with the helpers they call:
// locked_reward_from_reward, process_early_terminations (+ closure), request_update_power, request_current_total_power, enroll_cron_event,
// schedule_early_termination_work, resolve_worker_address, check_control_addresses, check_peer_info, check_valid_post_proof_type,
// process_pending_worker, MinerInfo::new, calculate_create_miner_deposit, current_proving_period_start, current_deadline_index,
// State::{load_deadlines, save_deadlines}, and what units/shared/miner_funds.inc + miner_methods.inc bring (fund helpers, burn_funds,
// notify_pledge_changed, ...).
// ASSUMED (prelude/miner_money_assumed.rs, prelude/miner_money_term_assumed.rs; each stub says why it is true of the real callee): the
// deadline-level operations of the TerminateSectors closure as opaque DETERMINISTIC functions, State::pop_early_terminations (incl. its
// `has more` flag = "the queue left in the state is not empty"), the sector-map model, Sectors, Address::protocol as a function of the
// address, BytesDe length, State::new (all totals zero), the proof-type tables, the proving-period offset hash, the opaque pledge formula.
// Substitutions (tool limits; all listed in the evidence): the caller-set iterator `control_addresses.iter().chain(..)` -> vx_control_worker_owner;
// the control-address iterator chains of change_worker_address / constructor -> vx_resolve_control_addrs / vx_resolve_control_ids (see the NB at
// change_worker_address: a vx pattern cannot contain a string literal, so the original chain is turned into a comment and two identity
// substitutions guard its resolve / new_id steps); `ext::…` constants extracted at top level; `ma.0.len()` / `ma.0.is_empty()` of the opaque
// BytesDe; MinerInfo::new's `into_iter().map(new_id).collect_vec()` -> vx_ids_to_addrs; the `impl FnOnce` hash argument of
// assign_proving_period_offset; `repay_partial_debt_in_priority_order` / `unlock_vested_and_unvested_funds` -> their `as=` twins (same real
// bodies, stronger contract).
// EXPECTED FAILURE: `constructor_prop` (known finding F1) fails on its last clause only; everything else verifies.
//@ include prelude/core.rs
//@ include prelude/ipld.rs
//@ include prelude/bitfield.rs
//@ include prelude/rt.rs
//@ include prelude/singletons.rs
//@ include prelude/policy.rs
//@ include prelude/cbor.rs
verus! {
//@ item actors/miner/src/policy.rs VestSpec
//@ item runtime/src/builtin/reward/smooth/alpha_beta_filter.rs FilterEstimate
}
//@ include prelude/miner_vesting.rs
//@ include prelude/miner_ext.rs
use std::cmp;
use std::ops;
macro_rules! log_debug { ($($t:tt)*) => { () } }
macro_rules! info { ($($t:tt)*) => { () } }
verus! {
//@ include units/shared/miner_funds.inc
//@ include units/shared/miner_methods.inc
//@ include prelude/miner_money_assumed.rs

/// who may operate the miner: a control address, the worker or the owner
pub open spec fn may_operate(i: MinerInfo, a: Address) -> bool { i.control_addresses@.contains(a) || a == i.worker || a == i.owner }
/// the notification carries exactly `delta`
pub open spec fn pledge_note_of(s: SendRec, delta: int) -> bool {
    is_pledge_note(s) && s.ok && s.value == 0 && exists|d: TokenAmount| s.params == Some(IpldBlock { h: #[trigger] cbor_hash(d) }) && d@ == delta
}

// ======================= State::repay_partial_debt_in_priority_order, with what it leaves alone when there is no debt =======================
// units/shared/miner_funds.inc puts both functions under contract, but says nothing about the case "nothing to repay": the same REAL bodies are
// extracted a second time under other names (`as=`), with the contract of the .inc plus that clause; the callers below are pointed at these
// twins by a token substitution (tool limit: one contract per function name).
//@ fn actors/miner/src/state.rs State::unlock_vested_and_unvested_funds as=uvuf_strong ret=res
    requires
        st_wf(*old(self)),
        target@ >= 0,
    ensures
        st_rest_eq(*old(self), *final(self)),
        final(self).pre_commit_deposits == old(self).pre_commit_deposits,
        final(self).initial_pledge == old(self).initial_pledge,
        final(self).fee_debt == old(self).fee_debt,
        res.is_ok() ==> st_wf(*final(self)) && ({
            let (unvested, total) = res->Ok_0;
            &&& 0 <= unvested@ <= target@
            &&& unvested@ <= total@
            &&& total@ - unvested@ <= vf_sum_before(old(self).vesting_funds@, current_epoch as int)
            &&& final(self).locked_funds@ == old(self).locked_funds@ - total@
        }),
        // nothing is asked for: nothing is unlocked, not even what has vested
        target@ == 0 ==> res.is_ok() && res->Ok_0.1@ == 0 && res->Ok_0.0@ == 0
            && final(self).locked_funds == old(self).locked_funds && final(self).vesting_funds == old(self).vesting_funds,
//@ entry
        proof { lemma_vf_bounds(old(self).vesting_funds@, current_epoch as int); }
//@ end

//@ fn actors/miner/src/state.rs State::repay_partial_debt_in_priority_order as=rpd_strong ret=res sub0="self . unlock_vested_and_unvested_funds=>self . uvuf_strong"
    requires
        st_wf(*old(self)),
    ensures
        st_rest_eq(*old(self), *final(self)),
        final(self).pre_commit_deposits == old(self).pre_commit_deposits,
        final(self).initial_pledge == old(self).initial_pledge,
        res.is_ok() ==> st_wf(*final(self)) && ({
            let (to_burn, total_unlocked) = res->Ok_0;
            // every charged attoFIL is burnt now or remains debt
            &&& old(self).fee_debt@ == to_burn@ + final(self).fee_debt@
            &&& to_burn@ >= 0
            &&& final(self).fee_debt@ >= 0
            // burning to_burn keeps the miner solvent
            &&& to_burn@ <= unlocked(*final(self), curr_balance@)
            // priority: debt remains only if nothing unlocked is left
            &&& (final(self).fee_debt@ > 0 ==> to_burn@ == unlocked(*final(self), curr_balance@))
            &&& final(self).locked_funds@ == old(self).locked_funds@ - total_unlocked@
            &&& total_unlocked@ >= 0
            // no debt: the vesting table and the locked total are left alone
            &&& (old(self).fee_debt@ == 0 ==> to_burn@ == 0 && total_unlocked@ == 0
                    && final(self).locked_funds == old(self).locked_funds && final(self).vesting_funds == old(self).vesting_funds)
        }),
//@ entry
        proof { lemma_vf_bounds(old(self).vesting_funds@, current_epoch as int); }
//@ end

// ======================= (1) ApplyRewards =======================
//@ const runtime/src/builtin/network.rs EPOCH_DURATION_SECONDS
//@ const runtime/src/builtin/network.rs SECONDS_IN_HOUR
//@ const runtime/src/builtin/network.rs EPOCHS_IN_HOUR
//@ const runtime/src/builtin/network.rs SECONDS_IN_DAY
//@ const runtime/src/builtin/network.rs EPOCHS_IN_DAY
//@ const actors/miner/src/monies.rs LOCKED_REWARD_FACTOR_NUM
//@ const actors/miner/src/monies.rs LOCKED_REWARD_FACTOR_DENOM
//@ const actors/miner/src/policy.rs REWARD_VESTING_SPEC
//@ item actors/miner/src/types.rs ApplyRewardParams

/// "locked_reward_from_reward (75%)": the share of a block reward that is locked, rounded down
pub open spec fn locked_share(reward: int) -> int { (3 * reward) / 4 }

// (contract as in units/C15/monies.vx.rs)
//@ fn actors/miner/src/monies.rs locked_reward_from_reward
    requires
        reward@ >= 0,
    ensures
        r.0@ == locked_share(reward@),
        0 <= r.0@ <= reward@,
        // "vest linearly over 180 days in daily steps"
        *r.1 == REWARD_VESTING_SPEC,
        r.1.vest_period == 180 * 2880,
        r.1.step_duration == 2880,
        r.1.initial_delay == 0,
//@ end

//@ fn actors/miner/src/lib.rs Actor::apply_rewards closure=0 as=ar_tx0 params="st: &mut State, rt: &mut Rt, params: ApplyRewardParams" retty="Result<(TokenAmount, TokenAmount), ActorError>" ret=res sub0="st . repay_partial_debt_in_priority_order=>st . rpd_strong"
    requires
        st_wf(*old(st)), old(rt).validated@.is_none(),
        // established by the method before the transaction
        params.reward@ >= 0,
    ensures
        *final(rt) == (Rt { validated: final(rt).validated, ..*old(rt) }),
        // "only the reward actor"
        /*C11*/ res.is_ok() ==> final(rt).validated@.is_some() && old(rt).msg.caller == REWARD_ACTOR_ADDR,
        res.is_ok() ==> ({
            let s0 = *old(st);
            let s1 = *final(st);
            let (pledge_delta, to_burn) = res->Ok_0;
            let lock = locked_share(params.reward@);
            let vested = vf_sum_before(s0.vesting_funds@, old(rt).epoch as int);
            let debt = s0.fee_debt@ + params.penalty@;
            &&& st_wf(s1)
            // "penalties are never negative"
            &&& params.penalty@ >= 0
            // the share to lock is covered by funds that are not already spoken for
            &&& lock <= unlocked(s0, old(rt).balance@)
            // C14: what has vested by now unlocks, the locked share of the reward is added IN FULL; funds leave the vesting table early only
            //      "to pay the miner's own penalties": never when there is nothing to pay
            &&& s1.locked_funds@ <= s0.locked_funds@ - vested + lock
            &&& (debt == 0 ==> s1.locked_funds@ == s0.locked_funds@ - vested + lock)
            // C03: the pledge delta handed back (to be notified to the power actor) is exactly the change of the vesting-funds total
            &&& pledge_delta@ == s1.locked_funds@ - s0.locked_funds@
            // C15: the penalty is charged in full: burnt now or kept as fee debt
            &&& debt == to_burn@ + s1.fee_debt@
            &&& 0 <= to_burn@ && s1.fee_debt@ >= 0
            // C01: burning it leaves the miner solvent; debt remains only when nothing unlocked is left
            &&& to_burn@ <= unlocked(s1, old(rt).balance@)
            &&& (s1.fee_debt@ > 0 ==> to_burn@ == unlocked(s1, old(rt).balance@))
            // collateral is never touched
            &&& s1.pre_commit_deposits == s0.pre_commit_deposits && s1.initial_pledge == s0.initial_pledge && st_rest_eq(s0, s1)
        }),
//@ end

//@ fn actors/miner/src/lib.rs Actor::apply_rewards free tx0="State;ar_tx0;&mut __vx_st, rt, params"
    requires
        !old(rt).in_tx@, old(rt).sends@.len() == 0, old(rt).tx_log@.len() == 0, old(rt).validated@.is_none(),
        st_wf(rt_state::<State>(old(rt).state_id@)),
    ensures
        /*C11*/ r.is_ok() ==> final(rt).validated@.is_some() && old(rt).msg.caller == REWARD_ACTOR_ADDR,
        r.is_ok() ==> final(rt).tx_log@.len() == 1 && ({
            let s0 = rt_state::<State>(old(rt).state_id@);
            let s1 = rt_state::<State>(final(rt).tx_log@[0]);
            let s = final(rt).sends@;
            let lock = locked_share(params.reward@);
            let vested = vf_sum_before(s0.vesting_funds@, old(rt).epoch as int);
            let debt = s0.fee_debt@ + params.penalty@;
            let delta = s1.locked_funds@ - s0.locked_funds@;
            let burnt = debt - s1.fee_debt@;
            let k0: int = if delta != 0 { 1 } else { 0 };
            let k1: int = if burnt > 0 { 1 } else { 0 };
            &&& params.reward@ >= 0 && params.penalty@ >= 0
            &&& lock <= unlocked(s0, old(rt).balance@)
            // C14: the reward's locked share is in the vesting table; nothing leaves it early unless there is a penalty / debt to pay
            &&& s1.locked_funds@ <= s0.locked_funds@ - vested + lock
            &&& (debt == 0 ==> s1.locked_funds@ == s0.locked_funds@ - vested + lock)
            &&& s1.pre_commit_deposits == s0.pre_commit_deposits && s1.initial_pledge == s0.initial_pledge
            // exactly these messages leave the actor, in this order: tell the power actor, burn
            &&& s.len() == k0 + k1
            // C03: the power actor is told EXACTLY the change of vesting funds + initial pledge (the latter does not move)
            &&& (delta != 0 ==> pledge_note_of(s[0], delta))
            // C15: what is burnt is exactly the part of (old debt + penalty) that does not stay as fee debt, never more than the unlocked balance
            &&& 0 <= burnt <= unlocked(s1, old(rt).balance@) && s1.fee_debt@ >= 0
            &&& (burnt > 0 ==> is_burn(s[k0]) && s[k0].value == burnt && s[k0].ok)
            &&& (s1.fee_debt@ > 0 ==> burnt == unlocked(s1, old(rt).balance@))
            // C01: "check_balance_invariants after every miner method": the state found at the end is solvent against the balance at the end
            &&& ({ let sf = rt_state::<State>(final(rt).state_id@);
                   st_solvent(sf, final(rt).balance@) && sf.pre_commit_deposits@ >= 0 && sf.locked_funds@ >= 0 && sf.initial_pledge@ >= 0 && sf.fee_debt@ >= 0 })
        }),
        // a rejected call records nothing
        final(rt).tx_log@.len() == 0 ==> final(rt).state_id == old(rt).state_id && final(rt).sends@.len() == 0,
//@ end

// ======================= (2) RepayDebt =======================
//@ fn actors/miner/src/lib.rs Actor::repay_debt closure=0 as=rd_tx0 params="state: &mut State, rt: &mut Rt" retty="Result<(TokenAmount, TokenAmount, State), ActorError>" ret=res sub0="info . control_addresses . iter () . chain (& [info . worker , info . owner])=>&vx_control_worker_owner(&info)" sub1="state . repay_partial_debt_in_priority_order=>state . rpd_strong"
    requires
        st_wf(*old(state)), old(rt).validated@.is_none(),
    ensures
        *final(rt) == (Rt { validated: final(rt).validated, ..*old(rt) }),
        /*C11*/ res.is_ok() ==> final(rt).validated@.is_some() && info_of(*old(state)).is_some() && may_operate(info_of(*old(state))->Some_0, old(rt).msg.caller),
        res.is_ok() ==> ({
            let s0 = *old(state);
            let s1 = *final(state);
            let (burn_amount, total_unlocked, copy) = res->Ok_0;
            &&& st_wf(s1) && copy == s1
            // "repays as much fee debt as the unlocked balance allows": debt remains only when nothing unlocked is left
            &&& s0.fee_debt@ == burn_amount@ + s1.fee_debt@
            &&& 0 <= burn_amount@ <= unlocked(s1, old(rt).balance@) && s1.fee_debt@ >= 0
            &&& (s1.fee_debt@ > 0 ==> burn_amount@ == unlocked(s1, old(rt).balance@))
            // vesting funds are drawn on only to pay the debt; the amount is handed back for the power actor
            &&& s1.locked_funds@ == s0.locked_funds@ - total_unlocked@ && total_unlocked@ >= 0
            &&& (s0.fee_debt@ == 0 ==> total_unlocked@ == 0 && burn_amount@ == 0)
            // "never touches collateral"
            &&& s1.pre_commit_deposits == s0.pre_commit_deposits && s1.initial_pledge == s0.initial_pledge && st_rest_eq(s0, s1)
        }),
//@ end

//@ fn actors/miner/src/lib.rs Actor::repay_debt free tx0="State;rd_tx0;&mut __vx_st, rt"
    requires
        !old(rt).in_tx@, old(rt).sends@.len() == 0, old(rt).tx_log@.len() == 0, old(rt).validated@.is_none(),
        st_wf(rt_state::<State>(old(rt).state_id@)),
    ensures
        /*C11*/ r.is_ok() ==> final(rt).validated@.is_some() && info_of(rt_state::<State>(old(rt).state_id@)).is_some()
            && may_operate(info_of(rt_state::<State>(old(rt).state_id@))->Some_0, old(rt).msg.caller),
        r.is_ok() ==> final(rt).tx_log@.len() == 1 && ({
            let s0 = rt_state::<State>(old(rt).state_id@);
            let s1 = rt_state::<State>(final(rt).tx_log@[0]);
            let s = final(rt).sends@;
            let repaid = s0.fee_debt@ - s1.fee_debt@;
            let unl = s0.locked_funds@ - s1.locked_funds@;
            let k0: int = if unl != 0 { 1 } else { 0 };
            let k1: int = if repaid > 0 { 1 } else { 0 };
            // C15: as much debt as the unlocked balance allows is repaid, and exactly that is burnt
            &&& 0 <= repaid <= unlocked(s1, old(rt).balance@) && s1.fee_debt@ >= 0
            &&& (s1.fee_debt@ > 0 ==> repaid == unlocked(s1, old(rt).balance@))
            // "never touches collateral"; without debt nothing moves at all
            &&& s1.pre_commit_deposits == s0.pre_commit_deposits && s1.initial_pledge == s0.initial_pledge && unl >= 0
            &&& (s0.fee_debt@ == 0 ==> unl == 0 && repaid == 0)
            // exactly these messages leave the actor, in this order: tell the power actor what left the vesting table, burn what was repaid
            &&& s.len() == k0 + k1
            &&& (unl != 0 ==> pledge_note_of(s[0], -unl))
            &&& (repaid > 0 ==> is_burn(s[k0]) && s[k0].value == repaid && s[k0].ok)
            // C01: the saved state is solvent against the balance left after the burn
            &&& st_solvent(s1, final(rt).balance@) && s1.locked_funds@ >= 0
        }),
        final(rt).tx_log@.len() == 0 ==> final(rt).state_id == old(rt).state_id && final(rt).sends@.len() == 0,
//@ end


// ======================= (3) TerminateSectors =======================
pub type DealWeight = BigInt;
#[derive(Clone, Copy, PartialEq, Eq, Structural)]
pub struct SectorOnChainInfoFlags { pub bits: u32 }
//@ item actors/miner/src/types.rs SectorOnChainInfo
//@ item actors/miner/src/quantize.rs QuantSpec attr="#[derive(Clone, Copy)]"
//@ item actors/miner/src/partition_state.rs PowerPair
//@ include units/shared/power_pair.inc
//@ item actors/miner/src/deadline_state.rs Deadlines
impl CborVal for Deadlines { type Base = Deadlines; open spec fn base(&self) -> Deadlines { *self } }
//@ include prelude/miner_money_term_assumed.rs
//@ const actors/miner/src/monies.rs TERM_FEE_PLEDGE_MULTIPLE_NUM
//@ const actors/miner/src/monies.rs TERM_FEE_PLEDGE_MULTIPLE_DENOM
//@ const actors/miner/src/monies.rs TERM_FEE_MIN_PLEDGE_MULTIPLE_NUM
//@ const actors/miner/src/monies.rs TERM_FEE_MIN_PLEDGE_MULTIPLE_DENOM
//@ const actors/miner/src/monies.rs TERM_FEE_MAX_FAULT_FEE_MULTIPLE_NUM
//@ const actors/miner/src/monies.rs TERM_FEE_MAX_FAULT_FEE_MULTIPLE_DENOM
//@ const actors/miner/src/monies.rs TERMINATION_LIFETIME_CAP

// ---------------- process_early_terminations: contract text of units/C15/miner_early_term.vx.rs, re-proved here on the real body, plus the `more` flag ----------------
/// "a termination fee of at least 2% of its pledge"
pub open spec fn two_pct(p: int) -> int { floor_div(p * 2, 100) }
//@ fn actors/miner/src/monies.rs pledge_penalty_for_termination
    ensures r@ >= two_pct(initial_pledge@),
//@ end
pub open spec fn fee_lb(ss: Seq<SectorOnChainInfo>) -> int decreases ss.len() { if ss.len() == 0 { 0 } else { fee_lb(ss.drop_last()) + two_pct(ss.last().initial_pledge@) } }
pub open spec fn pledge_of(ss: Seq<SectorOnChainInfo>) -> int decreases ss.len() { if ss.len() == 0 { 0 } else { pledge_of(ss.drop_last()) + ss.last().initial_pledge@ } }
pub open spec fn fee_lb_pairs(root: Cid, ps: Seq<(ChainEpoch, BitField)>) -> int decreases ps.len() { if ps.len() == 0 { 0 } else { fee_lb_pairs(root, ps.drop_last()) + fee_lb(sectors_named(root, ps.last().1)) } }
pub open spec fn pledge_pairs(root: Cid, ps: Seq<(ChainEpoch, BitField)>) -> int decreases ps.len() { if ps.len() == 0 { 0 } else { pledge_pairs(root, ps.drop_last()) + pledge_of(sectors_named(root, ps.last().1)) } }

//@ fn actors/miner/src/lib.rs process_early_terminations closure=0 as=pet_tx0 params="state: &mut State, rt: &mut Rt, reward_smoothed: &FilterEstimate, quality_adj_power_smoothed: &FilterEstimate, terminated_sector_nums: &mut Vec<SectorNumber>, sectors_with_data: &mut Vec<SectorNumber>" retty="Result<(TerminationResult, bool, TokenAmount, TokenAmount), ActorError>" ret=res derefs=terminated_sector_nums,sectors_with_data sub0="result . iter ()=>result.vx_pairs()" suball0="info !=>info !"
    requires st_wf(*old(state)),
    ensures
        *final(rt) == *old(rt),
        res.is_ok() ==> ({
            let s0 = *old(state);
            let s1 = *final(state);
            let (result, more, penalty, pledge_delta) = res->Ok_0;
            let ps = result.pairs@;
            let charged = s1.fee_debt@ + penalty@ - s0.fee_debt@;
            &&& ps == pet_pop_pairs(s0, rt_policy().addressed_partitions_max, rt_policy().addressed_sectors_max)
            // the `more` flag: early terminations remain queued in the state that is saved
            &&& more == !(s1.early_terminations@ =~= vstd::set::Set::<u64>::empty())
            // only the two queues and the money totals move
            &&& s1 == (State { early_terminations: s1.early_terminations, deadlines: s1.deadlines, fee_debt: s1.fee_debt, initial_pledge: s1.initial_pledge,
                    locked_funds: s1.locked_funds, vesting_funds: s1.vesting_funds, ..s0 })
            &&& (result.sectors_processed == 0 ==> penalty@ == 0 && pledge_delta@ == 0 && s1.fee_debt == s0.fee_debt && s1.initial_pledge == s0.initial_pledge && s1.locked_funds == s0.locked_funds)
            &&& (result.sectors_processed != 0 ==> {
                &&& charged >= fee_lb_pairs(s0.sectors, ps)
                &&& s1.initial_pledge@ == s0.initial_pledge@ - pledge_pairs(s0.sectors, ps)
                &&& penalty@ >= 0 && penalty@ <= unlocked(s1, old(rt).balance@) && s1.fee_debt@ >= 0
                &&& pledge_delta@ == (s1.locked_funds@ + s1.initial_pledge@) - (s0.locked_funds@ + s0.initial_pledge@)
                &&& st_wf(s1)
            })
        }),
//@ before "apply_penalty (& total_penalty)"
        proof { assert(result.pairs@.subrange(0, result.pairs@.len() as int) =~= result.pairs@); assert(state.sectors == old(state).sectors); }
//@ loopstart 0
            let ghost tp0 = total_penalty@;
            let ghost ti0 = total_initial_pledge@;
            let ghost i0 = it0.index@ as int;
//@ loopend 0
            proof {
                let ps = result.pairs@;
                assert(sectors@.subrange(0, sectors@.len() as int) =~= sectors@);
                assert(ps.subrange(0, i0 + 1).drop_last() =~= ps.subrange(0, i0));
                assert(ps.subrange(0, i0 + 1).last() == ps[i0]);
                assert(sectors@ == sectors_named(state.sectors, ps[i0].1));
            }
//@ loopend 1
                proof {
                    let j = it1.index@ as int;
                    assert(sectors@.subrange(0, j + 1).drop_last() =~= sectors@.subrange(0, j));
                    assert(sectors@.subrange(0, j + 1).last() == sectors@[j]);
                }
//@ loop 0 iter=it0
            invariant
                *rt == *old(rt), it0.index@ <= it0.seq().len(), it0.seq().len() == result.pairs@.len(),
                forall|i: int| 0 <= i < it0.seq().len() ==> (#[trigger] it0.seq()[i]).0 == result.pairs@[i].0 && *it0.seq()[i].1 == result.pairs@[i].1,
                sectors.root() == state.sectors,
                total_penalty@ >= fee_lb_pairs(state.sectors, result.pairs@.subrange(0, it0.index@ as int)),
                total_initial_pledge@ == pledge_pairs(state.sectors, result.pairs@.subrange(0, it0.index@ as int)),
                total_initial_pledge@ >= 0,
                forall|i: int| 0 <= i < result.pairs@.len() ==> -0x2000_0000_0000_0000 < (#[trigger] result.pairs@[i]).0 < 0x2000_0000_0000_0000,
//@ loop 1 iter=it1
                invariant
                    *rt == *old(rt), it1.index@ <= it1.seq().len(), it1.seq().len() == sectors@.len(),
                    forall|i: int| 0 <= i < it1.seq().len() ==> *(#[trigger] it1.seq()[i]) == sectors@[i],
                    forall|i: int| 0 <= i < sectors@.len() ==> (#[trigger] sectors@[i]).initial_pledge@ >= 0 && -0x2000_0000_0000_0000 < sectors@[i].activation < 0x2000_0000_0000_0000,
                    -0x2000_0000_0000_0000 < epoch < 0x2000_0000_0000_0000,
                    total_penalty@ >= tp0 + fee_lb(sectors@.subrange(0, it1.index@ as int)),
                    total_initial_pledge@ == ti0 + pledge_of(sectors@.subrange(0, it1.index@ as int)),
                    total_initial_pledge@ >= 0, ti0 >= 0,
//@ end

/// what neither a send nor a transaction changes
pub open spec fn rt_frame_tx(o: &Rt, f: &Rt) -> bool {
    &&& f.msg == o.msg && f.caller_type == o.caller_type && f.caller_namespace == o.caller_namespace
    &&& f.epoch == o.epoch && f.read_only == o.read_only && f.validated == o.validated && f.in_tx == o.in_tx && f.deleted == o.deleted
}
pub open spec fn is_market_terminate(s: SendRec) -> bool { s.to == STORAGE_MARKET_ACTOR_ADDR && s.method == ext::market::ON_MINER_SECTORS_TERMINATE_METHOD && s.value == 0 }
/// the messages process_early_terminations may send: burn the penalty, tell the power actor the pledge change, tell the market
pub open spec fn pet_send(s: SendRec) -> bool { is_burn(s) || (is_pledge_note(s) && s.value == 0) || is_market_terminate(s) }

//@ fn actors/miner/src/lib.rs process_early_terminations tx0="State;pet_tx0;&mut __vx_st, rt, reward_smoothed, quality_adj_power_smoothed, &mut terminated_sector_nums, &mut sectors_with_data" suball0="info !=>info !" sub0="log :: debug !=>log_debug !"
    requires
        !old(rt).in_tx@, st_wf(rt_state::<State>(old(rt).state_id@)), old(rt).epoch >= 0,
    ensures
        // of the activation only the send log, the transaction log, the state, the balance and the event count move
        rt_frame_tx(old(rt), final(rt)),
        r.is_ok() ==> final(rt).tx_log@.len() == old(rt).tx_log@.len() + 1 && final(rt).tx_log@ =~= old(rt).tx_log@.push(final(rt).tx_log@.last())
            && final(rt).sends@.len() >= old(rt).sends@.len() && ({
            let s0 = rt_state::<State>(old(rt).state_id@);
            let s1 = rt_state::<State>(final(rt).tx_log@.last());
            let ps = pet_pop_pairs(s0, rt_policy().addressed_partitions_max, rt_policy().addressed_sectors_max);
            let n0 = old(rt).sends@.len() as int;
            let s = final(rt).sends@;
            let burnt = if s.len() > n0 && is_burn(s[n0]) && s[n0].ok { s[n0].value } else { 0 };
            let delta = (s1.locked_funds@ + s1.initial_pledge@) - (s0.locked_funds@ + s0.initial_pledge@);
            &&& (forall|i: int| 0 <= i < n0 ==> s[i] == old(rt).sends@[i])
            // every message it sends is a burn, a pledge notification or the market's termination notice
            &&& (forall|i: int| n0 <= i < s.len() ==> pet_send(#[trigger] s[i]))
            // the returned flag: early terminations remain queued in the saved state
            &&& r->Ok_0 == !(s1.early_terminations@ =~= vstd::set::Set::<u64>::empty())
            &&& s1 == (State { early_terminations: s1.early_terminations, deadlines: s1.deadlines, fee_debt: s1.fee_debt, initial_pledge: s1.initial_pledge,
                    locked_funds: s1.locked_funds, vesting_funds: s1.vesting_funds, ..s0 })
            // C15: what is charged for the batch — burnt in this call or kept as fee debt — is at least the sum of the minimum termination
            //      fees (2% of pledge) of all sectors terminated in it, and each such sector's pledge is released
            &&& (s1.fee_debt@ + burnt - s0.fee_debt@ >= fee_lb_pairs(s0.sectors, ps) || s1.fee_debt == s0.fee_debt && s1.initial_pledge == s0.initial_pledge)
            &&& (s1.initial_pledge@ == s0.initial_pledge@ - pledge_pairs(s0.sectors, ps) || s1.initial_pledge == s0.initial_pledge)
            // C03: the power actor is told the change of vesting funds + initial pledge
            &&& (delta != 0 ==> exists|k: int| n0 <= k < s.len() && pledge_note_of(#[trigger] s[k], delta))
        }),
//@ loop 0 iter=it
        invariant
            !rt.in_tx@, rt.sends@ == sends_fin, rt.tx_log@ == log_fin, rt.state_id@ == id_fin, rt.epoch == old(rt).epoch, rt.msg == old(rt).msg,
            rt_frame_tx(old(rt), rt),
//@ before "for sector in"
        let ghost sends_fin = rt.sends@;
        let ghost log_fin = rt.tx_log@;
        let ghost id_fin = rt.state_id@;
//@ end

// ---------------- the TerminateSectors transaction closure ----------------
//@ item actors/miner/src/types.rs TerminationDeclaration
//@ item actors/miner/src/types.rs TerminateSectorsParams
//@ item actors/miner/src/types.rs TerminateSectorsReturn
//@ item actors/miner/src/types.rs CronEventPayload
pub type CronEvent = i64;
//@ const actors/miner/src/types.rs CRON_EVENT_PROCESS_EARLY_TERMINATIONS
//@ item actors/miner/src/ext.rs CurrentTotalPowerReturn
//@ const actors/miner/src/ext.rs CURRENT_TOTAL_POWER_METHOD
pub open spec fn deadlines_of(s: State) -> Option<Deadlines> { cbor_decode::<Deadlines>(s.deadlines) }
//@ fn actors/miner/src/state.rs State::load_deadlines
    ensures r.is_ok() ==> deadlines_of(*self) == Some(r->Ok_0),
//@ end
//@ fn actors/miner/src/state.rs State::save_deadlines
    ensures
        *final(self) == (State { deadlines: final(self).deadlines, ..*old(self) }),
        r.is_ok() ==> deadlines_of(*final(self)) == Some(deadlines),
//@ end
//@ fn actors/miner/src/lib.rs have_pending_early_terminations
    ensures r == !(state.early_terminations@ =~= vstd::set::Set::<u64>::empty()),
//@ end

pub type DeclMap = Map<u64, Map<u64, Set<u64>>>;
/// the terminations of a message, merged per deadline and partition (DeadlineSectorMap::add)
pub open spec fn term_decls(f: Seq<TerminationDeclaration>, n: int) -> DeclMap decreases n {
    if n <= 0 { Map::<u64, Map<u64, Set<u64>>>::empty() } else { dsm_add(term_decls(f, n - 1), f[n - 1].deadline, f[n - 1].partition, f[n - 1].sectors@) }
}
/// the deadlines table after the first n declared deadlines (in key order) went through load_deadline / Deadline::terminate_sectors / update_deadline
pub open spec fn ts_dls(s0: State, ssize: SectorSize, epoch: ChainEpoch, dl0: Deadlines, keys: Seq<u64>, m: DeclMap, n: int) -> Deadlines decreases n {
    if n <= 0 { dl0 } else {
        let ds = ts_dls(s0, ssize, epoch, dl0, keys, m, n - 1);
        let k = keys[n - 1];
        dls_update(ds, rt_policy(), k, dlx_ts_deadline(dls_load(ds, k), rt_policy(), s0.sectors, epoch, m[k], ssize, st_quant_for(rt_policy(), s0.proving_period_start, k)))
    }
}
/// the power Deadline::terminate_sectors reported as removed for the n-th declared deadline (n >= 1)
pub open spec fn ts_removed_at(s0: State, ssize: SectorSize, epoch: ChainEpoch, dl0: Deadlines, keys: Seq<u64>, m: DeclMap, n: int) -> PowerPair {
    let ds = ts_dls(s0, ssize, epoch, dl0, keys, m, n - 1);
    let k = keys[n - 1];
    dlx_ts_removed(dls_load(ds, k), rt_policy(), s0.sectors, epoch, m[k], ssize, st_quant_for(rt_policy(), s0.proving_period_start, k))
}
/// the power delta of the call: MINUS the sum of what was reported as removed
pub open spec fn ts_raw(s0: State, ssize: SectorSize, epoch: ChainEpoch, dl0: Deadlines, keys: Seq<u64>, m: DeclMap, n: int) -> int decreases n {
    if n <= 0 { 0 } else { ts_raw(s0, ssize, epoch, dl0, keys, m, n - 1) - ts_removed_at(s0, ssize, epoch, dl0, keys, m, n).raw@ }
}
pub open spec fn ts_qa(s0: State, ssize: SectorSize, epoch: ChainEpoch, dl0: Deadlines, keys: Seq<u64>, m: DeclMap, n: int) -> int decreases n {
    if n <= 0 { 0 } else { ts_qa(s0, ssize, epoch, dl0, keys, m, n - 1) - ts_removed_at(s0, ssize, epoch, dl0, keys, m, n).qa@ }
}
/// what the TerminateSectors transaction did to the miner state (contract of units/C03/miner_onboard.vx.rs `ts_tx0`, plus the deadlines table)
pub open spec fn ts_applied(s0: State, s1: State, caller: Address, epoch: ChainEpoch, m: DeclMap) -> bool {
    let keys = dsm_keys(m);
    &&& info_of(s0).is_some() && may_operate(info_of(s0)->Some_0, caller)
    // no money total and no table moves: the terminated sectors' pledge stays in initial_pledge, their infos stay in the sector table ...
    &&& s1 == (State { early_terminations: s1.early_terminations, deadlines: s1.deadlines, ..s0 })
    // ... deadlines are only ever ADDED to the set awaiting early-termination processing, and every declared deadline IS flagged
    &&& s0.early_terminations@.subset_of(s1.early_terminations@)
    &&& (forall|k: u64| #![trigger m.dom().contains(k)] m.dom().contains(k) ==> s1.early_terminations@.contains(k))
    // the deadlines table is what the deadline-level operations produced, declared deadline by declared deadline
    &&& deadlines_of(s0).is_some()
    &&& deadlines_of(s1) == Some(ts_dls(s0, info_of(s0)->Some_0.sector_size, epoch, deadlines_of(s0)->Some_0, keys, m, keys.len() as int))
}

//@ fn actors/miner/src/lib.rs Actor::terminate_sectors closure=0 as=ts_tx0 params="state: &mut State, rt: &mut Rt, to_process: &mut DeadlineSectorMap" retty="Result<(bool, PowerPair), ActorError>" ret=res sub0="info . control_addresses . iter () . chain (& [info . worker , info . owner])=>&vx_control_worker_owner(&info)"
    requires old(rt).validated@.is_none(),
    ensures
        *final(rt) == (Rt { validated: final(rt).validated, ..*old(rt) }),
        final(to_process).view() == old(to_process).view(),
        /*C11*/ res.is_ok() ==> final(rt).validated@.is_some(),
        res.is_ok() ==> ({
            let s0 = *old(state);
            let m = old(to_process).view();
            let keys = dsm_keys(m);
            let ssize = info_of(s0)->Some_0.sector_size;
            let dl0 = deadlines_of(s0)->Some_0;
            &&& ts_applied(s0, *final(state), old(rt).msg.caller, old(rt).epoch, m)
            &&& res->Ok_0.0 == !(s0.early_terminations@ =~= vstd::set::Set::<u64>::empty())
            // C02: the power delta handed back is MINUS the sum of what Deadline::terminate_sectors reported as removed
            &&& res->Ok_0.1.raw@ == ts_raw(s0, ssize, old(rt).epoch, dl0, keys, m, keys.len() as int)
            &&& res->Ok_0.1.qa@ == ts_qa(s0, ssize, old(rt).epoch, dl0, keys, m, keys.len() as int)
        }),
//@ entry
        let ghost s0 = *state;
        let ghost m = to_process.view();
        let ghost keys = dsm_keys(m);
        let ghost epoch = rt.epoch;
//@ loop 0 iter=it
            invariant
                *rt == rt_mid, rt_mid == (Rt { validated: rt_mid.validated, ..*old(rt) }), rt_mid.validated@.is_some(),
                *state == (State { early_terminations: state.early_terminations, ..s0 }), s0 == *old(state),
                s0.early_terminations@.subset_of(state.early_terminations@),
                curr_epoch == epoch, epoch == old(rt).epoch, Some(info) == info_of(s0), sectors.root() == s0.sectors, deadlines_of(s0).is_some(),
                keys == dsm_keys(m),
                it.seq().len() == keys.len(),
                forall|i: int| 0 <= i < keys.len() ==> (#[trigger] it.seq()[i]).0 == keys[i] && it.seq()[i].1.view() == m[keys[i]],
                forall|k: u64| m.dom().contains(k) ==> exists|i: int| 0 <= i < keys.len() && #[trigger] keys[i] == k,
                forall|i: int| 0 <= i < it.index@ ==> state.early_terminations@.contains(#[trigger] keys[i]),
                deadlines == ts_dls(s0, info.sector_size, epoch, deadlines_of(s0)->Some_0, keys, m, it.index@ as int),
                power_delta.raw@ == ts_raw(s0, info.sector_size, epoch, deadlines_of(s0)->Some_0, keys, m, it.index@ as int),
                power_delta.qa@ == ts_qa(s0, info.sector_size, epoch, deadlines_of(s0)->Some_0, keys, m, it.index@ as int),
//@ after "let mut power_delta"
            let ghost rt_mid = *rt;
//@ end

// ---------------- the messages around it (real functions; contracts as in units/C02/miner_post.vx.rs and units/C03/miner_onboard.vx.rs) ----------------
pub open spec fn is_power_update(s: SendRec) -> bool { s.to == STORAGE_POWER_ACTOR_ADDR && s.method == ext::power::UPDATE_CLAIMED_POWER_METHOD }
/// the message is a successful UpdateClaimedPower notification carrying exactly (raw, qa)
pub open spec fn power_update_of(s: SendRec, raw: int, qa: int) -> bool {
    is_power_update(s) && s.ok && s.value == 0
        && exists|p: ext::power::UpdateClaimedPowerParams| s.params == Some(IpldBlock { h: #[trigger] cbor_hash(p) }) && p.raw_byte_delta@ == raw && p.quality_adjusted_delta@ == qa
}
//@ fn actors/miner/src/lib.rs request_update_power
    requires !old(rt).in_tx@,
    ensures
        // the power actor is told exactly this delta (nothing when it is zero); the call fails iff the power actor refuses
        delta.raw@ == 0 && delta.qa@ == 0 ==> r.is_ok() && *final(rt) == *old(rt),
        !(delta.raw@ == 0 && delta.qa@ == 0) ==> rt_frame(old(rt), final(rt)) && final(rt).sends@.len() <= old(rt).sends@.len() + 1
            && (forall|i: int| 0 <= i < old(rt).sends@.len() ==> final(rt).sends@[i] == old(rt).sends@[i]),
        !(delta.raw@ == 0 && delta.qa@ == 0) && r.is_ok() ==> rt_pushed(old(rt), final(rt)) && power_update_of(final(rt).sends@.last(), delta.raw@, delta.qa@),
        // when the power actor does not call back (explicit assumption of the caller) state and balance are as before
        r.is_ok() && rt_no_reentry(STORAGE_POWER_ACTOR_ADDR, ext::power::UPDATE_CLAIMED_POWER_METHOD) ==> final(rt).state_id == old(rt).state_id && final(rt).balance == old(rt).balance,
//@ end
pub open spec fn is_total_power_query(s: SendRec) -> bool { s.to == STORAGE_POWER_ACTOR_ADDR && s.method == CURRENT_TOTAL_POWER_METHOD && s.value == 0 }
//@ fn actors/miner/src/lib.rs request_current_total_power sigsub1="ext :: power :: CurrentTotalPowerReturn=>CurrentTotalPowerReturn" sub1="ext :: power :: CURRENT_TOTAL_POWER_METHOD=>CURRENT_TOTAL_POWER_METHOD"
    requires !old(rt).in_tx@,
    ensures
        rt_pushed(old(rt), final(rt)), rt_frame(old(rt), final(rt)), is_total_power_query(final(rt).sends@.last()),
        r.is_ok() ==> final(rt).sends@.last().ok && r->Ok_0 == deser_spec::<CurrentTotalPowerReturn>(final(rt).sends@.last().ret),
        rt_no_reentry(STORAGE_POWER_ACTOR_ADDR, CURRENT_TOTAL_POWER_METHOD) ==> final(rt).state_id == old(rt).state_id && final(rt).balance == old(rt).balance,
//@ end
pub open spec fn is_cron_enrol(s: SendRec) -> bool { s.to == STORAGE_POWER_ACTOR_ADDR && s.method == ext::power::ENROLL_CRON_EVENT_METHOD }
/// the message enrols a cron callback of kind `event_type` for `event_epoch`
pub open spec fn cron_enrol_of(s: SendRec, event_epoch: ChainEpoch, event_type: i64) -> bool {
    is_cron_enrol(s) && s.ok && s.value == 0
        && exists|p: ext::power::EnrollCronEventParams, cb: CronEventPayload| s.params == Some(IpldBlock { h: #[trigger] cbor_hash(p) }) && p.event_epoch == event_epoch
            && p.payload.h == #[trigger] cbor_hash(cb) && cb.event_type == event_type
}
//@ fn actors/miner/src/lib.rs enroll_cron_event
    requires !old(rt).in_tx@,
    ensures
        rt_frame(old(rt), final(rt)), old(rt).sends@.len() <= final(rt).sends@.len() <= old(rt).sends@.len() + 1,
        forall|i: int| 0 <= i < old(rt).sends@.len() ==> final(rt).sends@[i] == old(rt).sends@[i],
        r.is_ok() ==> rt_pushed(old(rt), final(rt)) && cron_enrol_of(final(rt).sends@.last(), event_epoch, cb.event_type),
//@ end
//@ fn actors/miner/src/lib.rs schedule_early_termination_work suball0="info !=>info !"
    requires !old(rt).in_tx@, old(rt).epoch < i64::MAX,
    ensures
        rt_frame(old(rt), final(rt)), old(rt).sends@.len() <= final(rt).sends@.len() <= old(rt).sends@.len() + 1,
        forall|i: int| 0 <= i < old(rt).sends@.len() ==> final(rt).sends@[i] == old(rt).sends@[i],
        // "early-termination work is scheduled": a cron callback of kind ProcessEarlyTerminations for the NEXT epoch
        r.is_ok() ==> rt_pushed(old(rt), final(rt)) && cron_enrol_of(final(rt).sends@.last(), (old(rt).epoch + 1) as ChainEpoch, CRON_EVENT_PROCESS_EARLY_TERMINATIONS),
//@ end

// ---------------- TerminateSectors: the whole method ----------------
// NB (tool limit, as in units/C02/miner_post.vx.rs declare_faults): Verus' parser rejects a loop with an `invariant` clause whose body is
// immediately followed by a bare block statement; the `loopend 0` text `} ; {` closes the loop body early and opens an EMPTY block in its
// place: the generated text is `for .. { body } ; { } { let policy = .. }` — one empty statement and one empty block more than the source.
//@ fn actors/miner/src/lib.rs Actor::terminate_sectors free tx0="State;ts_tx0;&mut __vx_st, rt, &mut to_process"
    requires
        !old(rt).in_tx@, old(rt).tx_log@.len() == 0, old(rt).sends@.len() == 0, old(rt).validated@.is_none(),
        st_wf(rt_state::<State>(old(rt).state_id@)), 0 <= old(rt).epoch < i64::MAX,
        // explicit assumption: the two read-only queries (ThisEpochReward, CurrentTotalPower) do not call back into this miner
        rt_no_reentry(REWARD_ACTOR_ADDR, ext::reward::THIS_EPOCH_REWARD_METHOD), rt_no_reentry(STORAGE_POWER_ACTOR_ADDR, CURRENT_TOTAL_POWER_METHOD),
    ensures
        /*C11*/ r.is_ok() ==> final(rt).validated@.is_some(),
        // two transactions: the termination itself, then process_early_terminations on the state it saved
        r.is_ok() ==> final(rt).tx_log@.len() == 2 && final(rt).sends@.len() >= 2 && ({
            let s0 = rt_state::<State>(old(rt).state_id@);
            let s1 = rt_state::<State>(final(rt).tx_log@[0]);
            let s2 = rt_state::<State>(final(rt).tx_log@[1]);
            let m = term_decls(params.terminations@, params.terminations@.len() as int);
            let keys = dsm_keys(m);
            let ssize = info_of(s0)->Some_0.sector_size;
            let raw = ts_raw(s0, ssize, old(rt).epoch, deadlines_of(s0)->Some_0, keys, m, keys.len() as int);
            let qa = ts_qa(s0, ssize, old(rt).epoch, deadlines_of(s0)->Some_0, keys, m, keys.len() as int);
            let nz = !(raw == 0 && qa == 0);
            let kz: int = if nz { 1 } else { 0 };
            // "more remains": early terminations are still queued in the state process_early_terminations saved
            let more = !(s2.early_terminations@ =~= vstd::set::Set::<u64>::empty());
            let sched = more && s0.early_terminations@ =~= vstd::set::Set::<u64>::empty();
            let ps = pet_pop_pairs(s1, rt_policy().addressed_partitions_max, rt_policy().addressed_sectors_max);
            let s = final(rt).sends@;
            let burnt = if s.len() > 2 && is_burn(s[2]) && s[2].ok { s[2].value } else { 0 };
            let delta = (s2.locked_funds@ + s2.initial_pledge@) - (s0.locked_funds@ + s0.initial_pledge@);
            // only owner / worker / control; the closure flags the declared deadlines and moves no ledger
            &&& ts_applied(s0, s1, old(rt).msg.caller, old(rt).epoch, m)
            // then process_early_terminations runs on THAT state; only the two queues and the money totals move
            &&& s2 == (State { early_terminations: s2.early_terminations, deadlines: s2.deadlines, fee_debt: s2.fee_debt, initial_pledge: s2.initial_pledge,
                    locked_funds: s2.locked_funds, vesting_funds: s2.vesting_funds, ..s1 })
            // C15 (as reported by process_early_terminations): the batch is charged at least its minimum termination fees — burnt now or kept as debt
            &&& (s2.fee_debt@ + burnt - s0.fee_debt@ >= fee_lb_pairs(s0.sectors, ps) || s2.fee_debt == s0.fee_debt && s2.initial_pledge == s0.initial_pledge)
            &&& (s2.initial_pledge@ == s0.initial_pledge@ - pledge_pairs(s0.sectors, ps) || s2.initial_pledge == s0.initial_pledge)
            // the returned flag: done iff nothing remains
            &&& r->Ok_0.done == !more
            // messages: [query reward][query power][what process_early_terminations sends ...][enrol cron?][update claimed power?]
            &&& s[0].to == REWARD_ACTOR_ADDR && s[0].value == 0 && is_total_power_query(s[1])
            // C03: the pledge notification is exactly the change of vesting funds + initial pledge over the whole call
            &&& (delta != 0 ==> exists|k: int| 2 <= k < s.len() && pledge_note_of(#[trigger] s[k], delta))
            // early-termination work is scheduled iff more remains and none was pending before (a callback is already enrolled then)
            &&& (sched ==> exists|k: int| 2 <= k < s.len() - kz && cron_enrol_of(#[trigger] s[k], (old(rt).epoch + 1) as ChainEpoch, CRON_EVENT_PROCESS_EARLY_TERMINATIONS))
            &&& (!sched ==> forall|k: int| 0 <= k < s.len() ==> !is_cron_enrol(#[trigger] s[k]))
            // C02: the power actor is told EXACTLY the power the deadlines reported as removed — once, as the last message, and nothing when it is zero
            &&& (nz ==> power_update_of(s.last(), raw, qa))
            &&& (forall|k: int| 0 <= k < s.len() - kz ==> !is_power_update(#[trigger] s[k]))
            // value leaves the miner only to the burnt-funds actor
            &&& (forall|k: int| 0 <= k < s.len() && (#[trigger] s[k]).value != 0 ==> is_burn(s[k]))
            // C01: "check_balance_invariants": the state and balance found after the last value-moving message are solvent (they are still the
            //      ones at the end when no power message follows or the power actor does not call back)
            &&& (!nz || rt_no_reentry(STORAGE_POWER_ACTOR_ADDR, ext::power::UPDATE_CLAIMED_POWER_METHOD) ==> ({
                    let sf = rt_state::<State>(final(rt).state_id@);
                    st_solvent(sf, final(rt).balance@) && sf.pre_commit_deposits@ >= 0 && sf.locked_funds@ >= 0 && sf.initial_pledge@ >= 0 && sf.fee_debt@ >= 0 }))
        }),
//@ entry
        let ghost terms0 = params.terminations@;
//@ loop 0 iter=it
            invariant
                *rt == *old(rt), it.seq() == terms0,
                to_process.view() == term_decls(terms0, it.index@ as int),
//@ loopend 0
        } ; {
//@ end

// ======================= (4) control methods: whole methods around the closures of units/C13/miner_control.vx.rs =======================
/// frame: every MinerInfo field that a handover step may NOT touch
pub open spec fn info_static_eq(a: MinerInfo, b: MinerInfo) -> bool {
    &&& a.peer_id == b.peer_id && a.multi_address == b.multi_address
    &&& a.window_post_proof_type == b.window_post_proof_type && a.sector_size == b.sector_size
    &&& a.window_post_partition_sectors == b.window_post_partition_sectors
    &&& a.consensus_fault_elapsed == b.consensus_fault_elapsed
}
/// funds and sector bookkeeping of the miner are untouched by control changes
pub open spec fn st_funds_eq(a: State, b: State) -> bool {
    &&& a.pre_commit_deposits == b.pre_commit_deposits && a.locked_funds == b.locked_funds
    &&& a.vesting_funds == b.vesting_funds && a.fee_debt == b.fee_debt && a.initial_pledge == b.initial_pledge
    &&& st_rest_eq_but_info(a, b)
}
/// who controls the miner and its income: untouched
pub open spec fn info_control_eq(a: MinerInfo, b: MinerInfo) -> bool {
    &&& a.owner == b.owner && a.worker == b.worker && a.control_addresses == b.control_addresses && a.pending_worker_key == b.pending_worker_key
    &&& a.pending_owner_address == b.pending_owner_address && a.beneficiary == b.beneficiary && a.beneficiary_term == b.beneficiary_term
    &&& a.pending_beneficiary_term == b.pending_beneficiary_term
}

// ---------------- ChangeWorkerAddress ----------------
//@ item actors/miner/src/types.rs ChangeWorkerAddressParams
//@ const actors/miner/src/ext.rs PUBKEY_ADDRESS_METHOD
//@ fn actors/miner/src/lib.rs check_control_addresses
    ensures r.is_ok() <==> control_addrs@.len() <= policy.max_control_addresses,
//@ end
/// "the new worker must be an account-type key address": resolves, its code is the built-in account actor, and its key is a BLS key —
/// either the address given is itself a BLS address, or the account answered PubkeyAddress with one
pub open spec fn worker_ok(raw: Address, id: ActorID, n: nat) -> bool {
    &&& rt_resolve(raw, n) == Some(id)
    &&& rt_code_of(id).is_some() && rt_builtin_type(rt_code_of(id)->Some_0) == Some(Type::Account)
}
pub open spec fn is_pubkey_query(s: SendRec, id: ActorID) -> bool { s.to == (Address { id, proto: 0 }) && s.method == PUBKEY_ADDRESS_METHOD && s.value == 0 }
//@ fn actors/miner/src/lib.rs resolve_worker_address sub0="ext :: account :: PUBKEY_ADDRESS_METHOD=>PUBKEY_ADDRESS_METHOD"
    requires !old(rt).in_tx@,
    ensures
        rt_frame(old(rt), final(rt)), old(rt).sends@.len() <= final(rt).sends@.len() <= old(rt).sends@.len() + 1,
        forall|i: int| 0 <= i < old(rt).sends@.len() ==> final(rt).sends@[i] == old(rt).sends@[i],
        // a BLS address needs no query: nothing is sent
        addr_protocol(raw) == Protocol::BLS ==> *final(rt) == *old(rt),
        r.is_ok() ==> worker_ok(raw, r->Ok_0, old(rt).sends@.len()),
        // otherwise the account itself is asked for its key address (one zero-value message), and that key must be a BLS key
        r.is_ok() && addr_protocol(raw) != Protocol::BLS ==> rt_pushed(old(rt), final(rt)) && is_pubkey_query(final(rt).sends@.last(), r->Ok_0) && final(rt).sends@.last().ok
            && deser_ok::<Address>(final(rt).sends@.last().ret) && addr_protocol(deser_spec::<Address>(final(rt).sends@.last().ret)) == Protocol::BLS,
        // the query does not move this actor's state (explicit assumption of the caller: the account's PubkeyAddress does not call back)
        rt_no_reentry_any(PUBKEY_ADDRESS_METHOD) ==> final(rt).state_id == old(rt).state_id && final(rt).balance == old(rt).balance,
//@ end
/// "PubkeyAddress of an account actor does not call back": an explicit assumption a caller may make, for whatever account is asked
pub open spec fn rt_no_reentry_any(method: MethodNum) -> bool { forall|a: Address| #[trigger] rt_no_reentry(a, method) }

/// what the ChangeWorkerAddress transaction does to the miner info (contract of units/C13/miner_control.vx.rs `change_worker_tx0`)
pub open spec fn worker_change_recorded(i0: MinerInfo, i1: MinerInfo, caller: Address, epoch: ChainEpoch, new_worker: Address, control_addresses: Vec<Address>) -> bool {
    // only the owner; the worker itself does NOT change here, a request is only recorded with the delay, and a pending key is never overwritten
    &&& caller == i0.owner
    &&& i1.worker == i0.worker
    &&& (i0.pending_worker_key.is_some() ==> i1.pending_worker_key == i0.pending_worker_key)
    &&& (i0.pending_worker_key.is_none() && new_worker != i0.worker ==> i1.pending_worker_key.is_some()
            && i1.pending_worker_key->Some_0.new_worker == new_worker
            && i1.pending_worker_key->Some_0.effective_at == epoch + rt_policy().worker_key_change_delay)
    &&& (i0.pending_worker_key.is_none() && new_worker == i0.worker ==> i1.pending_worker_key.is_none())
    &&& i1.control_addresses == control_addresses
    &&& i1.owner == i0.owner && i1.beneficiary == i0.beneficiary && i1.pending_owner_address == i0.pending_owner_address
    &&& i1.beneficiary_term == i0.beneficiary_term && i1.pending_beneficiary_term == i0.pending_beneficiary_term
    &&& info_static_eq(i0, i1)
}
//@ fn actors/miner/src/lib.rs Actor::change_worker_address closure=0 as=change_worker_tx0 params="state: &mut State, rt: &mut Rt, new_worker: Address, control_addresses: Vec<Address>" retty="Result<(), ActorError>"
    requires
        old(rt).validated@.is_none(),
        0 <= old(rt).epoch, 0 <= rt_policy().worker_key_change_delay, old(rt).epoch + rt_policy().worker_key_change_delay <= i64::MAX,
    ensures
        st_funds_eq(*old(state), *final(state)),
        *final(rt) == (Rt { validated: final(rt).validated, ..*old(rt) }),
        /*C11*/ r.is_ok() ==> final(rt).validated@.is_some() && old(rt).msg.caller == info_of(*old(state))->Some_0.owner,
        r.is_ok() ==> info_of(*old(state)).is_some() && info_of(*final(state)).is_some()
            && worker_change_recorded(info_of(*old(state))->Some_0, info_of(*final(state))->Some_0, old(rt).msg.caller, old(rt).epoch, new_worker, control_addresses),
        r.is_err() ==> *final(state) == *old(state),
//@ end

// NB (tool limit): the control-address chain `params.new_control_addresses.into_iter().map(|address| rt.resolve_address(&address).ok_or_else(..))
// .map(|id_result| id_result.map(Address::new_id)).collect::<Result<_, _>>()` cannot be named by ONE substitution pattern (a vx pattern must be a
// balanced token stream and cannot contain the string literal of the error message). sub2 replaces its head by the call of the prelude helper
// (whose body IS the expression) and opens a comment, sub3 closes the comment after `.collect::<Result<_, _>>()`: the original text stays in the
// generated file, inside the comment. sub0 / sub1 are IDENTITY substitutions: vx exits 2 (UNDECIDED) unless `rt.resolve_address(&address).ok_or_else`
// and the `new_id` mapping each occur exactly once — a change of the rest of the commented text (the closure braces, the error code) is NOT noticed.
//@ fn actors/miner/src/lib.rs Actor::change_worker_address free tx0="State;change_worker_tx0;&mut __vx_st, rt, new_worker, control_addresses" sub0="rt . resolve_address (& address) . ok_or_else=>rt . resolve_address (& address) . ok_or_else" sub1=". map (| id_result | id_result . map (Address :: new_id))=>. map (| id_result | id_result . map (Address :: new_id))" sub2="params . new_control_addresses . into_iter () . map=>vx_resolve_control_addrs (rt , params . new_control_addresses) /* params . new_control_addresses . into_iter () . map" sub3=". collect :: < Result < _ , _ > > ()=>. collect :: < Result < _ , _ > > () */"
    requires
        !old(rt).in_tx@, old(rt).sends@.len() == 0, old(rt).tx_log@.len() == 0, old(rt).validated@.is_none(),
        0 <= old(rt).epoch, 0 <= rt_policy().worker_key_change_delay, old(rt).epoch + rt_policy().worker_key_change_delay <= i64::MAX,
        // explicit assumption: an account actor's PubkeyAddress does not call back into this miner
        rt_no_reentry_any(PUBKEY_ADDRESS_METHOD),
    ensures
        /*C11*/ r.is_ok() ==> final(rt).validated@.is_some() && info_of(rt_state::<State>(old(rt).state_id@)).is_some()
            && old(rt).msg.caller == info_of(rt_state::<State>(old(rt).state_id@))->Some_0.owner,
        r.is_ok() ==> final(rt).tx_log@.len() == 1 && ({
            let s0 = rt_state::<State>(old(rt).state_id@);
            let s1 = rt_state::<State>(final(rt).tx_log@[0]);
            let s = final(rt).sends@;
            let n = s.len();
            let raw = params.new_control_addresses@;
            &&& info_of(s0).is_some() && info_of(s1).is_some() && st_funds_eq(s0, s1)
            // "at most max_control_addresses"
            &&& raw.len() <= rt_policy().max_control_addresses
            // "the new worker must be an account-type key address", resolved to its ID address
            &&& rt_resolve(params.new_worker, 0).is_some() && worker_ok(params.new_worker, rt_resolve(params.new_worker, 0)->Some_0, 0)
            &&& (addr_protocol(params.new_worker) == Protocol::BLS ==> n == 0)
            &&& (addr_protocol(params.new_worker) != Protocol::BLS ==> n == 1 && is_pubkey_query(s[0], rt_resolve(params.new_worker, 0)->Some_0) && s[0].ok
                    && addr_protocol(deser_spec::<Address>(s[0].ret)) == Protocol::BLS)
            // every control address is resolved to an ID address; the list recorded is exactly the resolved list, in order (it REPLACES the old one)
            &&& info_of(s1)->Some_0.control_addresses@.len() == raw.len()
            &&& (forall|i: int| 0 <= i < raw.len() ==> (#[trigger] rt_resolve(raw[i], n)).is_some()
                    && info_of(s1)->Some_0.control_addresses@[i] == (Address { id: rt_resolve(raw[i], n)->Some_0, proto: 0 }))
            // the request is recorded as the closure says, for the RESOLVED worker address
            &&& exists|ca: Vec<Address>| #[trigger] worker_change_recorded(info_of(s0)->Some_0, info_of(s1)->Some_0, old(rt).msg.caller, old(rt).epoch,
                    Address { id: rt_resolve(params.new_worker, 0)->Some_0, proto: 0 }, ca)
        }),
        final(rt).tx_log@.len() == 0 ==> final(rt).state_id == old(rt).state_id,
//@ end

// ---------------- ConfirmChangeWorkerAddress ----------------
// (process_pending_worker and the closure: contracts of units/C13/miner_control.vx.rs)
//@ fn actors/miner/src/lib.rs process_pending_worker rt=ref
    requires
        info_of(*old(state)) == Some(*old(info)),
    ensures
        st_funds_eq(*old(state), *final(state)),
        // the worker changes only if a change is pending AND its effective epoch has arrived
        r.is_ok() ==> ({
            let due = old(info).pending_worker_key.is_some() && rt.epoch >= old(info).pending_worker_key->Some_0.effective_at;
            &&& (due ==> final(info).worker == old(info).pending_worker_key->Some_0.new_worker && final(info).pending_worker_key.is_none()
                    && info_of(*final(state)) == Some(*final(info)))
            &&& (!due ==> *final(info) == *old(info) && *final(state) == *old(state))
            &&& final(info).owner == old(info).owner && final(info).control_addresses == old(info).control_addresses
            &&& final(info).beneficiary == old(info).beneficiary && final(info).pending_owner_address == old(info).pending_owner_address
            &&& final(info).beneficiary_term == old(info).beneficiary_term && final(info).pending_beneficiary_term == old(info).pending_beneficiary_term
            &&& info_static_eq(*old(info), *final(info))
        }),
//@ end
/// "a worker-key change takes effect no earlier than the security delay after the owner requested it"
pub open spec fn worker_confirmed(i0: MinerInfo, i1: MinerInfo, caller: Address, epoch: ChainEpoch) -> bool {
    let due = i0.pending_worker_key.is_some() && epoch >= i0.pending_worker_key->Some_0.effective_at;
    &&& caller == i0.owner
    &&& (due ==> i1.worker == i0.pending_worker_key->Some_0.new_worker && i1.pending_worker_key.is_none())
    &&& (!due ==> i1 == i0)
    &&& i1.owner == i0.owner && i1.beneficiary == i0.beneficiary && i1.control_addresses == i0.control_addresses
    &&& i1.pending_owner_address == i0.pending_owner_address && i1.beneficiary_term == i0.beneficiary_term && i1.pending_beneficiary_term == i0.pending_beneficiary_term
    &&& info_static_eq(i0, i1)
}
//@ fn actors/miner/src/lib.rs Actor::confirm_change_worker_address closure=0 as=confirm_worker_tx0 params="state: &mut State, rt: &mut Rt" retty="Result<(), ActorError>"
    requires
        old(rt).validated@.is_none(),
    ensures
        st_funds_eq(*old(state), *final(state)),
        *final(rt) == (Rt { validated: final(rt).validated, ..*old(rt) }),
        /*C11*/ r.is_ok() ==> final(rt).validated@.is_some() && old(rt).msg.caller == info_of(*old(state))->Some_0.owner,
        r.is_ok() ==> info_of(*old(state)).is_some() && info_of(*final(state)).is_some()
            && worker_confirmed(info_of(*old(state))->Some_0, info_of(*final(state))->Some_0, old(rt).msg.caller, old(rt).epoch),
//@ end
//@ fn actors/miner/src/lib.rs Actor::confirm_change_worker_address free tx0="State;confirm_worker_tx0;&mut __vx_st, rt"
    requires !old(rt).in_tx@, old(rt).tx_log@.len() == 0, old(rt).validated@.is_none(),
    ensures
        /*C11*/ r.is_ok() ==> final(rt).validated@.is_some() && old(rt).msg.caller == info_of(rt_state::<State>(old(rt).state_id@))->Some_0.owner,
        r.is_ok() ==> final(rt).tx_log@.len() == 1 && ({
            let s0 = rt_state::<State>(old(rt).state_id@);
            let s1 = rt_state::<State>(final(rt).state_id@);
            &&& info_of(s0).is_some() && info_of(s1).is_some() && st_funds_eq(s0, s1)
            &&& worker_confirmed(info_of(s0)->Some_0, info_of(s1)->Some_0, old(rt).msg.caller, old(rt).epoch)
        }),
        // no message is sent; a rejected call changes nothing
        final(rt).sends == old(rt).sends,
        r.is_err() ==> final(rt).state_id == old(rt).state_id,
//@ end

// ---------------- ChangeBeneficiary ----------------
//@ item actors/miner/src/types.rs ChangeBeneficiaryParams
//@ fn actors/miner/src/beneficiary.rs PendingBeneficiaryChange::new
    ensures r.new_beneficiary == new_beneficiary, r.new_quota == new_quota, r.new_expiration == new_expiration,
            !r.approved_by_beneficiary, !r.approved_by_nominee,
//@ end
/// one step of the beneficiary handover (contract of units/C13/miner_control.vx.rs `beneficiary_tx0`)
pub open spec fn beneficiary_step(i0: MinerInfo, i1: MinerInfo, caller: Address, new_beneficiary: Address, params: ChangeBeneficiaryParams, epoch: ChainEpoch) -> bool {
    let term_idle = i0.beneficiary_term.expiration <= epoch || i0.beneficiary_term.quota@ - i0.beneficiary_term.used_quota@ <= 0;
    // proposals only by the owner; confirmations only by the nominee or the current beneficiary and only for the SAME (address, quota, expiration)
    &&& (caller == i0.owner || (i0.pending_beneficiary_term.is_some() && (caller == i0.beneficiary || caller == i0.pending_beneficiary_term->Some_0.new_beneficiary)))
    &&& (caller != i0.owner ==> i0.pending_beneficiary_term->Some_0.new_beneficiary == new_beneficiary
            && i0.pending_beneficiary_term->Some_0.new_quota@ == params.new_quota@
            && i0.pending_beneficiary_term->Some_0.new_expiration == params.new_expiration)
    // the beneficiary changes only with the nominee's approval AND the current beneficiary's approval
    // (the latter is automatic only when the current term has no quota left or has expired)
    &&& (i1.beneficiary != i0.beneficiary ==> i1.beneficiary == new_beneficiary
            && (caller == new_beneficiary || (caller != i0.owner && i0.pending_beneficiary_term->Some_0.approved_by_nominee))
            && (caller == i0.beneficiary
                || (caller == i0.owner && term_idle)
                || (caller != i0.owner && i0.pending_beneficiary_term->Some_0.approved_by_beneficiary)))
    // used quota resets only when the beneficiary actually changes
    &&& (i1.beneficiary == i0.beneficiary ==> i1.beneficiary_term.used_quota@ == i0.beneficiary_term.used_quota@)
    // a NEW beneficiary starts a fresh term: nothing used yet, with exactly the approved quota and expiration
    &&& (i1.beneficiary != i0.beneficiary ==> i1.beneficiary_term.used_quota@ == 0
            && i1.beneficiary_term.quota@ == params.new_quota@ && i1.beneficiary_term.expiration == params.new_expiration
            && i1.pending_beneficiary_term.is_none())
    // while a proposal is only pending, the current term is untouched
    &&& (i1.pending_beneficiary_term.is_some() ==> i1.beneficiary == i0.beneficiary && i1.beneficiary_term.quota@ == i0.beneficiary_term.quota@
            && i1.beneficiary_term.expiration == i0.beneficiary_term.expiration)
    // owner, worker and control addresses are never touched here
    &&& i1.owner == i0.owner && i1.worker == i0.worker && i1.control_addresses == i0.control_addresses
    &&& i1.pending_owner_address == i0.pending_owner_address && i1.pending_worker_key == i0.pending_worker_key
    &&& info_static_eq(i0, i1)
}
//@ fn actors/miner/src/lib.rs Actor::change_beneficiary closure=0 as=beneficiary_tx0 params="state: &mut State, rt: &mut Rt, caller: Address, new_beneficiary: Address, params: ChangeBeneficiaryParams" retty="Result<(), ActorError>"
    ensures
        st_funds_eq(*old(state), *final(state)),
        *final(rt) == *old(rt),
        r.is_ok() ==> info_of(*old(state)).is_some() && info_of(*final(state)).is_some()
            && beneficiary_step(info_of(*old(state))->Some_0, info_of(*final(state))->Some_0, caller, new_beneficiary, params, old(rt).epoch),
        r.is_err() ==> *final(state) == *old(state),
//@ end
//@ fn actors/miner/src/lib.rs Actor::change_beneficiary free tx0="State;beneficiary_tx0;&mut __vx_st, rt, caller, new_beneficiary, params"
    requires !old(rt).in_tx@, old(rt).tx_log@.len() == 0, old(rt).validated@.is_none(),
    ensures
        /*C11*/ r.is_ok() ==> final(rt).validated@.is_some(),
        r.is_ok() ==> final(rt).tx_log@.len() == 1 && ({
            let s0 = rt_state::<State>(old(rt).state_id@);
            let s1 = rt_state::<State>(final(rt).state_id@);
            let nb = rt_resolve(params.new_beneficiary, old(rt).sends@.len());
            // "new beneficiary resolved to an ID address": the step is taken for the ID address the given address resolves to
            &&& nb.is_some()
            &&& info_of(s0).is_some() && info_of(s1).is_some() && st_funds_eq(s0, s1)
            &&& beneficiary_step(info_of(s0)->Some_0, info_of(s1)->Some_0, old(rt).msg.caller, Address { id: nb->Some_0, proto: 0 }, params, old(rt).epoch)
        }),
        final(rt).sends == old(rt).sends,
        r.is_err() ==> final(rt).state_id == old(rt).state_id,
//@ end

// ---------------- GetBeneficiary / ControlAddresses (queries: any caller, nothing changes) ----------------
//@ item actors/miner/src/types.rs ActiveBeneficiary
//@ item actors/miner/src/types.rs GetBeneficiaryReturn
//@ item actors/miner/src/types.rs GetControlAddressesReturn
//@ fn actors/miner/src/lib.rs Actor::get_beneficiary free
    ensures
        *final(rt) == (Rt { validated: final(rt).validated, ..*old(rt) }),
        /*C11*/ r.is_ok() ==> final(rt).validated@.is_some(),
        r.is_ok() ==> info_of(rt_state::<State>(old(rt).state_id@)).is_some() && ({
            let i = info_of(rt_state::<State>(old(rt).state_id@))->Some_0;
            r->Ok_0.active.beneficiary == i.beneficiary && r->Ok_0.active.term == i.beneficiary_term && r->Ok_0.proposed == i.pending_beneficiary_term
        }),
//@ end
//@ fn actors/miner/src/lib.rs Actor::control_addresses free
    ensures
        *final(rt) == (Rt { validated: final(rt).validated, ..*old(rt) }),
        /*C11*/ r.is_ok() ==> final(rt).validated@.is_some(),
        r.is_ok() ==> info_of(rt_state::<State>(old(rt).state_id@)).is_some() && ({
            let i = info_of(rt_state::<State>(old(rt).state_id@))->Some_0;
            r->Ok_0.owner == i.owner && r->Ok_0.worker == i.worker && r->Ok_0.control_addresses == i.control_addresses
        }),
//@ end

// ---------------- GetOwner / IsControllingAddress / GetSectorSize / GetAvailableBalance (queries: any caller, nothing changes) ----------------
//@ include prelude/iter_any.rs
//@ item actors/miner/src/types.rs GetOwnerReturn
//@ item actors/miner/src/types.rs IsControllingAddressParam
//@ item actors/miner/src/types.rs IsControllingAddressReturn
//@ item actors/miner/src/types.rs GetSectorSizeReturn
//@ item actors/miner/src/types.rs GetAvailableBalanceReturn
//@ fn actors/miner/src/lib.rs Actor::get_owner free
    ensures
        *final(rt) == (Rt { validated: final(rt).validated, ..*old(rt) }),
        /*C11*/ r.is_ok() ==> final(rt).validated@.is_some(),
        // what an observer is told IS the stored owner and the stored pending successor
        r.is_ok() ==> info_of(rt_state::<State>(old(rt).state_id@)).is_some() && ({
            let i = info_of(rt_state::<State>(old(rt).state_id@))->Some_0;
            r->Ok_0.owner == i.owner && r->Ok_0.proposed == i.pending_owner_address
        }),
//@ end
/// membership in a sequence is membership in its set of elements (glue between `vx_any_eq` and `vx_control_worker_owner`)
pub proof fn lemma_contains_to_set()
    ensures forall|v: Seq<Address>, x: Address| #[trigger] v.contains(x) == v.to_set().contains(x)
{ assert forall|v: Seq<Address>, x: Address| #[trigger] v.contains(x) == v.to_set().contains(x) by {} }
//@ fn actors/miner/src/lib.rs Actor::is_controlling_address free sub0="info . control_addresses . iter () . chain (& [info . worker , info . owner]) . any (| a | * a == input)=>vx_any_eq(&vx_control_worker_owner(&info), input)"
    ensures
        *final(rt) == (Rt { validated: final(rt).validated, ..*old(rt) }),
        /*C11*/ r.is_ok() ==> final(rt).validated@.is_some(),
        // an address that does not resolve controls nothing
        r.is_ok() && rt_resolve(params.address, old(rt).sends@.len()).is_none() ==> !r->Ok_0.is_controlling,
        // otherwise: controlling <==> its ID address is the owner, the worker or one of the control addresses — nobody else
        r.is_ok() && rt_resolve(params.address, old(rt).sends@.len()).is_some() ==>
            info_of(rt_state::<State>(old(rt).state_id@)).is_some() && ({
                let i = info_of(rt_state::<State>(old(rt).state_id@))->Some_0;
                let a = Address { id: rt_resolve(params.address, old(rt).sends@.len())->Some_0, proto: 0 };
                r->Ok_0.is_controlling == (a == i.owner || a == i.worker || i.control_addresses@.contains(a))
            }),
//@ entry
        proof { lemma_contains_to_set(); }
//@ end
//@ fn actors/miner/src/lib.rs Actor::get_sector_size free
    ensures
        *final(rt) == (Rt { validated: final(rt).validated, ..*old(rt) }),
        /*C11*/ r.is_ok() ==> final(rt).validated@.is_some(),
        r.is_ok() ==> info_of(rt_state::<State>(old(rt).state_id@)).is_some()
            && r->Ok_0.sector_size == info_of(rt_state::<State>(old(rt).state_id@))->Some_0.sector_size,
//@ end
//@ fn actors/miner/src/lib.rs Actor::get_available_balance free
    ensures
        *final(rt) == (Rt { validated: final(rt).validated, ..*old(rt) }),
        /*C11*/ r.is_ok() ==> final(rt).validated@.is_some(),
        // balance - (vesting + pre-commit deposits + initial pledge) - fee debt, reported only when the first difference is not negative
        r.is_ok() ==> ({
            let st = rt_state::<State>(old(rt).state_id@);
            r->Ok_0.available_balance@ == unlocked(st, old(rt).balance@) - st.fee_debt@ && unlocked(st, old(rt).balance@) >= 0
        }),
//@ end

// ---------------- GetPeerID / GetMultiaddrs (queries: any caller, nothing changes, the stored field is returned) ----------------
//@ item actors/miner/src/types.rs GetPeerIDReturn
//@ item actors/miner/src/types.rs GetMultiaddrsReturn
//@ fn actors/miner/src/lib.rs Actor::get_peer_id free
    ensures
        *final(rt) == (Rt { validated: final(rt).validated, ..*old(rt) }),
        /*C11*/ r.is_ok() ==> final(rt).validated@.is_some(),
        r.is_ok() ==> info_of(rt_state::<State>(old(rt).state_id@)).is_some()
            && r->Ok_0.peer_id == info_of(rt_state::<State>(old(rt).state_id@))->Some_0.peer_id,
//@ end
//@ fn actors/miner/src/lib.rs Actor::get_multiaddresses free
    ensures
        *final(rt) == (Rt { validated: final(rt).validated, ..*old(rt) }),
        /*C11*/ r.is_ok() ==> final(rt).validated@.is_some(),
        r.is_ok() ==> info_of(rt_state::<State>(old(rt).state_id@)).is_some()
            && r->Ok_0.multi_addrs == info_of(rt_state::<State>(old(rt).state_id@))->Some_0.multi_address,
//@ end

// ---------------- ChangePeerID / ChangeMultiaddrs ----------------
//@ item actors/miner/src/types.rs ChangePeerIDParams
//@ item actors/miner/src/types.rs ChangeMultiaddrsParams
/// total size of the first n multiaddresses
pub open spec fn mas_total(mas: Seq<BytesDe>, n: int) -> int decreases n { if n <= 0 { 0 } else { mas_total(mas, n - 1) + bytes_de_len(mas[n - 1]) } }
pub proof fn lemma_mas_total_mono(mas: Seq<BytesDe>, i: int, n: int)
    requires 0 <= i <= n <= mas.len()
    ensures 0 <= mas_total(mas, i) <= mas_total(mas, n)
    decreases n
{ if i < n { lemma_mas_total_mono(mas, i, n - 1); } else if n > 0 { lemma_mas_total_mono(mas, i - 1, n - 1); } }
/// the size limits on what a miner may publish about itself
pub open spec fn peer_info_ok(policy: Policy, peer_id: Seq<u8>, mas: Seq<BytesDe>) -> bool {
    &&& peer_id.len() <= policy.max_peer_id_length
    &&& (forall|i: int| 0 <= i < mas.len() ==> bytes_de_len(#[trigger] mas[i]) > 0)
    &&& mas_total(mas, mas.len() as int) <= policy.max_multiaddr_data
}
//@ fn actors/miner/src/lib.rs check_peer_info r19=0 sub0="ma . 0 . is_empty ()=>vx_bytes_de_is_empty (ma)" sub1="ma . 0 . len ()=>vx_bytes_de_len (ma)"
    requires
        // the multiaddresses are all in memory at once: their total size fits a usize
        mas_total(multiaddrs@, multiaddrs@.len() as int) <= usize::MAX,
    ensures
        r.is_ok() <==> peer_info_ok(*policy, peer_id@, multiaddrs@),
//@ loop 0
        invariant
            __vx_i0 <= __vx_v0@.len(), __vx_v0@ == multiaddrs@,
            total_size == mas_total(multiaddrs@, __vx_i0 as int),
            forall|i: int| 0 <= i < __vx_i0 ==> bytes_de_len(#[trigger] multiaddrs@[i]) > 0,
            mas_total(multiaddrs@, multiaddrs@.len() as int) <= usize::MAX,
        decreases __vx_v0@.len() - __vx_i0,
//@ loopstart 0
            proof { lemma_mas_total_mono(multiaddrs@, __vx_i0 as int + 1, multiaddrs@.len() as int); }
//@ end

/// only the published peer id / multiaddresses move
pub open spec fn info_but_peer_eq(a: MinerInfo, b: MinerInfo) -> bool {
    &&& info_control_eq(a, b)
    &&& a.window_post_proof_type == b.window_post_proof_type && a.sector_size == b.sector_size
    &&& a.window_post_partition_sectors == b.window_post_partition_sectors && a.consensus_fault_elapsed == b.consensus_fault_elapsed
}
//@ fn actors/miner/src/lib.rs Actor::change_peer_id closure=0 as=peer_id_tx0 params="state: &mut State, rt: &mut Rt, params: ChangePeerIDParams" retty="Result<(), ActorError>" sub0="info . control_addresses . iter () . chain (& [info . worker , info . owner])=>&vx_control_worker_owner(&info)"
    requires old(rt).validated@.is_none(),
    ensures
        st_funds_eq(*old(state), *final(state)),
        *final(rt) == (Rt { validated: final(rt).validated, ..*old(rt) }),
        /*C11*/ r.is_ok() ==> final(rt).validated@.is_some() && info_of(*old(state)).is_some() && may_operate(info_of(*old(state))->Some_0, old(rt).msg.caller),
        r.is_ok() ==> info_of(*final(state)).is_some() && ({
            let i0 = info_of(*old(state))->Some_0;
            let i1 = info_of(*final(state))->Some_0;
            i1.peer_id == params.new_id && i1.multi_address == i0.multi_address && info_but_peer_eq(i0, i1)
        }),
        r.is_err() ==> *final(state) == *old(state),
//@ end
//@ fn actors/miner/src/lib.rs Actor::change_peer_id free tx0="State;peer_id_tx0;&mut __vx_st, rt, params"
    requires !old(rt).in_tx@, old(rt).tx_log@.len() == 0, old(rt).validated@.is_none(),
    ensures
        /*C11*/ r.is_ok() ==> final(rt).validated@.is_some() && info_of(rt_state::<State>(old(rt).state_id@)).is_some()
            && may_operate(info_of(rt_state::<State>(old(rt).state_id@))->Some_0, old(rt).msg.caller),
        r.is_ok() ==> final(rt).tx_log@.len() == 1 && ({
            let s0 = rt_state::<State>(old(rt).state_id@);
            let s1 = rt_state::<State>(final(rt).state_id@);
            // size limit
            &&& params.new_id@.len() <= rt_policy().max_peer_id_length
            &&& info_of(s1).is_some() && st_funds_eq(s0, s1)
            &&& info_of(s1)->Some_0.peer_id == params.new_id && info_of(s1)->Some_0.multi_address == info_of(s0)->Some_0.multi_address
            // who controls the miner and its income is untouched
            &&& info_but_peer_eq(info_of(s0)->Some_0, info_of(s1)->Some_0)
        }),
        final(rt).sends == old(rt).sends,
        r.is_err() ==> final(rt).state_id == old(rt).state_id,
//@ end
//@ fn actors/miner/src/lib.rs Actor::change_multiaddresses closure=0 as=multiaddrs_tx0 params="state: &mut State, rt: &mut Rt, params: ChangeMultiaddrsParams" retty="Result<(), ActorError>" sub0="info . control_addresses . iter () . chain (& [info . worker , info . owner])=>&vx_control_worker_owner(&info)"
    requires old(rt).validated@.is_none(),
    ensures
        st_funds_eq(*old(state), *final(state)),
        *final(rt) == (Rt { validated: final(rt).validated, ..*old(rt) }),
        /*C11*/ r.is_ok() ==> final(rt).validated@.is_some() && info_of(*old(state)).is_some() && may_operate(info_of(*old(state))->Some_0, old(rt).msg.caller),
        r.is_ok() ==> info_of(*final(state)).is_some() && ({
            let i0 = info_of(*old(state))->Some_0;
            let i1 = info_of(*final(state))->Some_0;
            i1.multi_address == params.new_multi_addrs && i1.peer_id == i0.peer_id && info_but_peer_eq(i0, i1)
        }),
        r.is_err() ==> *final(state) == *old(state),
//@ end
//@ fn actors/miner/src/lib.rs Actor::change_multiaddresses free tx0="State;multiaddrs_tx0;&mut __vx_st, rt, params"
    requires
        !old(rt).in_tx@, old(rt).tx_log@.len() == 0, old(rt).validated@.is_none(),
        mas_total(params.new_multi_addrs@, params.new_multi_addrs@.len() as int) <= usize::MAX,
    ensures
        /*C11*/ r.is_ok() ==> final(rt).validated@.is_some() && info_of(rt_state::<State>(old(rt).state_id@)).is_some()
            && may_operate(info_of(rt_state::<State>(old(rt).state_id@))->Some_0, old(rt).msg.caller),
        r.is_ok() ==> final(rt).tx_log@.len() == 1 && ({
            let s0 = rt_state::<State>(old(rt).state_id@);
            let s1 = rt_state::<State>(final(rt).state_id@);
            let mas = params.new_multi_addrs@;
            // size limits: no empty multiaddress, total size within the policy maximum
            &&& (forall|i: int| 0 <= i < mas.len() ==> bytes_de_len(#[trigger] mas[i]) > 0) && mas_total(mas, mas.len() as int) <= rt_policy().max_multiaddr_data
            &&& info_of(s1).is_some() && st_funds_eq(s0, s1)
            &&& info_of(s1)->Some_0.multi_address == params.new_multi_addrs && info_of(s1)->Some_0.peer_id == info_of(s0)->Some_0.peer_id
            &&& info_but_peer_eq(info_of(s0)->Some_0, info_of(s1)->Some_0)
        }),
        final(rt).sends == old(rt).sends,
        r.is_err() ==> final(rt).state_id == old(rt).state_id,
//@ end

// ======================= (5) the constructor =======================
use Code::Blake2b256;
//@ item actors/miner/src/types.rs MinerConstructorParams
//@ const runtime/src/runtime/policy.rs MINIMUM_CONSENSUS_POWER
//@ const runtime/src/runtime/policy.rs CREATE_MINER_DEPOSIT_POWER
//@ fn actors/miner/src/lib.rs check_valid_post_proof_type
    ensures r.is_ok() <==> proof_allowed(policy.valid_post_proof_type, proof_type),
//@ end
//@ fn actors/miner/src/beneficiary.rs "<BeneficiaryTerm as Default>::default"
    ensures r.quota@ == 0, r.expiration == 0, r.used_quota@ == 0,
//@ end
//@ fn actors/miner/src/state.rs MinerInfo::new sub0="control_addresses . into_iter () . map (Address :: new_id) . collect_vec ()=>vx_ids_to_addrs (control_addresses)"
    ensures
        r.is_ok() ==> ({
            let i = r->Ok_0;
            // the owner is also the first beneficiary; nothing is pending
            &&& i.owner == (Address { id: owner, proto: 0 }) && i.worker == (Address { id: worker, proto: 0 }) && i.beneficiary == i.owner
            &&& i.control_addresses@.len() == control_addresses@.len()
            &&& (forall|j: int| 0 <= j < control_addresses@.len() ==> (#[trigger] i.control_addresses@[j]) == (Address { id: control_addresses@[j], proto: 0 }))
            &&& i.pending_worker_key.is_none() && i.pending_owner_address.is_none() && i.pending_beneficiary_term.is_none()
            &&& i.beneficiary_term.quota@ == 0 && i.beneficiary_term.used_quota@ == 0 && i.beneficiary_term.expiration == 0
            &&& i.peer_id == peer_id && i.multi_address == multi_address && i.window_post_proof_type == window_post_proof_type
            &&& i.sector_size == post_sector_size(window_post_proof_type) && i.window_post_partition_sectors == post_partition_sectors(window_post_proof_type)
            &&& i.consensus_fault_elapsed == EPOCH_UNDEFINED
        }),
//@ end
/// the proving-period geometry the constructor relies on
pub open spec fn ctor_pol_ok(p: Policy) -> bool {
    &&& 0 < p.wpost_challenge_window <= 0x1_0000_0000 && 0 < p.wpost_proving_period <= 0x1_0000_0000_0000
}
//@ fn actors/miner/src/lib.rs current_proving_period_start ops=keep
    requires ctor_pol_ok(*policy), 0 <= current_epoch < 0x1000_0000_0000_0000, 0 <= offset < policy.wpost_proving_period,
    ensures current_epoch - policy.wpost_proving_period < r <= current_epoch,
//@ end
//@ fn actors/miner/src/lib.rs current_deadline_index ops=keep
    requires ctor_pol_ok(*policy), 0 <= current_epoch < 0x1000_0000_0000_0000, current_epoch - policy.wpost_proving_period < period_start <= current_epoch,
//@ end
/// the creation deposit as a function of the answers of the reward actor (first message) and the power actor (second message)
pub open spec fn ctor_deposit(q_reward: SendRec, q_power: SendRec, epoch: ChainEpoch) -> int {
    let rew = deser_spec::<ThisEpochRewardReturn>(q_reward.ret);
    let pwr = deser_spec::<CurrentTotalPowerReturn>(q_power.ret);
    ip_spec(CREATE_MINER_DEPOSIT_POWER as int, rew.this_epoch_baseline_power@, rew.this_epoch_reward_smoothed, pwr.quality_adj_power_smoothed, rt_circ_supply(),
        (epoch - pwr.ramp_start_epoch) as i64, pwr.ramp_duration_epochs)
}
//@ fn actors/miner/src/lib.rs calculate_create_miner_deposit
    requires
        !old(rt).in_tx@,
        // the power actor's ramp start epoch is of chain magnitude (no i64 overflow in `curr_epoch - ramp_start_epoch`; the on-chain build aborts on overflow)
        forall|ret: Option<IpldBlock>| -0x1000_0000_0000_0000 < (#[trigger] deser_spec::<CurrentTotalPowerReturn>(ret)).ramp_start_epoch < 0x1000_0000_0000_0000,
        -0x1000_0000_0000_0000 < old(rt).epoch < 0x1000_0000_0000_0000,
    ensures
        rt_frame(old(rt), final(rt)), old(rt).sends@.len() <= final(rt).sends@.len() <= old(rt).sends@.len() + 2,
        forall|i: int| 0 <= i < old(rt).sends@.len() ==> final(rt).sends@[i] == old(rt).sends@[i],
        r.is_ok() ==> ({
            let n0 = old(rt).sends@.len() as int;
            let s = final(rt).sends@;
            &&& s.len() == n0 + 2
            &&& s[n0].to == REWARD_ACTOR_ADDR && s[n0].method == ext::reward::THIS_EPOCH_REWARD_METHOD && s[n0].value == 0 && is_total_power_query(s[n0 + 1])
            &&& r->Ok_0@ == ctor_deposit(s[n0], s[n0 + 1], old(rt).epoch)
        }),
        rt_no_reentry(REWARD_ACTOR_ADDR, ext::reward::THIS_EPOCH_REWARD_METHOD) && rt_no_reentry(STORAGE_POWER_ACTOR_ADDR, CURRENT_TOTAL_POWER_METHOD)
            ==> final(rt).state_id == old(rt).state_id && final(rt).balance == old(rt).balance,
//@ end

/// what the constructor records about who controls the new miner
pub open spec fn ctor_info_ok(i: MinerInfo, params: MinerConstructorParams, n: nat) -> bool {
    // owner / worker / control addresses are resolved to ID addresses (the owner right after the two deposit queries, i.e. with 2 messages sent)
    &&& rt_resolve(params.owner, 2).is_some() && i.owner == (Address { id: rt_resolve(params.owner, 2)->Some_0, proto: 0 })
    // "the new worker must be an account-type key address"
    &&& i.worker.proto == 0 && worker_ok(params.worker, i.worker.id, 2)
    &&& i.control_addresses@.len() == params.control_addresses@.len() && params.control_addresses@.len() <= rt_policy().max_control_addresses
    &&& (forall|j: int| 0 <= j < params.control_addresses@.len() ==> (#[trigger] rt_resolve(params.control_addresses@[j], n)).is_some()
            && i.control_addresses@[j] == (Address { id: rt_resolve(params.control_addresses@[j], n)->Some_0, proto: 0 }))
    // the owner is the first beneficiary (no quota, nothing used), nothing is pending
    &&& i.beneficiary == i.owner && i.pending_worker_key.is_none() && i.pending_owner_address.is_none() && i.pending_beneficiary_term.is_none()
    &&& i.beneficiary_term.quota@ == 0 && i.beneficiary_term.used_quota@ == 0
    // size limits and "proof type allowed"
    &&& peer_info_ok(rt_policy(), params.peer_id@, params.multi_addresses@) && i.peer_id == params.peer_id && i.multi_address == params.multi_addresses
    &&& proof_allowed(rt_policy().valid_post_proof_type, params.window_post_proof_type) && i.window_post_proof_type == params.window_post_proof_type
}
//@ fn actors/miner/src/lib.rs Actor::constructor free sub0="rt . resolve_address (& address) . ok_or_else=>rt . resolve_address (& address) . ok_or_else" sub1="params . control_addresses . into_iter () . map=>vx_resolve_control_ids (rt , params . control_addresses) /* params . control_addresses . into_iter () . map" sub2=". collect :: < Result < _ , _ > > ()=>. collect :: < Result < _ , _ > > () */" sub3="assign_proving_period_offset (policy , rt . message () . receiver () , current_epoch , blake2b)=>vx_assign_proving_period_offset (policy , rt . message () . receiver () , current_epoch , rt)"
    requires
        !old(rt).in_tx@, old(rt).sends@.len() == 0, old(rt).tx_log@.len() == 0, old(rt).validated@.is_none(),
        ctor_pol_ok(rt_policy()), 0 <= old(rt).epoch < 0x1000_0000_0000_0000,
        mas_total(params.multi_addresses@, params.multi_addresses@.len() as int) <= usize::MAX,
        forall|ret: Option<IpldBlock>| -0x1000_0000_0000_0000 < (#[trigger] deser_spec::<CurrentTotalPowerReturn>(ret)).ramp_start_epoch < 0x1000_0000_0000_0000,
        // explicit assumptions: the read-only queries (ThisEpochReward, CurrentTotalPower, an account's PubkeyAddress) do not call back into this actor
        rt_no_reentry(REWARD_ACTOR_ADDR, ext::reward::THIS_EPOCH_REWARD_METHOD), rt_no_reentry(STORAGE_POWER_ACTOR_ADDR, CURRENT_TOTAL_POWER_METHOD),
        rt_no_reentry_any(PUBKEY_ADDRESS_METHOD),
    ensures
        // "only the init actor"
        /*C11*/ r.is_ok() ==> final(rt).validated@.is_some() && old(rt).msg.caller == INIT_ACTOR_ADDR,
        r.is_ok() ==> final(rt).sends@.len() >= 2 && ({
            let st = rt_state::<State>(final(rt).state_id@);
            let s = final(rt).sends@;
            let deposit = ctor_deposit(s[0], s[1], old(rt).epoch);
            &&& info_of(st).is_some() && ctor_info_ok(info_of(st)->Some_0, params, s.len())
            // messages: the two read-only queries that price the deposit and, for a non-BLS worker address, the PubkeyAddress query — all of value 0
            &&& s.len() <= 3 && s[0].to == REWARD_ACTOR_ADDR && s[0].value == 0 && is_total_power_query(s[1])
            &&& (s.len() == 3 ==> is_pubkey_query(s[2], info_of(st)->Some_0.worker.id))
            // C14 / C03: the creation deposit is locked IN FULL in the vesting table (it vests like a block reward); no other total is set
            &&& deposit >= 0 && st.locked_funds@ == deposit && st_wf(st)
            &&& st.pre_commit_deposits@ == 0 && st.initial_pledge@ == 0 && st.fee_debt@ == 0
            // C01: the deposit is covered by the balance the init actor sent along
            &&& st_solvent(st, final(rt).balance@) && final(rt).balance@ == old(rt).balance@
            // the first proving period has started, the deadline index is within the period
            &&& st.proving_period_start <= old(rt).epoch && st.current_deadline < rt_policy().wpost_period_deadlines
            &&& st.early_terminations@ =~= vstd::set::Set::<u64>::empty() && !st.deadline_cron_active
        }),
        r.is_err() ==> final(rt).state_id == old(rt).state_id,
//@ end

// ---------------- the same constructor against the PROPERTY (C03): KNOWN FINDING F1 — expected to FAIL on the last clause only ----------------
// "The network-wide pledge total kept by the power actor equals the sum over all miners of initial pledge plus vesting funds": a method that
// raises this miner's vesting funds by `deposit` must tell the power actor (UpdatePledgeTotal(+deposit)), as every other method that moves
// locked_funds or initial_pledge does. The constructor locks the deposit with add_locked_funds and sends no such message.
//@ fn actors/miner/src/lib.rs Actor::constructor free as=constructor_prop sub0="rt . resolve_address (& address) . ok_or_else=>rt . resolve_address (& address) . ok_or_else" sub1="params . control_addresses . into_iter () . map=>vx_resolve_control_ids (rt , params . control_addresses) /* params . control_addresses . into_iter () . map" sub2=". collect :: < Result < _ , _ > > ()=>. collect :: < Result < _ , _ > > () */" sub3="assign_proving_period_offset (policy , rt . message () . receiver () , current_epoch , blake2b)=>vx_assign_proving_period_offset (policy , rt . message () . receiver () , current_epoch , rt)"
    requires
        !old(rt).in_tx@, old(rt).sends@.len() == 0, old(rt).tx_log@.len() == 0, old(rt).validated@.is_none(),
        ctor_pol_ok(rt_policy()), 0 <= old(rt).epoch < 0x1000_0000_0000_0000,
        mas_total(params.multi_addresses@, params.multi_addresses@.len() as int) <= usize::MAX,
        forall|ret: Option<IpldBlock>| -0x1000_0000_0000_0000 < (#[trigger] deser_spec::<CurrentTotalPowerReturn>(ret)).ramp_start_epoch < 0x1000_0000_0000_0000,
        // explicit assumptions: the read-only queries (ThisEpochReward, CurrentTotalPower, an account's PubkeyAddress) do not call back into this actor
        rt_no_reentry(REWARD_ACTOR_ADDR, ext::reward::THIS_EPOCH_REWARD_METHOD), rt_no_reentry(STORAGE_POWER_ACTOR_ADDR, CURRENT_TOTAL_POWER_METHOD),
        rt_no_reentry_any(PUBKEY_ADDRESS_METHOD),
    ensures
        // "only the init actor"
        /*C11*/ r.is_ok() ==> final(rt).validated@.is_some() && old(rt).msg.caller == INIT_ACTOR_ADDR,
        r.is_ok() ==> final(rt).sends@.len() >= 2 && ({
            let st = rt_state::<State>(final(rt).state_id@);
            let s = final(rt).sends@;
            let deposit = ctor_deposit(s[0], s[1], old(rt).epoch);
            &&& info_of(st).is_some() && ctor_info_ok(info_of(st)->Some_0, params, s.len())
            // messages: the two read-only queries that price the deposit and, for a non-BLS worker address, the PubkeyAddress query — all of value 0
            &&& s.len() <= 3 && s[0].to == REWARD_ACTOR_ADDR && s[0].value == 0 && is_total_power_query(s[1])
            &&& (s.len() == 3 ==> is_pubkey_query(s[2], info_of(st)->Some_0.worker.id))
            // C14 / C03: the creation deposit is locked IN FULL in the vesting table (it vests like a block reward); no other total is set
            &&& deposit >= 0 && st.locked_funds@ == deposit && st_wf(st)
            &&& st.pre_commit_deposits@ == 0 && st.initial_pledge@ == 0 && st.fee_debt@ == 0
            // C01: the deposit is covered by the balance the init actor sent along
            &&& st_solvent(st, final(rt).balance@) && final(rt).balance@ == old(rt).balance@
            // the first proving period has started, the deadline index is within the period
            &&& st.proving_period_start <= old(rt).epoch && st.current_deadline < rt_policy().wpost_period_deadlines
            &&& st.early_terminations@ =~= vstd::set::Set::<u64>::empty() && !st.deadline_cron_active
            // C03 (the clause the property demands and the pinned tree does not satisfy): the power actor is told that this miner's vesting funds grew by the deposit
            &&& (deposit != 0 ==> exists|k: int| 0 <= k < s.len() && pledge_note_of(#[trigger] s[k], deposit))
        }),
        r.is_err() ==> final(rt).state_id == old(rt).state_id,
//@ end
} // verus!
fn main() {}
