// unit: miner actor methods that charge, burn and notify (C15, C03, C05, C01)
//@ include prelude/core.rs
//@ include prelude/ipld.rs
//@ include prelude/bitfield.rs
//@ include prelude/rt.rs
//@ include prelude/singletons.rs
//@ include prelude/policy.rs
//@ include prelude/cbor.rs
verus! {
//@ item actors/miner/src/policy.rs VestSpec
//@ item runtime/src/builtin/reward/smooth/alpha_beta_filter.rs FilterEstimate
}
//@ include prelude/miner_vesting.rs
//@ include prelude/miner_ext.rs
use std::cmp;
macro_rules! log_debug { ($($t:tt)*) => { () } }
verus! {

//@ include units/shared/miner_funds.inc

pub type Error = AnyhowError;
//@ const runtime/src/builtin/network.rs EXPECTED_LEADERS_PER_EPOCH
//@ const actors/miner/src/monies.rs CONSENSUS_FAULT_FACTOR
//@ const actors/miner/src/policy.rs CONSENSUS_FAULT_REPORTER_DEFAULT_SHARE
//@ const actors/miner/src/lib.rs ERR_BALANCE_INVARIANTS_BROKEN
//@ include units/shared/miner_info.inc
//@ item actors/miner/src/types.rs ReportConsensusFaultParams
//@ item runtime/src/builtin/reward/mod.rs ThisEpochRewardReturn
pub mod ext {
    pub mod reward {
//@ const actors/miner/src/ext.rs THIS_EPOCH_REWARD_METHOD
    }
    pub mod power {
//@ const actors/miner/src/ext.rs UPDATE_PLEDGE_TOTAL_METHOD
    }
    pub mod market {
        use super::super::*;
//@ const actors/miner/src/ext.rs ON_MINER_SECTORS_TERMINATE_METHOD
//@ item actors/miner/src/ext.rs OnMinerSectorsTerminateParams
    }
}
// ---------------- small send helpers ----------------
/// value burnt by this activation: successful plain sends to the burnt-funds actor
pub open spec fn is_burn(s: SendRec) -> bool { s.to == BURNT_FUNDS_ACTOR_ADDR && s.method == METHOD_SEND }
pub open spec fn is_pledge_note(s: SendRec) -> bool { s.to == STORAGE_POWER_ACTOR_ADDR && s.method == ext::power::UPDATE_PLEDGE_TOTAL_METHOD }

//@ fn actors/miner/src/lib.rs burn_funds sub0="log :: debug !=>log_debug !"
    requires !old(rt).in_tx@,
    ensures
        // burns exactly `amount` (one plain send to the burnt-funds actor) or nothing when amount <= 0; fails iff that send fails
        amount@ <= 0 ==> r.is_ok() && *final(rt) == *old(rt),
        amount@ > 0 ==> rt_pushed(old(rt), final(rt)) && rt_frame(old(rt), final(rt)),
        amount@ > 0 ==> is_burn(final(rt).sends@.last()) && final(rt).sends@.last().value == amount@,
        amount@ > 0 ==> final(rt).sends@.last().ok == r.is_ok(),
        amount@ > 0 ==> final(rt).state_id == old(rt).state_id,
        amount@ > 0 && r.is_ok() ==> final(rt).balance@ == old(rt).balance@ - amount@,
        amount@ > 0 && r.is_err() ==> final(rt).balance@ == old(rt).balance@,
//@ end

//@ fn actors/miner/src/lib.rs notify_pledge_changed
    requires !old(rt).in_tx@,
    ensures
        pledge_delta@ == 0 ==> r.is_ok() && *final(rt) == *old(rt),
        pledge_delta@ != 0 ==> rt_frame(old(rt), final(rt)) && final(rt).sends@.len() <= old(rt).sends@.len() + 1,
        pledge_delta@ != 0 && r.is_ok() ==> rt_pushed(old(rt), final(rt)),
        pledge_delta@ != 0 && r.is_ok() ==> is_pledge_note(final(rt).sends@.last()) && final(rt).sends@.last().value == 0 && final(rt).sends@.last().ok,
        pledge_delta@ != 0 && r.is_ok() ==> final(rt).sends@.last().params == Some(IpldBlock { h: cbor_hash(*pledge_delta) }),
//@ end

//@ fn actors/miner/src/lib.rs request_terminate_deals
    requires !old(rt).in_tx@,
    ensures
        // cron context (origin == system actor): the market's failure is swallowed, the miner's callback goes on
        old(rt).msg.origin == SYSTEM_ACTOR_ADDR ==> (r.is_ok() || final(rt).sends@.len() == old(rt).sends@.len()),
        // user context: the error is propagated
        old(rt).msg.origin != SYSTEM_ACTOR_ADDR && final(rt).sends@.len() > old(rt).sends@.len() && !final(rt).sends@.last().ok ==> r.is_err(),
        // no send at all for an empty sector set
        sectors@ =~= vstd::set::Set::<u64>::empty() ==> r.is_ok() && *final(rt) == *old(rt),
        final(rt).sends@.len() <= old(rt).sends@.len() + 1,
        final(rt).tx_log == old(rt).tx_log, final(rt).msg == old(rt).msg,
//@ end

//@ fn actors/miner/src/lib.rs repay_debts_or_abort rt=ref
    ensures
        st_rest_eq(*old(state), *final(state)),
        final(state).pre_commit_deposits == old(state).pre_commit_deposits,
        final(state).initial_pledge == old(state).initial_pledge,
        final(state).locked_funds == old(state).locked_funds,
        final(state).vesting_funds == old(state).vesting_funds,
        // the gate that blocks withdrawals, pre-commits and recovery declarations while in debt
        r.is_ok() <==> (unlocked(*old(state), rt.balance@) >= 0 && unlocked(*old(state), rt.balance@) >= old(state).fee_debt@),
        r.is_ok() ==> r->Ok_0@ == old(state).fee_debt@ && final(state).fee_debt@ == 0,
//@ end

//@ fn actors/miner/src/policy.rs reward_for_consensus_slash_report
    ensures r@ == epoch_reward@ / 20,
//@ end
//@ fn actors/miner/src/monies.rs consensus_fault_penalty
    ensures r@ == floor_div(this_epoch_reward@ * 5, 5),
//@ end
//@ fn actors/miner/src/lib.rs request_current_epoch_block_reward
    requires !old(rt).in_tx@,
    ensures
        rt_pushed(old(rt), final(rt)), rt_frame(old(rt), final(rt)),
        final(rt).sends@.last().value == 0 && final(rt).sends@.last().to == REWARD_ACTOR_ADDR
            && final(rt).sends@.last().method == ext::reward::THIS_EPOCH_REWARD_METHOD,
        r.is_ok() ==> final(rt).sends@.last().ok && r->Ok_0 == deser_spec::<ThisEpochRewardReturn>(final(rt).sends@.last().ret),
        // the reward actor does not call back (explicit assumption of the caller): state and balance are as before
        rt_no_reentry(REWARD_ACTOR_ADDR, ext::reward::THIS_EPOCH_REWARD_METHOD) ==> final(rt).state_id == old(rt).state_id && final(rt).balance == old(rt).balance,
//@ end
//@ fn actors/miner/src/lib.rs balance_invariants_broken
    ensures r.code == 1000,
//@ end

// ---------------- report_consensus_fault: transaction closure ----------------
//@ fn actors/miner/src/lib.rs Actor::report_consensus_fault closure=0 as=rcf_tx0 params="st: &mut State, rt: &Rt, fault: &ConsensusFault, fault_penalty: &TokenAmount, slasher_reward: &TokenAmount, pledge_delta: &mut TokenAmount" retty="Result<(TokenAmount, TokenAmount), ActorError>" ret=res derefs=pledge_delta
    requires
        st_wf(*old(st)),
        rt.epoch >= 0, rt_policy().consensus_fault_ineligibility_duration >= 0,
        rt.epoch + rt_policy().consensus_fault_ineligibility_duration <= i64::MAX,
    ensures
        res.is_ok() ==> st_wf(*final(st)),
        // the whole penalty is charged: what is taken now (burn + reporter share) plus what stays as debt
        res.is_ok() ==> old(st).fee_debt@ + fault_penalty@ == res->Ok_0.0@ + res->Ok_0.1@ + final(st).fee_debt@,
        // "a reporter's reward never exceeds what was actually taken from the miner"
        res.is_ok() ==> res->Ok_0.0@ >= 0 && (slasher_reward@ >= 0 ==> res->Ok_0.1@ >= 0),
        res.is_ok() ==> res->Ok_0.1@ <= slasher_reward@ || slasher_reward@ < 0,
        // what is taken never exceeds the unlocked balance: the miner stays solvent after paying it out
        res.is_ok() ==> res->Ok_0.0@ + res->Ok_0.1@ <= unlocked(*final(st), rt.balance@),
        // vesting funds unlocked to pay are reported through pledge_delta
        res.is_ok() ==> final(pledge_delta)@ - old(pledge_delta)@ == final(st).locked_funds@ - old(st).locked_funds@,
        res.is_ok() ==> final(st).initial_pledge@ == old(st).initial_pledge@,
        res.is_ok() ==> final(st).pre_commit_deposits@ == old(st).pre_commit_deposits@,
        res.is_ok() ==> fault_penalty@ >= 0,
//@ end

// ---------------- report_consensus_fault: whole method ----------------
pub open spec fn ok_value(s: SendRec) -> int { if s.ok { s.value } else { 0 } }
/// the consensus-fault penalty as a function of the reward actor's answer (first send of the method)
pub open spec fn rcf_penalty(q: SendRec) -> int {
    floor_div(estimate_spec(deser_spec::<ThisEpochRewardReturn>(q.ret).this_epoch_reward_smoothed) * 5, 5)
}

//@ fn actors/miner/src/lib.rs Actor::report_consensus_fault free tx0="State;rcf_tx0;&mut __vx_st, rt, &fault, &fault_penalty, &slasher_reward, &mut pledge_delta"
    requires
        !old(rt).in_tx@,
        old(rt).sends@.len() == 0,
        old(rt).tx_log@.len() == 0,
        old(rt).epoch >= 0, rt_policy().consensus_fault_ineligibility_duration >= 0,
        old(rt).epoch + rt_policy().consensus_fault_ineligibility_duration <= i64::MAX,
        st_wf(rt_state::<State>(old(rt).state_id@)),
        // explicit assumption: the reward actor's ThisEpochReward query does not call back into this miner
        rt_no_reentry(REWARD_ACTOR_ADDR, ext::reward::THIS_EPOCH_REWARD_METHOD),
    ensures
        /*C11*/ r.is_ok() ==> final(rt).validated@.is_some(),
        r.is_ok() ==> final(rt).tx_log@.len() == 1 && final(rt).sends@.len() >= 2,
        // sends: [query reward actor] [pay reporter] [burn?] [notify power?]
        r.is_ok() ==> final(rt).sends@[0].to == REWARD_ACTOR_ADDR && final(rt).sends@[0].value == 0,
        r.is_ok() ==> final(rt).sends@[1].to == old(rt).msg.caller && final(rt).sends@[1].method == METHOD_SEND,
        // C15: "every charged amount is either burnt at once or recorded as fee debt ... never flows to the miner":
        //      penalty + old debt == burnt + actually paid to the reporter + remaining debt
        r.is_ok() ==> ({
            let st0 = rt_state::<State>(old(rt).state_id@);
            let st1 = rt_state::<State>(final(rt).tx_log@[0]);
            let s = final(rt).sends@;
            let penalty = rcf_penalty(s[0]);
            let burnt = if s.len() >= 3 && is_burn(s[2]) { ok_value(s[2]) } else { 0 };
            st0.fee_debt@ + penalty == burnt + ok_value(s[1]) + st1.fee_debt@
        }),
        // C15: the reporter is never paid more than was taken from the miner for this fault
        r.is_ok() ==> ({
            let st0 = rt_state::<State>(old(rt).state_id@);
            let st1 = rt_state::<State>(final(rt).tx_log@[0]);
            ok_value(final(rt).sends@[1]) <= st0.fee_debt@ + rcf_penalty(final(rt).sends@[0]) - st1.fee_debt@
        }),
        // C03: the power actor is told exactly how much the miner's vesting + pledge total changed
        r.is_ok() ==> ({
            let st0 = rt_state::<State>(old(rt).state_id@);
            let st1 = rt_state::<State>(final(rt).tx_log@[0]);
            let s = final(rt).sends@;
            let delta = (st1.locked_funds@ + st1.initial_pledge@) - (st0.locked_funds@ + st0.initial_pledge@);
            delta != 0 ==> is_pledge_note(s.last()) && s.last().ok
                && exists|d: TokenAmount| s.last().params == Some(IpldBlock { h: #[trigger] cbor_hash(d) }) && d@ == delta
        }),
//@ end

// ---------------- withdraw_balance (C14, C01, C03): transaction closure ----------------
//@ item actors/miner/src/types.rs WithdrawBalanceParams
//@ item actors/miner/src/types.rs WithdrawBalanceReturn
//@ fn actors/miner/src/beneficiary.rs BeneficiaryTerm::available
    ensures
        // quota left while the term is active, nothing once it has expired
        r@ == (if self.expiration > cur { if self.quota@ - self.used_quota@ > 0 { self.quota@ - self.used_quota@ } else { 0 } } else { 0 }),
//@ end
pub open spec fn imin(a: int, b: int) -> int { if a <= b { a } else { b } }
/// what a withdrawal may pay: "at most the balance minus vesting funds, pre-commit deposits, initial pledge and fee debt",
/// capped by the request and — for a beneficiary other than the owner — by the unexpired remaining quota
pub open spec fn wd_amount(st_after_vesting: State, balance: int, requested: int, info: MinerInfo, epoch: int) -> int {
    let avail = unlocked(st_after_vesting, balance) - st_after_vesting.fee_debt@;
    let a = imin(avail, requested);
    if info.beneficiary != info.owner { imin(a, info.beneficiary_term.quota@ - info.beneficiary_term.used_quota@) } else { a }
}
//@ fn actors/miner/src/lib.rs Actor::withdraw_balance closure=0 as=wd_tx0 params="state: &mut State, rt: &mut Rt, params: &WithdrawBalanceParams" retty="Result<(MinerInfo, TokenAmount, TokenAmount, TokenAmount, State), ActorError>" ret=res
    requires
        st_wf(*old(state)), old(rt).validated@.is_none(),
    ensures
        *final(rt) == (Rt { validated: final(rt).validated, ..*old(rt) }),
        /*C11*/ res.is_ok() ==> final(rt).validated@.is_some(),
        res.is_ok() ==> info_of(*old(state)).is_some() && ({
            let i0 = info_of(*old(state))->Some_0;
            let (info, amount, newly_vested, fee, st_copy) = res->Ok_0;
            let vested = vf_sum_before(old(state).vesting_funds@, old(rt).epoch as int);
            &&& st_wf(*final(state)) && st_copy == *final(state)
            // "only at the request of owner or beneficiary"
            &&& /*C11*/ (old(rt).msg.caller == i0.owner || old(rt).msg.caller == i0.beneficiary)
            // "never while early terminations are unprocessed"
            &&& old(state).early_terminations@ =~= vstd::set::Set::<u64>::empty()
            // vesting: exactly what has vested by now unlocks; nothing else moves the locked total
            &&& newly_vested@ == vested && final(state).locked_funds@ == old(state).locked_funds@ - vested
            &&& final(state).pre_commit_deposits == old(state).pre_commit_deposits && final(state).initial_pledge == old(state).initial_pledge
            // "any fee debt is repaid in full as part of the same call"
            &&& fee@ == old(state).fee_debt@ && final(state).fee_debt@ == 0
            // the amount: min(available, requested [, remaining quota]) and never negative
            &&& amount@ == wd_amount(State { locked_funds: final(state).locked_funds, ..*old(state) }, old(rt).balance@, params.amount_requested@, i0, old(rt).epoch as int)
            &&& amount@ >= 0
            // after paying `amount` and burning `fee` the miner still covers vesting funds, deposits and pledge (C01)
            &&& amount@ + fee@ <= unlocked(*final(state), old(rt).balance@)
            // "within the beneficiary's quota and expiry"
            &&& (i0.beneficiary != i0.owner ==> i0.beneficiary_term.expiration > old(rt).epoch && i0.beneficiary_term.quota@ - i0.beneficiary_term.used_quota@ > 0
                    && amount@ <= i0.beneficiary_term.quota@ - i0.beneficiary_term.used_quota@)
            // the quota actually used is recorded
            &&& info.owner == i0.owner && info.beneficiary == i0.beneficiary
            &&& info.beneficiary_term.used_quota@ == i0.beneficiary_term.used_quota@ + (if i0.beneficiary != i0.owner { amount@ } else { 0 })
            &&& (i0.beneficiary != i0.owner && amount@ > 0 ==> info_of(*final(state)) == Some(info))
            &&& (!(i0.beneficiary != i0.owner && amount@ > 0) ==> final(state).info == old(state).info)
        }),
//@ end

// ---------------- withdraw_balance: whole method ----------------
//@ fn actors/miner/src/lib.rs Actor::withdraw_balance free tx0="State;wd_tx0;&mut __vx_st, rt, &params"
    requires
        !old(rt).in_tx@, old(rt).sends@.len() == 0, old(rt).tx_log@.len() == 0, old(rt).validated@.is_none(),
        st_wf(rt_state::<State>(old(rt).state_id@)),
    ensures
        /*C11*/ r.is_ok() ==> final(rt).validated@.is_some(),
        r.is_ok() ==> final(rt).tx_log@.len() == 1 && ({
            let st0 = rt_state::<State>(old(rt).state_id@);
            let st1 = rt_state::<State>(final(rt).tx_log@[0]);
            let i0 = info_of(st0)->Some_0;
            let s = final(rt).sends@;
            let amount = r->Ok_0.amount_withdrawn@;
            let fee = st0.fee_debt@;
            let vested = vf_sum_before(st0.vesting_funds@, old(rt).epoch as int);
            let k0: int = if amount > 0 { 1 } else { 0 };
            let k1: int = if fee > 0 { 1 } else { 0 };
            let k2: int = if vested != 0 { 1 } else { 0 };
            &&& info_of(st0).is_some()
            &&& (old(rt).msg.caller == i0.owner || old(rt).msg.caller == i0.beneficiary)
            &&& params.amount_requested@ >= 0
            &&& amount == wd_amount(State { locked_funds: st1.locked_funds, ..st0 }, old(rt).balance@, params.amount_requested@, i0, old(rt).epoch as int)
            &&& amount >= 0 && st1.fee_debt@ == 0 && st1.locked_funds@ == st0.locked_funds@ - vested
            // exactly these messages leave the actor, in this order: pay the beneficiary, burn the repaid debt, tell the power actor what vested
            &&& s.len() == k0 + k1 + k2
            // "only to the beneficiary"
            &&& (amount > 0 ==> s[0].to == i0.beneficiary && s[0].method == METHOD_SEND && s[0].value == amount && s[0].ok)
            &&& (fee > 0 ==> is_burn(s[k0]) && s[k0].value == fee && s[k0].ok)
            &&& (vested != 0 ==> is_pledge_note(s[k0 + k1]) && s[k0 + k1].value == 0 && s[k0 + k1].ok
                    && exists|d: TokenAmount| s[k0 + k1].params == Some(IpldBlock { h: #[trigger] cbor_hash(d) }) && d@ == -vested)
        }),
//@ end

} // verus!
fn main() {}
