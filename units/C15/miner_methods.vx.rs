// unit: miner actor methods that charge, burn and notify (C15, C03, C05, C01)
//@ include prelude/core.rs
//@ include prelude/ipld.rs
//@ include prelude/bitfield.rs
//@ include prelude/rt.rs
//@ include prelude/singletons.rs
//@ include prelude/policy.rs
//@ include prelude/cbor.rs
verus! {
//@ item actors/miner/src/policy.rs VestSpec
//@ item runtime/src/builtin/reward/smooth/alpha_beta_filter.rs FilterEstimate
}
//@ include prelude/miner_vesting.rs
//@ include prelude/miner_ext.rs
use std::cmp;
macro_rules! log_debug { ($($t:tt)*) => { () } }
verus! {

//@ include units/shared/miner_funds.inc

//@ include units/shared/miner_methods.inc
} // verus!
fn main() {}
