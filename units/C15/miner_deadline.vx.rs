// unit: miner deadline cron step — State::advance_deadline and the deadline-index arithmetic it rests on (C15, C04, C03)
//@ include prelude/core.rs
//@ include prelude/ipld.rs
//@ include prelude/bitfield.rs
//@ include prelude/rt.rs
//@ include prelude/policy.rs
//@ include prelude/cbor.rs
verus! {
//@ item actors/miner/src/policy.rs VestSpec
}
//@ include prelude/miner_vesting.rs
use std::cmp;
use std::ops;
verus! {

//@ include units/shared/miner_funds.inc
//@ include units/shared/miner_deadline.inc
} // verus!
fn main() {}
