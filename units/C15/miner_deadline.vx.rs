// unit: miner deadline cron step — State::advance_deadline and the deadline-index arithmetic it rests on (C15, C04, C03)
//@ include prelude/core.rs
//@ include prelude/ipld.rs
//@ include prelude/bitfield.rs
//@ include prelude/rt.rs
//@ include prelude/policy.rs
//@ include prelude/cbor.rs
verus! {
//@ item actors/miner/src/policy.rs VestSpec
}
//@ include prelude/miner_vesting.rs
use std::cmp;
use std::ops;
verus! {

//@ include units/shared/miner_funds.inc
//@ item actors/miner/src/partition_state.rs PowerPair
//@ include units/shared/power_pair.inc
//@ item actors/miner/src/quantize.rs QuantSpec attr="#[derive(Clone, Copy)]"
//@ item actors/miner/src/deadline_info.rs DeadlineInfo attr="#[derive(Clone, Copy)]"
//@ item actors/miner/src/deadline_state.rs Deadlines
//@ item actors/miner/src/deadline_state.rs Deadline
//@ item actors/miner/src/expiration_queue.rs ExpirationSet
//@ item actors/miner/src/state.rs AdvanceDeadlineResult
//@ include prelude/miner_deadline_assumed.rs
impl CborVal for Deadline { type Base = Deadline; open spec fn base(&self) -> Deadline { *self } }
impl CborVal for Deadlines { type Base = Deadlines; open spec fn base(&self) -> Deadlines { *self } }

// ======================= deadline arithmetic (real code; spec twins over vstd's rust_rem/rust_div = Rust's truncating % and /) =======================
use vstd::arithmetic::div_mod::{rust_rem, rust_div};
pub open spec fn quantize_up_spec(q: QuantSpec, epoch: int) -> int {
    let offset = rust_rem(q.offset as int, q.unit as int);
    let remainder = rust_rem(epoch - offset, q.unit as int);
    let quotient = rust_div(epoch - offset, q.unit as int);
    if remainder == 0 || epoch - offset < 0 { q.unit * quotient + offset } else { q.unit * (quotient + 1) + offset }
}
pub open spec fn quantize_down_spec(q: QuantSpec, epoch: int) -> int {
    let next = quantize_up_spec(q, epoch);
    if epoch == next { next } else { next - q.unit }
}


pub proof fn lemma_trunc(x: int, u: int)
    requires u > 0
    ensures
        x >= 0 ==> x - u < u * rust_div(x, u) <= x,
        x < 0 ==> x <= u * rust_div(x, u) < x + u,
        rust_rem(x, u) == x - u * rust_div(x, u),
        -u < rust_rem(x, u) < u,
        u * (rust_div(x, u) + 1) == u * rust_div(x, u) + u,
{
    if x >= 0 {
        vstd::arithmetic::div_mod::lemma_fundamental_div_mod(x, u);
        vstd::arithmetic::div_mod::lemma_mod_bound(x, u);
    } else {
        vstd::arithmetic::div_mod::lemma_fundamental_div_mod(-x, u);
        vstd::arithmetic::div_mod::lemma_mod_bound(-x, u);
        assert(u * -((-x) / u) == -(u * ((-x) / u))) by (nonlinear_arith);
    }
    assert(u * (rust_div(x, u) + 1) == u * rust_div(x, u) + u) by (nonlinear_arith);
}
/// quantize_up rounds up to the next point of the lattice offset + k*unit: result in [epoch, epoch + unit)
pub proof fn lemma_quantize_up_range(q: QuantSpec, epoch: int)
    requires q.unit > 0
    ensures epoch <= quantize_up_spec(q, epoch) < epoch + q.unit
{
    let off = rust_rem(q.offset as int, q.unit as int);
    lemma_trunc(q.offset as int, q.unit as int);
    lemma_trunc(epoch - off, q.unit as int);
}
pub open spec fn small(x: int) -> bool { -0x1000_0000_0000_0000 < x < 0x1000_0000_0000_0000 }
//@ fn actors/miner/src/quantize.rs QuantSpec::quantize_up ops=keep
    requires self.unit > 0, small(epoch as int), small(self.offset as int), small(self.unit as int),
    ensures r == quantize_up_spec(*self, epoch as int), epoch <= r < epoch + self.unit,
//@ entry
        proof {
            let off = rust_rem(self.offset as int, self.unit as int);
            lemma_trunc(self.offset as int, self.unit as int);
            lemma_trunc(epoch - off, self.unit as int);
        }
//@ end
//@ fn actors/miner/src/quantize.rs QuantSpec::quantize_down ops=keep
    requires self.unit > 0, small(epoch as int), small(self.offset as int), small(self.unit as int),
    ensures r == quantize_down_spec(*self, epoch as int), epoch - self.unit < r <= epoch,
//@ end

// ======================= DeadlineInfo (real deadline_info.rs / deadlines.rs) =======================
/// the proving-period geometry of the network policy: `wpost_period_deadlines` windows of `wpost_challenge_window` epochs tile the period
pub open spec fn pol_ok(p: Policy) -> bool {
    &&& 0 < p.wpost_period_deadlines <= 0x1_0000
    &&& 0 < p.wpost_challenge_window <= 0x1_0000_0000
    &&& p.wpost_proving_period == p.wpost_period_deadlines * p.wpost_challenge_window
    &&& 0 <= p.wpost_challenge_lookback <= 0x1_0000_0000
    &&& 0 <= p.fault_declaration_cutoff <= 0x1_0000_0000
    &&& 0 <= p.fault_max_age <= 0x1_0000_0000_0000
}
pub open spec fn di_of(p: Policy, period_start: ChainEpoch, idx: u64, cur: ChainEpoch) -> DeadlineInfo {
    if idx < p.wpost_period_deadlines {
        let open = (period_start + idx * p.wpost_challenge_window) as ChainEpoch;
        DeadlineInfo { current_epoch: cur, period_start, index: idx, open, close: (open + p.wpost_challenge_window) as ChainEpoch,
            challenge: (open - p.wpost_challenge_lookback) as ChainEpoch, fault_cutoff: (open - p.fault_declaration_cutoff) as ChainEpoch,
            w_post_period_deadlines: p.wpost_period_deadlines, w_post_proving_period: p.wpost_proving_period, w_post_challenge_window: p.wpost_challenge_window,
            w_post_challenge_lookback: p.wpost_challenge_lookback, fault_declaration_cutoff: p.fault_declaration_cutoff }
    } else {
        let after = (period_start + p.wpost_proving_period) as ChainEpoch;
        DeadlineInfo { current_epoch: cur, period_start, index: idx, open: after, close: after, challenge: after, fault_cutoff: 0,
            w_post_period_deadlines: p.wpost_period_deadlines, w_post_proving_period: p.wpost_proving_period, w_post_challenge_window: p.wpost_challenge_window,
            w_post_challenge_lookback: p.wpost_challenge_lookback, fault_declaration_cutoff: p.fault_declaration_cutoff }
    }
}
/// the deadline the cron is at, computed from the period offset and the current epoch alone
pub open spec fn di_at(p: Policy, seed: ChainEpoch, cur: ChainEpoch) -> DeadlineInfo {
    let ps = quantize_down_spec(QuantSpec { unit: p.wpost_proving_period, offset: seed }, cur as int);
    di_of(p, ps as ChainEpoch, rust_div(cur - ps, p.wpost_challenge_window as int) as u64, cur)
}
pub proof fn lemma_pol(p: Policy)
    requires pol_ok(p)
    ensures 0 < p.wpost_proving_period <= 0x1_0000_0000_0000, p.wpost_proving_period == p.wpost_challenge_window * p.wpost_period_deadlines
{
    assert(0 < p.wpost_period_deadlines * p.wpost_challenge_window <= 0x1_0000 * 0x1_0000_0000) by (nonlinear_arith)
        requires 0 < p.wpost_period_deadlines <= 0x1_0000, 0 < p.wpost_challenge_window <= 0x1_0000_0000;
    assert(p.wpost_period_deadlines * p.wpost_challenge_window == p.wpost_challenge_window * p.wpost_period_deadlines) by (nonlinear_arith);
}
pub proof fn lemma_idx(d: int, w: int, n: int)
    requires 0 <= d < n * w, w > 0, n > 0
    ensures 0 <= rust_div(d, w) < n, w * rust_div(d, w) <= d < w * rust_div(d, w) + w, 0 <= rust_div(d, w) * w <= d, rust_div(d, w) * w == w * rust_div(d, w)
{
    lemma_trunc(d, w);
    assert(rust_div(d, w) < n) by (nonlinear_arith) requires w * rust_div(d, w) <= d, d < n * w, w > 0;
    assert(rust_div(d, w) >= 0) by (nonlinear_arith) requires d - w < w * rust_div(d, w), d >= 0, w > 0;
    assert(rust_div(d, w) * w == w * rust_div(d, w)) by (nonlinear_arith);
}

//@ fn actors/miner/src/deadline_info.rs DeadlineInfo::new ops=keep
    requires
        small(period_start as int), deadline_idx <= 0x1_0000, 0 <= w_post_challenge_window <= 0x1_0000_0000, 0 <= w_post_challenge_lookback <= 0x1_0000_0000,
        0 <= fault_declaration_cutoff <= 0x1_0000_0000, 0 <= w_post_proving_period <= 0x1_0000_0000_0000,
    ensures
        r == di_of(Policy { wpost_period_deadlines: w_post_period_deadlines, wpost_proving_period: w_post_proving_period, wpost_challenge_window: w_post_challenge_window,
            wpost_challenge_lookback: w_post_challenge_lookback, fault_declaration_cutoff: fault_declaration_cutoff, ..rt_policy() }, period_start, deadline_idx, current_epoch),
//@ entry
        proof { assert(0 <= deadline_idx as int * w_post_challenge_window as int <= 0x1_0000 * 0x1_0000_0000) by (nonlinear_arith)
            requires 0 <= deadline_idx <= 0x1_0000, 0 <= w_post_challenge_window <= 0x1_0000_0000; }
//@ end
//@ fn actors/miner/src/deadline_info.rs DeadlineInfo::period_started ops=keep
    ensures r == (self.current_epoch >= self.period_start),
//@ end
//@ fn actors/miner/src/deadline_info.rs DeadlineInfo::last ops=keep
    requires self.close > i64::MIN,
    ensures r == self.close - 1,
//@ end
//@ fn actors/miner/src/deadlines.rs new_deadline_info ops=keep
    requires pol_ok(*policy), small(proving_period_start as int), deadline_idx <= 0x1_0000,
    ensures r == di_of(*policy, proving_period_start, deadline_idx, current_epoch),
//@ entry
        proof { lemma_pol(*policy); }
//@ end
//@ fn actors/miner/src/deadlines.rs new_deadline_info_from_offset_and_epoch ops=keep
    requires pol_ok(*policy), small(period_start_seed as int), 0 <= current_epoch < 0x1000_0000_0000_0000,
    ensures
        r == di_at(*policy, period_start_seed, current_epoch),
        // the proving period and the deadline window found contain the current epoch; the index is a valid deadline
        r.index < policy.wpost_period_deadlines,
        r.period_start <= current_epoch < r.period_start + policy.wpost_proving_period,
        r.open <= current_epoch < r.close, r.close == r.open + policy.wpost_challenge_window,
        r.open == r.period_start + r.index * policy.wpost_challenge_window,
//@ entry
        proof { lemma_pol(*policy); }
//@ after "let current_period_start"
        proof { lemma_idx(current_epoch - current_period_start, policy.wpost_challenge_window as int, policy.wpost_period_deadlines as int); }
//@ end
//@ fn actors/miner/src/deadlines.rs quant_spec_for_deadline ops=keep
    requires di.close > i64::MIN,
    ensures r.unit == policy.wpost_proving_period, r.offset == di.close - 1,
//@ end
//@ fn actors/miner/src/state.rs State::deadline_info ops=keep
    requires pol_ok(*policy), small(self.proving_period_start as int), 0 <= current_epoch < 0x1000_0000_0000_0000,
    ensures
        r == di_at(*policy, self.proving_period_start, current_epoch),
        r.index < policy.wpost_period_deadlines,
        r.period_start <= current_epoch < r.period_start + policy.wpost_proving_period,
        r.open <= current_epoch < r.close, r.close == r.open + policy.wpost_challenge_window,
//@ end

/// frame of save_deadlines: only the `deadlines` root moves
pub open spec fn st_rest_but_deadlines(a: State, b: State) -> bool {
    &&& a.info == b.info && a.pre_committed_sectors == b.pre_committed_sectors && a.pre_committed_sectors_cleanup == b.pre_committed_sectors_cleanup
    &&& a.allocated_sectors == b.allocated_sectors && a.sectors == b.sectors && a.proving_period_start == b.proving_period_start
    &&& a.current_deadline == b.current_deadline && a.early_terminations == b.early_terminations && a.deadline_cron_active == b.deadline_cron_active
    &&& a.pre_commit_deposits == b.pre_commit_deposits && a.locked_funds == b.locked_funds && a.vesting_funds == b.vesting_funds
    &&& a.fee_debt == b.fee_debt && a.initial_pledge == b.initial_pledge
}

// ======================= Deadlines container / persistence (real deadline_state.rs, state.rs) =======================
pub open spec fn deadlines_of(s: State) -> Option<Deadlines> { cbor_decode::<Deadlines>(s.deadlines) }
pub open spec fn deadline_at(ds: Deadlines, idx: int) -> Option<Deadline> {
    if 0 <= idx < ds.due@.len() { cbor_decode::<Deadline>(ds.due@[idx]) } else { None }
}
//@ fn actors/miner/src/deadline_state.rs Deadline::validate_state ops=keep
    ensures r.is_ok() <==> self.live_sectors <= self.total_sectors && self.faulty_power.raw@ >= 0 && self.faulty_power.qa@ >= 0,
//@ end
//@ fn actors/miner/src/deadline_state.rs Deadline::is_live ops=keep
    ensures r == (self.live_sectors > 0 || !(self.partitions_posted@ =~= vstd::set::Set::<u64>::empty())
        || self.partitions != self.partitions_snapshot || self.optimistic_post_submissions != self.optimistic_post_submissions_snapshot),
//@ end
//@ fn actors/miner/src/deadline_state.rs Deadlines::load_deadline
    requires idx < 0x1_0000_0000,       // `idx as usize` is lossless on every target (callers pass validated deadline indices)
    ensures
        r.is_ok() ==> deadline_at(*self, idx as int) == Some(r->Ok_0),
        deadline_at(*self, idx as int).is_none() ==> r.is_err(),
//@ end
//@ fn actors/miner/src/deadline_state.rs Deadlines::update_deadline
    requires old(self).due@.len() == policy.wpost_period_deadlines, policy.wpost_period_deadlines <= 0x1_0000,   // representation invariant set up by Deadlines::new
    ensures
        r.is_ok() ==> deadline_idx < policy.wpost_period_deadlines && deadline_idx < old(self).due@.len()
            && final(self).due@.len() == old(self).due@.len()
            && deadline_at(*final(self), deadline_idx as int) == Some(*deadline)
            && (forall|i: int| 0 <= i < old(self).due@.len() && i != deadline_idx ==> final(self).due@[i] == old(self).due@[i]),
        r.is_err() ==> final(self).due@ == old(self).due@,
//@ end
//@ fn actors/miner/src/state.rs State::load_deadlines
    ensures r.is_ok() ==> deadlines_of(*self) == Some(r->Ok_0), deadlines_of(*self).is_none() ==> r.is_err(),
//@ end
//@ fn actors/miner/src/state.rs State::save_deadlines
    ensures
        st_rest_but_deadlines(*old(self), *final(self)),
        r.is_ok() ==> deadlines_of(*final(self)) == Some(deadlines),
        r.is_err() ==> final(self).deadlines == old(self).deadlines,
//@ end

// ======================= the deadline cron step (real state.rs State::advance_deadline) =======================
pub open spec fn dl_live(d: Deadline) -> bool {
    d.live_sectors > 0 || !(d.partitions_posted@ =~= vstd::set::Set::<u64>::empty())
        || d.partitions != d.partitions_snapshot || d.optimistic_post_submissions != d.optimistic_post_submissions_snapshot
}
pub open spec fn money_eq_but_pledge(a: State, b: State) -> bool {
    a.pre_commit_deposits == b.pre_commit_deposits && a.locked_funds == b.locked_funds && a.vesting_funds == b.vesting_funds && a.fee_debt == b.fee_debt
}
pub open spec fn ids_eq(a: State, b: State) -> bool {
    a.info == b.info && a.pre_committed_sectors == b.pre_committed_sectors && a.pre_committed_sectors_cleanup == b.pre_committed_sectors_cleanup
        && a.allocated_sectors == b.allocated_sectors && a.sectors == b.sectors && a.deadline_cron_active == b.deadline_cron_active
}
//@ fn actors/miner/src/state.rs State::advance_deadline
    requires
        pol_ok(*policy), small(old(self).proving_period_start as int), 0 <= current_epoch < 0x1000_0000_0000_0000,
        // representation invariant of the deadlines table (Deadlines::new)
        deadlines_of(*old(self)).is_some() ==> deadlines_of(*old(self))->Some_0.due@.len() == policy.wpost_period_deadlines,
    ensures
        ids_eq(*old(self), *final(self)), money_eq_but_pledge(*old(self), *final(self)),
        r.is_ok() ==> ({
            let di = di_at(*policy, old(self).proving_period_start, current_epoch);
            let ds0 = deadlines_of(*old(self))->Some_0;
            let d0 = deadline_at(ds0, di.index as int)->Some_0;
            let quant = QuantSpec { unit: policy.wpost_proving_period, offset: (di.close - 1) as ChainEpoch };
            let fexp = (di.close - 1 + policy.fault_max_age) as ChainEpoch;
            let d1 = dl_end_deadline(d0, quant, fexp, old(self).sectors);
            let d2 = dl_pop_deadline(d1, (di.close - 1) as ChainEpoch, quant);
            let exp = dl_pop_set(d1, (di.close - 1) as ChainEpoch, quant);
            // the deadline processed is the one whose window contains the current epoch ...
            &&& di.index < policy.wpost_period_deadlines && di.open <= current_epoch < di.close
            // ... and the cursor moves to the next one, rolling the proving period over after the last
            &&& final(self).current_deadline == (di.index + 1) % (policy.wpost_period_deadlines as int)
            &&& final(self).proving_period_start == (if (di.index + 1) % (policy.wpost_period_deadlines as int) == 0 { di.period_start + policy.wpost_proving_period } else { old(self).proving_period_start as int })
            &&& deadlines_of(*old(self)).is_some() && deadline_at(ds0, di.index as int).is_some()
            // a dead deadline: nothing else happens
            &&& (!dl_live(d0) ==> final(self).early_terminations == old(self).early_terminations && final(self).deadlines == old(self).deadlines
                    && final(self).initial_pledge == old(self).initial_pledge && r->Ok_0.pledge_delta@ == 0
                    && r->Ok_0.power_delta.raw@ == 0 && r->Ok_0.power_delta.qa@ == 0)
            &&& (dl_live(d0) ==> {
                // "every early-terminated sector is charged": sectors the cron expires early flag THIS deadline for process_early_terminations
                &&& final(self).early_terminations@ == (if exp.early_sectors@ =~= vstd::set::Set::<u64>::empty() { old(self).early_terminations@ } else { old(self).early_terminations@.insert(di.index) })
                // pledge of on-time expirations is released, exactly; early ones keep theirs until the fee is assessed
                &&& r->Ok_0.pledge_delta@ == -exp.on_time_pledge@
                &&& final(self).initial_pledge@ == old(self).initial_pledge@ - exp.on_time_pledge@
                // power: what process_deadline_end reported minus the active power that expired
                &&& r->Ok_0.power_delta.raw@ == dl_end_power_delta(d0, quant, fexp, old(self).sectors).raw@ - exp.active_power.raw@
                &&& r->Ok_0.power_delta.qa@ == dl_end_power_delta(d0, quant, fexp, old(self).sectors).qa@ - exp.active_power.qa@
                // exactly that deadline is written back, with the value the two operations produced
                &&& deadlines_of(*final(self)).is_some() && ({
                    let ds1 = deadlines_of(*final(self))->Some_0;
                    ds1.due@.len() == ds0.due@.len() && deadline_at(ds1, di.index as int) == Some(d2)
                        && (forall|i: int| 0 <= i < ds0.due@.len() && i != di.index ==> ds1.due@[i] == ds0.due@[i])
                })
            })
        }),
//@ entry
        proof { lemma_pol(*policy); }
//@ end

} // verus!
fn main() {}
