// unit: miner State::pop_early_terminations — a deadline leaves the miner-level early-termination index only when it has nothing queued any more (C15, C05)
//@ include prelude/core.rs
//@ include prelude/ipld.rs
//@ include prelude/bitfield.rs
//@ include prelude/rt.rs
//@ include prelude/singletons.rs
//@ include prelude/policy.rs
verus! {
//@ include prelude/miner_pop_et_assumed.rs

//@ fn actors/miner/src/termination.rs TerminationResult::below_limit ops=keep
    ensures r == (self.partitions_processed < partition_limit && self.sectors_processed < sector_limit),
//@ end

/// what a run of the function leaves behind
pub open spec fn popet_post(s0: State, s1: State, more: bool) -> bool {
    let d1 = dls_of(s1.deadlines);
    // nothing but the index and the deadlines root is written
    &&& s1.rest == s0.rest
    // no deadline is ADDED to the index, and "has more" is exactly "the index is not empty"
    &&& s1.early_terminations@.subset_of(s0.early_terminations@)
    &&& more == !(s1.early_terminations@ =~= Set::<u64>::empty())
    // C15 "every early-terminated sector is charged": a deadline leaves the index ONLY if, as stored, it has no early termination queued any
    // more — otherwise its remaining terminated sectors would never be popped, charged or block withdrawals
    &&& forall|k: u64| s0.early_terminations@.contains(k) && !s1.early_terminations@.contains(k) ==> !#[trigger] dl_et_pending(dls_load(d1, k))
}
//@ fn actors/miner/src/state.rs State::pop_early_terminations ret=res r19=0,1 sub3="Default :: default ()=>TerminationResult::default()" sub4="unset (deadline_idx)=>unset (* deadline_idx)" sub0="result += deadline_result ;=>result.vx_add_assign(deadline_result);" sub1="let deadline_idx = i ;=>let deadline_idx = * i ;" sub2="to_unset . push (i) ;=>to_unset . push (* i) ;"
    requires max_partitions >= 1, max_sectors >= 1,
    ensures
        res.is_ok() ==> popet_post(*old(self), *final(self), res->Ok_0.1),
        res.is_ok() ==> res->Ok_0.0.sectors_processed <= max_sectors,
//@ entry
        let ghost s0 = *self;
//@ loop 0
            invariant
                *self == s0, s0 == *old(self), max_partitions >= 1, max_sectors >= 1,
                __vx_i0 <= __vx_v0@.len(), __vx_v0@.to_set() == s0.early_terminations@,
                forall|i: int, j: int| 0 <= i < j < __vx_v0@.len() ==> __vx_v0@[i] < __vx_v0@[j],
                result.partitions_processed < max_partitions, result.sectors_processed < max_sectors,
                // every deadline listed for removal was visited, is in the index, and — as it now stands in `deadlines` — has nothing pending
                forall|t: int| 0 <= t < to_unset@.len() ==> (exists|j: int| 0 <= j < __vx_i0 && __vx_v0@[j] == #[trigger] to_unset@[t])
                    && !dl_et_pending(dls_load(deadlines, to_unset@[t])),
            decreases __vx_v0@.len() - __vx_i0,
//@ loopstart 0
            let ghost dls0 = deadlines;
            let ghost tu0 = to_unset@;
            let ghost n = __vx_i0 as int;
//@ loopend 0
            proof {
                assert forall|t: int| 0 <= t < to_unset@.len() implies (exists|j: int| 0 <= j < n + 1 && __vx_v0@[j] == #[trigger] to_unset@[t])
                        && !dl_et_pending(dls_load(deadlines, to_unset@[t])) by {
                    if t < tu0.len() {
                        assert(to_unset@[t] == tu0[t]);
                        let j = choose|j: int| 0 <= j < n && __vx_v0@[j] == tu0[t];
                        assert(__vx_v0@[j] < __vx_v0@[n]);
                        assert(dls_load(deadlines, tu0[t]) == dls_load(dls0, tu0[t]));
                    } else {
                        assert(to_unset@[t] == __vx_v0@[n]);
                    }
                }
            }
//@ loop 1
            invariant
                __vx_i1 <= __vx_v1@.len(), __vx_v1@ == to_unset@,
                *self == (State { early_terminations: self.early_terminations, ..s0 }),
                self.early_terminations@.subset_of(s0.early_terminations@),
                forall|k: u64| s0.early_terminations@.contains(k) && !self.early_terminations@.contains(k) ==> to_unset@.contains(k),
                forall|t: int| 0 <= t < to_unset@.len() ==> !dl_et_pending(dls_load(deadlines, #[trigger] to_unset@[t])),
            decreases __vx_v1@.len() - __vx_i1,
//@ after "let no_early_terminations"
        proof {
            assert forall|k: u64| s0.early_terminations@.contains(k) && !self.early_terminations@.contains(k) implies !#[trigger] dl_et_pending(dls_load(dls_of(self.deadlines), k)) by {
                assert(to_unset@.contains(k));
                let t = choose|t: int| 0 <= t < to_unset@.len() && to_unset@[t] == k;
                assert(!dl_et_pending(dls_load(deadlines, to_unset@[t])));
            }
        }
//@ end
} // verus!
fn main() {}
