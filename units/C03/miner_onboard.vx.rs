// unit: miner sector onboarding, LEDGER side — pre-commit deposits vs the pre-commit records, initial pledge vs the activated sector infos (C03)
// Every function below is extracted WHOLE from /repo (no R21 region / slice was needed: nothing is dropped). Rewrites used: R3 closure lifting
// (pc_tx0 = PreCommitSectorBatch2, ani_tx0 = activate_new_sector_infos, ts_tx0 = TerminateSectors), R17 (zip loop of ani_tx0), R18, R19 (loops with
// `continue` in find_precommitted_sectors / cleanup_expired_pre_commits) and the token substitutions listed on each directive (iterator adapters ->
// prelude helpers whose body is the original expression: enumerate, chain of caller addresses, Option::cloned, unwrap_or_default; `ext::market::SectorDeals`
// and `super::BitFieldQueue` paths). What is opaque (prelude/miner_onboard_assumed.rs): the deposit / pledge / power / fee formulas and proof-type
// tables (SOME value — the ledger equalities hold for whatever they return), BitFieldQueue (which sector numbers the clean-up queue pops), the
// deadline machinery (assign_sectors_to_deadlines: frame only; Deadline::terminate_sectors), per-sector validation predicates and the queries to
// other actors in the whole PreCommit method.
//@ include prelude/core.rs
//@ include prelude/ipld.rs
//@ include prelude/bitfield.rs
//@ include prelude/rt.rs
//@ include prelude/singletons.rs
//@ include prelude/policy.rs
//@ include prelude/cbor.rs
verus! {
//@ item actors/miner/src/policy.rs VestSpec
//@ item runtime/src/builtin/reward/smooth/alpha_beta_filter.rs FilterEstimate
}
//@ include prelude/miner_vesting.rs
//@ include prelude/miner_ext.rs
use std::cmp;
use std::ops;
macro_rules! log_debug { ($($t:tt)*) => { () } }
verus! {
//@ include units/shared/miner_funds.inc
//@ include units/shared/miner_methods.inc
//@ item actors/miner/src/quantize.rs QuantSpec attr="#[derive(Clone, Copy)]"
//@ item actors/miner/src/commd.rs CompactCommD
//@ item actors/miner/src/types.rs SectorPreCommitInfo
//@ item actors/miner/src/types.rs SectorPreCommitOnChainInfo
pub type DealWeight = BigInt;
/// bitflags! SectorOnChainInfoFlags (types.rs): a u32 of flag bits; SIMPLE_QA_POWER = 0x1
#[derive(Clone, Copy, PartialEq, Eq, Structural)]
pub struct SectorOnChainInfoFlags { pub bits: u32 }
impl SectorOnChainInfoFlags { pub const SIMPLE_QA_POWER: SectorOnChainInfoFlags = SectorOnChainInfoFlags { bits: 1 }; }
//@ item actors/miner/src/types.rs SectorOnChainInfo
//@ include prelude/miner_sector_clone.rs
//@ item actors/miner/src/partition_state.rs PowerPair
//@ include units/shared/power_pair.inc
//@ item actors/miner/src/deadline_state.rs Deadlines
impl CborVal for Deadlines { type Base = Deadlines; open spec fn base(&self) -> Deadlines { *self } }
//@ include prelude/miner_onboard_assumed.rs
pub type PreCommitMap<BS> = Map2<BS, SectorNumber, SectorPreCommitOnChainInfo>;
//@ const actors/miner/src/state.rs PRECOMMIT_CONFIG

// ======================= the abstract view of the pre-commit HAMT and the sums over records =======================
/// the pre-commit table of a miner state: sector number -> on-chain pre-commit record
pub open spec fn pcmap(s: State) -> Map<SectorNumber, SectorPreCommitOnChainInfo> { map2_decode::<SectorNumber, SectorPreCommitOnChainInfo>(s.pre_committed_sectors) }
/// sum of the deposits of the first n records of a sequence
pub open spec fn sum_deposits(recs: Seq<SectorPreCommitOnChainInfo>, n: int) -> int
    decreases n
{ if n <= 0 { 0 } else { sum_deposits(recs, n - 1) + recs[n - 1].pre_commit_deposit@ } }
/// sum of the deposits STORED in table m for the first n sector numbers of ks (a number that has no record counts 0)
pub open spec fn sum_stored(m: Map<SectorNumber, SectorPreCommitOnChainInfo>, ks: Seq<SectorNumber>, n: int) -> int
    decreases n
{ if n <= 0 { 0 } else { sum_stored(m, ks, n - 1) + (if m.dom().contains(ks[n - 1]) { m[ks[n - 1]].pre_commit_deposit@ } else { 0 }) } }
/// m with the first n keys of ks removed
pub open spec fn remove_keys(m: Map<SectorNumber, SectorPreCommitOnChainInfo>, ks: Seq<SectorNumber>, n: int) -> Map<SectorNumber, SectorPreCommitOnChainInfo>
    decreases n
{ if n <= 0 { m } else { remove_keys(m, ks, n - 1).remove(ks[n - 1]) } }
/// m with the first n records inserted under their own sector number
pub open spec fn insert_recs(m: Map<SectorNumber, SectorPreCommitOnChainInfo>, recs: Seq<SectorPreCommitOnChainInfo>, n: int) -> Map<SectorNumber, SectorPreCommitOnChainInfo>
    decreases n
{ if n <= 0 { m } else { insert_recs(m, recs, n - 1).insert(recs[n - 1].info.sector_number, recs[n - 1]) } }
/// the sector numbers of the first n records are pairwise distinct and absent from m
pub open spec fn recs_fresh(m: Map<SectorNumber, SectorPreCommitOnChainInfo>, recs: Seq<SectorPreCommitOnChainInfo>, n: int) -> bool {
    &&& forall|i: int| 0 <= i < n ==> !m.dom().contains((#[trigger] recs[i]).info.sector_number)
    &&& forall|i: int, j: int| 0 <= i < j < n ==> (#[trigger] recs[i]).info.sector_number != (#[trigger] recs[j]).info.sector_number
}

/// some record among the first n carries sector number k
pub open spec fn has_num(recs: Seq<SectorPreCommitOnChainInfo>, n: int, k: SectorNumber) -> bool { exists|i: int| 0 <= i < n && (#[trigger] recs[i]).info.sector_number == k }
pub proof fn lemma_insert_recs_dom(m: Map<SectorNumber, SectorPreCommitOnChainInfo>, recs: Seq<SectorPreCommitOnChainInfo>, n: int)
    requires 0 <= n <= recs.len()
    ensures forall|k: SectorNumber| #[trigger] insert_recs(m, recs, n).dom().contains(k) <==> m.dom().contains(k) || has_num(recs, n, k)
    decreases n
{
    if n > 0 {
        lemma_insert_recs_dom(m, recs, n - 1);
        assert forall|k: SectorNumber| #[trigger] insert_recs(m, recs, n).dom().contains(k) <==> m.dom().contains(k) || has_num(recs, n, k) by {
            assert(insert_recs(m, recs, n).dom().contains(k) <==> k == recs[n - 1].info.sector_number || insert_recs(m, recs, n - 1).dom().contains(k));
            if has_num(recs, n - 1, k) { let i = choose|i: int| 0 <= i < n - 1 && (#[trigger] recs[i]).info.sector_number == k; assert(recs[i].info.sector_number == k); assert(has_num(recs, n, k)); }
            if has_num(recs, n, k) { let i = choose|i: int| 0 <= i < n && (#[trigger] recs[i]).info.sector_number == k; if i < n - 1 { assert(recs[i].info.sector_number == k); assert(has_num(recs, n - 1, k)); } }
            if k == recs[n - 1].info.sector_number { assert(has_num(recs, n, k)); }
        }
    }
}
/// every record written is the record found afterwards under its number; everything else is untouched
pub proof fn lemma_insert_recs_get(m: Map<SectorNumber, SectorPreCommitOnChainInfo>, recs: Seq<SectorPreCommitOnChainInfo>, n: int)
    requires 0 <= n <= recs.len(), recs_fresh(m, recs, n)
    ensures
        forall|i: int| 0 <= i < n ==> insert_recs(m, recs, n).dom().contains((#[trigger] recs[i]).info.sector_number) && insert_recs(m, recs, n)[recs[i].info.sector_number] == recs[i],
        forall|k: SectorNumber| #[trigger] m.dom().contains(k) ==> insert_recs(m, recs, n).dom().contains(k) && insert_recs(m, recs, n)[k] == m[k],
    decreases n
{
    if n > 0 {
        lemma_insert_recs_get(m, recs, n - 1);
        let m1 = insert_recs(m, recs, n - 1);
        let kn = recs[n - 1].info.sector_number;
        assert(insert_recs(m, recs, n) == m1.insert(kn, recs[n - 1]));
        assert forall|i: int| 0 <= i < n implies insert_recs(m, recs, n).dom().contains((#[trigger] recs[i]).info.sector_number) && insert_recs(m, recs, n)[recs[i].info.sector_number] == recs[i] by {
            if i < n - 1 { assert(recs[i].info.sector_number != kn); assert(m1.dom().contains(recs[i].info.sector_number)); }
        }
        assert forall|k: SectorNumber| #[trigger] m.dom().contains(k) implies insert_recs(m, recs, n).dom().contains(k) && insert_recs(m, recs, n)[k] == m[k] by {
            assert(!m.dom().contains(recs[n - 1].info.sector_number));
            assert(k != kn);
            assert(m1.dom().contains(k) && m1[k] == m[k]);
        }
    }
}

/// a key survives the removal of the first n keys iff it was there and is none of them
pub open spec fn is_key(ks: Seq<SectorNumber>, n: int, k: SectorNumber) -> bool { exists|i: int| 0 <= i < n && #[trigger] ks[i] == k }
pub proof fn lemma_remove_keys_dom(m: Map<SectorNumber, SectorPreCommitOnChainInfo>, ks: Seq<SectorNumber>, n: int)
    requires 0 <= n <= ks.len()
    ensures
        forall|k: SectorNumber| #[trigger] remove_keys(m, ks, n).dom().contains(k) <==> m.dom().contains(k) && !is_key(ks, n, k),
        forall|k: SectorNumber| #[trigger] remove_keys(m, ks, n).dom().contains(k) ==> remove_keys(m, ks, n)[k] == m[k],
    decreases n
{
    if n > 0 {
        lemma_remove_keys_dom(m, ks, n - 1);
        let m1 = remove_keys(m, ks, n - 1);
        assert(remove_keys(m, ks, n) == m1.remove(ks[n - 1]));
        assert forall|k: SectorNumber| #[trigger] remove_keys(m, ks, n).dom().contains(k) <==> m.dom().contains(k) && !is_key(ks, n, k) by {
            assert(remove_keys(m, ks, n).dom().contains(k) <==> k != ks[n - 1] && m1.dom().contains(k));
            if is_key(ks, n - 1, k) { let i = choose|i: int| 0 <= i < n - 1 && #[trigger] ks[i] == k; assert(ks[i] == k); assert(is_key(ks, n, k)); }
            if is_key(ks, n, k) { let i = choose|i: int| 0 <= i < n && #[trigger] ks[i] == k; if i < n - 1 { assert(ks[i] == k); assert(is_key(ks, n - 1, k)); } }
            if k == ks[n - 1] { assert(is_key(ks, n, k)); }
        }
        assert forall|k: SectorNumber| #[trigger] remove_keys(m, ks, n).dom().contains(k) implies remove_keys(m, ks, n)[k] == m[k] by {
            assert(m1.dom().contains(k));
        }
    }
}

/// `del` lists exactly those of the first n visited numbers that have a record in m (in order): what cleanup marks for deletion
pub open spec fn kept_keys(m: Map<SectorNumber, SectorPreCommitOnChainInfo>, vis: Seq<SectorNumber>, n: int, del: Seq<SectorNumber>) -> bool {
    &&& remove_keys(m, del, del.len() as int) == remove_keys(m, vis, n)
    &&& forall|j: int| 0 <= j < del.len() ==> m.dom().contains(#[trigger] del[j]) && is_key(vis, n, del[j])
    &&& del.no_duplicates()
}
/// one more visited number: pushed iff it has a record — removing a number without record changes nothing
pub proof fn lemma_kept_push(m: Map<SectorNumber, SectorPreCommitOnChainInfo>, vis: Seq<SectorNumber>, n: int, del: Seq<SectorNumber>)
    requires 0 <= n < vis.len(), vis.no_duplicates(), kept_keys(m, vis, n, del)
    ensures
        m.dom().contains(vis[n]) ==> kept_keys(m, vis, n + 1, del.push(vis[n])),
        !m.dom().contains(vis[n]) ==> kept_keys(m, vis, n + 1, del),
{
    lemma_remove_keys_dom(m, vis, n);
    assert forall|j: int| 0 <= j < del.len() implies is_key(vis, n + 1, #[trigger] del[j]) by {
        let i = choose|i: int| 0 <= i < n && #[trigger] vis[i] == del[j]; assert(vis[i] == del[j]);
    }
    if m.dom().contains(vis[n]) {
        let d2 = del.push(vis[n]);
        assert(d2.drop_last() =~= del);
        lemma_remove_keys_ext(m, d2, del, del.len() as int);
        assert(remove_keys(m, d2, d2.len() as int) == remove_keys(m, d2, del.len() as int).remove(vis[n]));
        assert(is_key(vis, n + 1, vis[n])) by { assert(vis[n] == vis[n]); }
        assert forall|j: int| 0 <= j < d2.len() implies m.dom().contains(#[trigger] d2[j]) && is_key(vis, n + 1, d2[j]) by { if j < del.len() { assert(d2[j] == del[j]); } }
        assert(d2.no_duplicates()) by {
            assert forall|a: int, b: int| 0 <= a < d2.len() && 0 <= b < d2.len() && a != b implies d2[a] != d2[b] by {
                if a == del.len() && b < del.len() { let i = choose|i: int| 0 <= i < n && #[trigger] vis[i] == del[b]; assert(vis[i] != vis[n]); }
                if b == del.len() && a < del.len() { let i = choose|i: int| 0 <= i < n && #[trigger] vis[i] == del[a]; assert(vis[i] != vis[n]); }
            }
        }
    } else {
        assert(!remove_keys(m, vis, n).dom().contains(vis[n]));
        assert(remove_keys(m, vis, n).remove(vis[n]) =~= remove_keys(m, vis, n));
    }
}
/// remove_keys depends only on the first n keys
pub proof fn lemma_remove_keys_ext(m: Map<SectorNumber, SectorPreCommitOnChainInfo>, a: Seq<SectorNumber>, b: Seq<SectorNumber>, n: int)
    requires 0 <= n <= a.len(), n <= b.len(), forall|i: int| 0 <= i < n ==> a[i] == b[i]
    ensures remove_keys(m, a, n) == remove_keys(m, b, n)
    decreases n
{ if n > 0 { lemma_remove_keys_ext(m, a, b, n - 1); } }
/// at the end of the walk: deleting the marked numbers (or skipping the deletion when there are none) leaves m minus ALL visited numbers
pub proof fn lemma_kept_remove(m: Map<SectorNumber, SectorPreCommitOnChainInfo>, vis: Seq<SectorNumber>, del: Seq<SectorNumber>)
    requires kept_keys(m, vis, vis.len() as int, del)
    ensures del.len() == 0 ==> remove_keys(m, vis, vis.len() as int) == m,
{}
pub proof fn lemma_sum_stored_nonneg(m: Map<SectorNumber, SectorPreCommitOnChainInfo>, ks: Seq<SectorNumber>, n: int)
    requires stored_nonneg(m), 0 <= n <= ks.len()
    ensures sum_stored(m, ks, n) >= 0
    decreases n
{ if n > 0 { lemma_sum_stored_nonneg(m, ks, n - 1); } }

pub proof fn lemma_sum_deposits_ext(a: Seq<SectorPreCommitOnChainInfo>, b: Seq<SectorPreCommitOnChainInfo>, n: int)
    requires 0 <= n <= a.len(), n <= b.len(), forall|i: int| 0 <= i < n ==> a[i] == b[i]
    ensures sum_deposits(a, n) == sum_deposits(b, n)
    decreases n
{ if n > 0 { lemma_sum_deposits_ext(a, b, n - 1); } }
// ======================= (2) state.rs: the pre-commit table =======================
//@ fn actors/miner/src/state.rs State::quant_spec_every_deadline
    ensures r == (QuantSpec { unit: policy.wpost_challenge_window, offset: self.proving_period_start }),
//@ end

//@ fn actors/miner/src/state.rs State::put_precommitted_sectors
    ensures
        // only the table root changes
        *final(self) == (State { pre_committed_sectors: final(self).pre_committed_sectors, ..*old(self) }),
        // "put refuses to overwrite": Ok only if no record existed under any of the numbers and the numbers are pairwise distinct ...
        r.is_ok() ==> recs_fresh(pcmap(*old(self)), precommits@, precommits@.len() as int),
        // ... and then the table is the old one plus exactly one record per entry, stored under its own sector number
        r.is_ok() ==> pcmap(*final(self)) == insert_recs(pcmap(*old(self)), precommits@, precommits@.len() as int),
        // "nothing is recorded when the call fails"
        r.is_err() ==> *final(self) == *old(self),
//@ loop 0 iter=it
        invariant
            *self == *old(self), it.index@ <= precommits@.len(),
            recs_fresh(pcmap(*old(self)), precommits@, it.index@ as int),
            precommitted.view() == insert_recs(pcmap(*old(self)), precommits@, it.index@ as int),
//@ loopstart 0
            proof { lemma_insert_recs_dom(pcmap(*old(self)), precommits@, it.index@ as int); }
//@ end

//@ fn actors/miner/src/state.rs State::get_precommitted_sector sub0="precommitted . get (& sector_num) ? . cloned ()=>vx_cloned_pc(precommitted . get (& sector_num) ?)"
    ensures
        // the record stored under the number, None iff there is none
        r.is_ok() ==> (r->Ok_0.is_some() <==> pcmap(*self).dom().contains(sector_num)),
        r.is_ok() && r->Ok_0.is_some() ==> pcv(r->Ok_0->Some_0) == pcv(pcmap(*self)[sector_num]),
//@ end

/// the stored records of those of the first n numbers that have one, in order ("skipping missing sectors")
pub open spec fn found_recs(m: Map<SectorNumber, SectorPreCommitOnChainInfo>, ks: Seq<SectorNumber>, n: int) -> Seq<PcV>
    decreases n
{ if n <= 0 { Seq::empty() } else if m.dom().contains(ks[n - 1]) { found_recs(m, ks, n - 1).push(pcv(m[ks[n - 1]])) } else { found_recs(m, ks, n - 1) } }
pub open spec fn pcv_seq(v: Seq<SectorPreCommitOnChainInfo>) -> Seq<PcV> { Seq::new(v.len(), |i: int| pcv(v[i])) }

//@ fn actors/miner/src/state.rs State::find_precommitted_sectors r19=0
    ensures
        r.is_ok() ==> pcv_seq(r->Ok_0@) == found_recs(pcmap(*self), sector_numbers@, sector_numbers@.len() as int),
//@ loop 0
        invariant
            __vx_i0 <= __vx_v0@.len(), __vx_v0@ == sector_numbers@, precommitted.view() == pcmap(*self),
            pcv_seq(result@) == found_recs(pcmap(*self), sector_numbers@, __vx_i0 as int),
        decreases __vx_v0@.len() - __vx_i0,
//@ loopstart 0
            let ghost res0 = result@;
//@ loopend 0
            proof { assert(pcv_seq(result@) =~= pcv_seq(res0).push(pcv(info))); }
//@ end

//@ fn actors/miner/src/state.rs State::delete_precommitted_sectors
    ensures
        *final(self) == (State { pre_committed_sectors: final(self).pre_committed_sectors, ..*old(self) }),
        // "delete removes exactly the given numbers" (each of which had a record: a missing or repeated number is an error)
        r.is_ok() ==> pcmap(*final(self)) == remove_keys(pcmap(*old(self)), sector_nums@, sector_nums@.len() as int),
        r.is_ok() ==> forall|i: int| 0 <= i < sector_nums@.len() ==> #[trigger] pcmap(*old(self)).dom().contains(sector_nums@[i]),
        r.is_ok() ==> sector_nums@.no_duplicates(),
        r.is_err() ==> *final(self) == *old(self),
//@ loop 0 iter=it
        invariant
            *self == *old(self), it.index@ <= sector_nums@.len(),
            precommitted.view() == remove_keys(pcmap(*old(self)), sector_nums@, it.index@ as int),
            forall|i: int| 0 <= i < it.index@ ==> #[trigger] pcmap(*old(self)).dom().contains(sector_nums@[i]),
            forall|i: int, j: int| 0 <= i < j < it.index@ ==> sector_nums@[i] != sector_nums@[j],
//@ loopstart 0
            proof { lemma_remove_keys_dom(pcmap(*old(self)), sector_nums@, it.index@ as int); }
//@ end

/// the sector numbers the pre-commit clean-up queue hands out at `epoch`, in the order they are visited
pub open spec fn cleanup_visited(s: State, policy: Policy, epoch: ChainEpoch) -> Seq<SectorNumber> {
    bf_sorted(pcq_popped(s.pre_committed_sectors_cleanup, QuantSpec { unit: policy.wpost_challenge_window, offset: s.proving_period_start }, epoch))
}
/// the deposits stored for the first n keys are all non-negative
pub open spec fn stored_nonneg(m: Map<SectorNumber, SectorPreCommitOnChainInfo>) -> bool { forall|k: SectorNumber| #[trigger] m.dom().contains(k) ==> m[k].pre_commit_deposit@ >= 0 }

//@ fn actors/miner/src/state.rs State::cleanup_expired_pre_commits r19=0 sub0="i as SectorNumber=>*i as SectorNumber" sub1="precommitted . get (& sector_number) ? . cloned ()=>vx_cloned_pc(precommitted . get (& sector_number) ?)"
    ensures
        // only the two pre-commit tables and the deposit total are touched
        *final(self) == (State { pre_commit_deposits: final(self).pre_commit_deposits, pre_committed_sectors: final(self).pre_committed_sectors,
            pre_committed_sectors_cleanup: final(self).pre_committed_sectors_cleanup, ..*old(self) }),
        r.is_ok() ==> ({
            let m0 = pcmap(*old(self));
            let vis = cleanup_visited(*old(self), *policy, current_epoch);
            // "removes exactly the expired un-proven pre-commitments it visits": the visited numbers that still have a record, nothing else
            &&& pcmap(*final(self)) == remove_keys(m0, vis, vis.len() as int)
            // "and subtracts EXACTLY the sum of their deposits from pre_commit_deposits (returning that sum to be burnt)"
            &&& r->Ok_0@ == sum_stored(m0, vis, vis.len() as int)
            &&& final(self).pre_commit_deposits@ == old(self).pre_commit_deposits@ - r->Ok_0@
            &&& final(self).pre_commit_deposits@ >= 0
        }),
//@ loop 0
        invariant
            __vx_i0 <= __vx_v0@.len(), __vx_v0@ == cleanup_visited(*old(self), *policy, current_epoch), __vx_v0@.no_duplicates(),
            precommitted.view() == pcmap(*old(self)),
            *self == (State { pre_committed_sectors_cleanup: self.pre_committed_sectors_cleanup, ..*old(self) }),
            deposit_to_burn@ == sum_stored(pcmap(*old(self)), __vx_v0@, __vx_i0 as int),
            kept_keys(pcmap(*old(self)), __vx_v0@, __vx_i0 as int, precommits_to_delete@),
        decreases __vx_v0@.len() - __vx_i0,
//@ loopstart 0
            proof { lemma_kept_push(pcmap(*old(self)), __vx_v0@, __vx_i0 as int, precommits_to_delete@); }
//@ before "if ! precommits_to_delete . is_empty ()"
        proof { lemma_kept_remove(pcmap(*old(self)), bf_sorted(sectors@), precommits_to_delete@); }
//@ end

// the loader used by ProveCommitSectors3 / ProveReplicaUpdates: every requested number must have a record; the records returned are the stored ones
//@ fn actors/miner/src/state.rs State::get_precommitted_sectors sigsub0="impl IntoIterator < Item = impl Borrow < SectorNumber > >=>Vec<SectorNumber>" sub0="* sector_no . borrow ()=>sector_no"
    ensures
        r.is_ok() ==> r->Ok_0@.len() == sector_nos@.len() && forall|i: int| 0 <= i < sector_nos@.len() ==>
            pcmap(*self).dom().contains(#[trigger] sector_nos@[i]) && pcv(r->Ok_0@[i]) == pcv(pcmap(*self)[sector_nos@[i]]),
//@ loop 0 iter=it
        invariant
            it.index@ <= sector_nos@.len(), precommitted.view() == pcmap(*self), precommits@.len() == it.index@,
            forall|i: int| 0 <= i < it.index@ ==> pcmap(*self).dom().contains(#[trigger] sector_nos@[i]) && pcv(precommits@[i]) == pcv(pcmap(*self)[sector_nos@[i]]),
//@ end

// ======================= state.rs helpers used by the pre-commit closure =======================
//@ item actors/miner/src/state.rs CollisionPolicy attr="#[derive(PartialEq, Eq, Structural)]"
impl CborVal for BitField { type Base = BitField; open spec fn base(&self) -> BitField { *self } }
pub open spec fn allocated(s: State) -> Option<BitField> { cbor_decode::<BitField>(s.allocated_sectors) }
// (contract as in units/C04/sector_alloc.vx.rs)
//@ fn actors/miner/src/state.rs State::allocate_sector_numbers
    ensures
        r.is_ok() ==> allocated(*old(self)).is_some() && allocated(*final(self)).is_some() && ({
            let a0 = allocated(*old(self))->Some_0@;
            let a1 = allocated(*final(self))->Some_0@;
            &&& (policy is DenyCollisions ==> a0.intersect(sector_numbers@) =~= vstd::set::Set::<u64>::empty())
            &&& a1 =~= a0.union(sector_numbers@)
        }),
        r.is_err() ==> *final(self) == *old(self),
        *final(self) == (State { allocated_sectors: final(self).allocated_sectors, ..*old(self) }),
//@ end
//@ fn actors/miner/src/state.rs State::add_pre_commit_clean_ups sub0="super :: BitFieldQueue=>BitFieldQueue"
    ensures
        // only the clean-up queue root changes
        *final(self) == (State { pre_committed_sectors_cleanup: final(self).pre_committed_sectors_cleanup, ..*old(self) }),
//@ end
//@ fn actors/miner/src/lib.rs consensus_fault_active
    ensures r == (curr_epoch <= info.consensus_fault_elapsed),
//@ end

// ======================= (1) PreCommitSectorBatch2: the transaction closure =======================
//@ item actors/miner/src/lib.rs SectorPreCommitInfoInner tsub0="struct SectorPreCommitInfoInner=>pub struct SectorPreCommitInfoInner"
//@ item actors/miner/src/ext.rs CurrentTotalPowerReturn
//@ item actors/miner/src/ext.rs VerifyDealsForActivationReturn
/// the record the closure must write for a request entry
pub open spec fn rec_view(p: SectorPreCommitInfoInner, deposit: int, epoch: ChainEpoch) -> PcV {
    PcV { seal_proof: p.seal_proof, sector_number: p.sector_number, sealed_cid: p.sealed_cid, seal_rand_epoch: p.seal_rand_epoch,
        deal_ids: p.deal_ids@, expiration: p.expiration, unsealed_cid: p.unsealed_cid.0, deposit, pre_commit_epoch: epoch }
}
pub open spec fn inner_nums(v: Seq<SectorPreCommitInfoInner>) -> Seq<SectorNumber> { Seq::new(v.len(), |i: int| v[i].sector_number) }
pub open spec fn rec_nums(v: Seq<SectorPreCommitOnChainInfo>) -> Seq<SectorNumber> { Seq::new(v.len(), |i: int| v[i].info.sector_number) }
/// the deposit computed for every sector of a batch: pre_commit_deposit_for_power(reward, network power, max QA power of the miner's sector size)
pub open spec fn batch_deposit(reward_stats: ThisEpochRewardReturn, power_total: CurrentTotalPowerReturn, info: MinerInfo) -> int {
    pcd_spec(reward_stats.this_epoch_reward_smoothed, power_total.quality_adj_power_smoothed, qa_power_max_spec(info.sector_size))
}
/// the deposits found in the table under the written numbers add up to the deposits of the written records
pub proof fn lemma_sum_stored_inserted(m: Map<SectorNumber, SectorPreCommitOnChainInfo>, recs: Seq<SectorPreCommitOnChainInfo>, n: int, k: int)
    requires 0 <= k <= n <= recs.len(), recs_fresh(m, recs, n)
    ensures sum_stored(insert_recs(m, recs, n), rec_nums(recs), k) == sum_deposits(recs, k)
    decreases k
{
    if k > 0 {
        lemma_sum_stored_inserted(m, recs, n, k - 1);
        lemma_insert_recs_get(m, recs, n);
        assert(rec_nums(recs)[k - 1] == recs[k - 1].info.sector_number);
        assert(insert_recs(m, recs, n)[recs[k - 1].info.sector_number] == recs[k - 1]);
    }
}
pub proof fn lemma_sum_stored_ext(m: Map<SectorNumber, SectorPreCommitOnChainInfo>, a: Seq<SectorNumber>, b: Seq<SectorNumber>, n: int)
    requires 0 <= n <= a.len(), n <= b.len(), forall|i: int| 0 <= i < n ==> a[i] == b[i]
    ensures sum_stored(m, a, n) == sum_stored(m, b, n)
    decreases n
{ if n > 0 { lemma_sum_stored_ext(m, a, b, n - 1); } }
/// n records of the same deposit d add up to n * d
pub proof fn lemma_sum_deposits_const(recs: Seq<SectorPreCommitOnChainInfo>, n: int, d: int)
    requires 0 <= n <= recs.len(), forall|i: int| 0 <= i < n ==> (#[trigger] recs[i]).pre_commit_deposit@ == d
    ensures sum_deposits(recs, n) == n * d
    decreases n
{ if n > 0 { lemma_sum_deposits_const(recs, n - 1, d); assert(recs[n - 1].pre_commit_deposit@ == d); assert(n * d == (n - 1) * d + d) by (nonlinear_arith); } else { assert(n * d == 0) by (nonlinear_arith) requires n == 0; } }

pub open spec fn small_epoch(e: int) -> bool { -0x1000_0000_0000_0000 < e < 0x1000_0000_0000_0000 }

//@ fn actors/miner/src/lib.rs Actor::pre_commit_sector_batch_inner closure=0 as=pc_tx0 params="state: &mut State, rt: &mut Rt, sectors: Vec<SectorPreCommitInfoInner>, curr_epoch: ChainEpoch, reward_stats: &ThisEpochRewardReturn, power_total: &CurrentTotalPowerReturn, verify_return: &VerifyDealsForActivationReturn, sector_numbers: &BitField, fee_to_burn: &mut TokenAmount, needs_cron: &mut bool" retty="Result<(), ActorError>" ret=res derefs=fee_to_burn,needs_cron sub0="sectors . into_iter () . enumerate ()=>vx_into_enumerate(sectors)" sub1="info . control_addresses . iter () . chain (& [info . worker , info . owner])=>&vx_control_worker_owner(&info)"
    requires
        // established by the method before the transaction (the length check on the market's answer)
        verify_return.unsealed_cids@.len() == sectors@.len(),
        // epochs and policy durations are of chain magnitude (no i64 overflow in `curr_epoch + msd + clean_up_delay`)
        small_epoch(curr_epoch as int), small_epoch(rt_policy().expired_pre_commit_clean_up_delay as int),
        forall|p: RegisteredSealProof| (#[trigger] mpcd_spec(rt_policy(), p)).is_some() ==> small_epoch(mpcd_spec(rt_policy(), p)->Some_0 as int),
    ensures
        res.is_ok() ==> info_of(*old(state)).is_some() && ({
            let s0 = *old(state);
            let s1 = *final(state);
            let info = info_of(s0)->Some_0;
            let n = sectors@.len() as int;
            let dep = batch_deposit(*reward_stats, *power_total, info);
            let m0 = pcmap(s0);
            let m1 = pcmap(s1);
            // ---- the records: exactly one per request entry, under its own number, nothing overwritten, nothing else touched ----
            &&& (forall|i: int| 0 <= i < n ==> !m0.dom().contains((#[trigger] sectors@[i]).sector_number))
            &&& (forall|i: int, j: int| 0 <= i < j < n ==> (#[trigger] sectors@[i]).sector_number != (#[trigger] sectors@[j]).sector_number)
            &&& (forall|i: int| 0 <= i < n ==> m1.dom().contains((#[trigger] sectors@[i]).sector_number)
                    // each record carries the request's fields, the current epoch and the computed deposit for that sector
                    && pcv(m1[sectors@[i].sector_number]) == rec_view(sectors@[i], dep, curr_epoch))
            &&& (forall|k: SectorNumber| #[trigger] m1.dom().contains(k) <==> m0.dom().contains(k) || is_key(inner_nums(sectors@), n, k))
            &&& (forall|k: SectorNumber| #[trigger] m0.dom().contains(k) ==> m1[k] == m0[k])
            // ---- the ledger: the amount added to pre_commit_deposits is the sum of the deposit fields of exactly the records written ----
            &&& s1.pre_commit_deposits@ == s0.pre_commit_deposits@ + sum_stored(m1, inner_nums(sectors@), n)
            &&& sum_stored(m1, inner_nums(sectors@), n) == n * dep
            // ---- "the balance check (available balance >= total deposit)": passed on the state as it was on entry ----
            &&& unlocked(s0, old(rt).balance@) - s0.fee_debt@ >= sum_stored(m1, inner_nums(sectors@), n)
            // ---- "fee debt is repaid first": all of it, handed out to be burnt; what is left still covers it ----
            &&& final(fee_to_burn)@ == s0.fee_debt@ && s1.fee_debt@ == 0
            &&& unlocked(s1, old(rt).balance@) >= final(fee_to_burn)@
            // ---- nothing else of the money ledgers moves ----
            &&& s1.locked_funds == s0.locked_funds && s1.vesting_funds == s0.vesting_funds && s1.initial_pledge == s0.initial_pledge
            &&& s1 == (State { pre_commit_deposits: s1.pre_commit_deposits, pre_committed_sectors: s1.pre_committed_sectors,
                    pre_committed_sectors_cleanup: s1.pre_committed_sectors_cleanup, allocated_sectors: s1.allocated_sectors, fee_debt: s1.fee_debt,
                    deadline_cron_active: true, ..s0 })
            // the sector numbers are allocated now and were never allocated before
            &&& allocated(s0).is_some() && allocated(s1).is_some()
            &&& allocated(s0)->Some_0@.intersect(sector_numbers@) =~= vstd::set::Set::<u64>::empty()
            &&& allocated(s1)->Some_0@ =~= allocated(s0)->Some_0@.union(sector_numbers@)
            &&& *final(needs_cron) == !s0.deadline_cron_active
            /*C11*/ &&& final(rt).validated@.is_some()
        }),
        *final(rt) == (Rt { validated: final(rt).validated, events: final(rt).events, ..*old(rt) }),
//@ loop 0 iter=it
            invariant
                it.index@ <= it.seq().len(), it.seq().len() == sectors@.len(), verify_return.unsealed_cids@.len() == sectors@.len(),
                forall|j: int| 0 <= j < it.seq().len() ==> (#[trigger] it.seq()[j]).0 == j && it.seq()[j].1 == sectors@[j],
                *state == st_mid, *rt == rt_mid, rt_mid == (Rt { validated: rt_mid.validated, ..*old(rt) }),
                small_epoch(curr_epoch as int), small_epoch(rt_policy().expired_pre_commit_clean_up_delay as int),
                forall|p: RegisteredSealProof| (#[trigger] mpcd_spec(rt_policy(), p)).is_some() ==> small_epoch(mpcd_spec(rt_policy(), p)->Some_0 as int),
                chain_infos@.len() == it.index@,
                forall|j: int| 0 <= j < it.index@ ==> pcv(#[trigger] chain_infos@[j]) == rec_view(sectors@[j], deposit_req@, curr_epoch),
                total_deposit_required@ == sum_deposits(chain_infos@, it.index@ as int),
//@ loopstart 0
                let ghost ci0 = chain_infos@;
//@ loopend 0
                proof {
                    assert(chain_infos@.drop_last() =~= ci0);
                    lemma_sum_deposits_ext(chain_infos@, ci0, ci0.len() as int);
                }
//@ after "let deposit_req ="
            let ghost st_mid = *state;
            let ghost rt_mid = *rt;
//@ loop 1 iter=it1
            invariant *rt == (Rt { events: rt.events, ..rt_mid }), *state == st_put, rt_mid == (Rt { validated: rt_mid.validated, ..*old(rt) }),
//@ before "for sector_num in"
            let ghost st_put = *state;
            proof {
                let m0 = pcmap(*old(state));
                let n = sectors@.len() as int;
                let recs = ci_fin;
                lemma_insert_recs_get(m0, recs, n);
                lemma_insert_recs_dom(m0, recs, n);
                lemma_sum_stored_inserted(m0, recs, n, n);
                lemma_sum_deposits_const(recs, n, deposit_req@);
                assert(rec_nums(recs) =~= inner_nums(sectors@)) by {
                    assert forall|i: int| 0 <= i < n implies rec_nums(recs)[i] == inner_nums(sectors@)[i] by { assert(pcv(recs[i]).sector_number == sectors@[i].sector_number); }
                }
                assert forall|k: SectorNumber| has_num(recs, n, k) <==> is_key(inner_nums(sectors@), n, k) by {
                    if has_num(recs, n, k) { let i = choose|i: int| 0 <= i < n && (#[trigger] recs[i]).info.sector_number == k; assert(inner_nums(sectors@)[i] == k); }
                    if is_key(inner_nums(sectors@), n, k) { let i = choose|i: int| 0 <= i < n && #[trigger] inner_nums(sectors@)[i] == k; assert(recs[i].info.sector_number == k); }
                }
                assert forall|i: int| 0 <= i < n implies !m0.dom().contains((#[trigger] sectors@[i]).sector_number) by { assert(recs[i].info.sector_number == sectors@[i].sector_number); }
                assert forall|i: int, j: int| 0 <= i < j < n implies (#[trigger] sectors@[i]).sector_number != (#[trigger] sectors@[j]).sector_number by {
                    assert(recs[i].info.sector_number == sectors@[i].sector_number); assert(recs[j].info.sector_number == sectors@[j].sector_number);
                }
                assert forall|i: int| 0 <= i < n implies pcmap(*state).dom().contains((#[trigger] sectors@[i]).sector_number)
                    && pcv(pcmap(*state)[sectors@[i].sector_number]) == rec_view(sectors@[i], deposit_req@, curr_epoch) by {
                    assert(recs[i].info.sector_number == sectors@[i].sector_number);
                }
            }
//@ before "state . put_precommitted_sectors"
            let ghost ci_fin = chain_infos@;
//@ end

// ======================= (3) the proving side: activate_new_sector_infos =======================
//@ const runtime/src/runtime/policy.rs MAX_SECTOR_NUMBER
//@ item actors/miner/src/lib.rs DataActivationOutput tsub0="struct DataActivationOutput=>pub struct DataActivationOutput"
//@ item actors/miner/src/lib.rs NetworkPledgeInputs tsub0="struct NetworkPledgeInputs=>pub struct NetworkPledgeInputs"

/// sum of the initial_pledge fields of the first n sector infos
pub open spec fn sum_pledge(infos: Seq<SectorOnChainInfo>, n: int) -> int
    decreases n
{ if n <= 0 { 0 } else { sum_pledge(infos, n - 1) + infos[n - 1].initial_pledge@ } }
/// sum of the initial_pledge fields STORED in the sector table under the first n numbers of ks
pub open spec fn sum_pledge_tbl(t: Map<u64, SectorOnChainInfo>, ks: Seq<SectorNumber>, n: int) -> int
    decreases n
{ if n <= 0 { 0 } else { sum_pledge_tbl(t, ks, n - 1) + (if t.dom().contains(ks[n - 1]) { t[ks[n - 1]].initial_pledge@ } else { 0 }) } }
/// sum of the deposits of the first n (referenced) pre-commit records
pub open spec fn sum_deposits_ref(recs: Seq<&SectorPreCommitOnChainInfo>, n: int) -> int
    decreases n
{ if n <= 0 { 0 } else { sum_deposits_ref(recs, n - 1) + recs[n - 1].pre_commit_deposit@ } }
pub open spec fn ref_nums(v: Seq<&SectorPreCommitOnChainInfo>) -> Seq<SectorNumber> { Seq::new(v.len(), |i: int| v[i].info.sector_number) }
pub open spec fn info_nums(v: Seq<SectorOnChainInfo>) -> Seq<SectorNumber> { Seq::new(v.len(), |i: int| v[i].sector_number) }
/// the sector table with the first n infos stored under their own numbers (AMT set: a later entry overwrites)
pub open spec fn store_infos(t: Map<u64, SectorOnChainInfo>, infos: Seq<SectorOnChainInfo>, n: int) -> Map<u64, SectorOnChainInfo>
    decreases n
{ if n <= 0 { t } else { store_infos(t, infos, n - 1).insert(infos[n - 1].sector_number, infos[n - 1]) } }
/// the records handed to the activation are the ones stored under their numbers (same deposit)
pub open spec fn recs_match(m: Map<SectorNumber, SectorPreCommitOnChainInfo>, recs: Seq<&SectorPreCommitOnChainInfo>, n: int) -> bool {
    forall|i: int| 0 <= i < n ==> m.dom().contains((#[trigger] recs[i]).info.sector_number) && m[recs[i].info.sector_number].pre_commit_deposit@ == recs[i].pre_commit_deposit@
}
pub proof fn lemma_store_infos(t: Map<u64, SectorOnChainInfo>, infos: Seq<SectorOnChainInfo>, n: int)
    requires 0 <= n <= infos.len(), forall|i: int, j: int| 0 <= i < j < n ==> (#[trigger] infos[i]).sector_number != (#[trigger] infos[j]).sector_number
    ensures
        forall|i: int| 0 <= i < n ==> store_infos(t, infos, n).dom().contains((#[trigger] infos[i]).sector_number) && store_infos(t, infos, n)[infos[i].sector_number] == infos[i],
        forall|k: u64| #[trigger] store_infos(t, infos, n).dom().contains(k) <==> t.dom().contains(k) || is_key(info_nums(infos), n, k),
        forall|k: u64| #[trigger] t.dom().contains(k) && !is_key(info_nums(infos), n, k) ==> store_infos(t, infos, n)[k] == t[k],
    decreases n
{
    if n > 0 {
        lemma_store_infos(t, infos, n - 1);
        let t1 = store_infos(t, infos, n - 1);
        let kn = infos[n - 1].sector_number;
        let ks = info_nums(infos);
        assert(store_infos(t, infos, n) == t1.insert(kn, infos[n - 1]));
        assert(ks[n - 1] == kn);
        assert forall|i: int| 0 <= i < n implies store_infos(t, infos, n).dom().contains((#[trigger] infos[i]).sector_number) && store_infos(t, infos, n)[infos[i].sector_number] == infos[i] by {
            if i < n - 1 { assert(infos[i].sector_number != infos[n - 1].sector_number); assert(t1.dom().contains(infos[i].sector_number)); }
        }
        assert forall|k: u64| #[trigger] store_infos(t, infos, n).dom().contains(k) <==> t.dom().contains(k) || is_key(ks, n, k) by {
            assert(store_infos(t, infos, n).dom().contains(k) <==> k == kn || t1.dom().contains(k));
            if is_key(ks, n - 1, k) { let i = choose|i: int| 0 <= i < n - 1 && #[trigger] ks[i] == k; assert(ks[i] == k); assert(is_key(ks, n, k)); }
            if is_key(ks, n, k) { let i = choose|i: int| 0 <= i < n && #[trigger] ks[i] == k; if i < n - 1 { assert(ks[i] == k); assert(is_key(ks, n - 1, k)); } }
            if k == kn { assert(is_key(ks, n, k)); }
        }
        assert forall|k: u64| #[trigger] t.dom().contains(k) && !is_key(ks, n, k) implies store_infos(t, infos, n)[k] == t[k] by {
            if k == kn { assert(is_key(ks, n, k)); }
            if is_key(ks, n - 1, k) { let i = choose|i: int| 0 <= i < n - 1 && #[trigger] ks[i] == k; assert(ks[i] == k); assert(is_key(ks, n, k)); }
        }
    }
}
/// the pledges found in the table under the stored numbers add up to the pledges of the stored infos (numbers pairwise distinct)
pub proof fn lemma_sum_pledge_stored(t: Map<u64, SectorOnChainInfo>, infos: Seq<SectorOnChainInfo>, built: Seq<SectorOnChainInfo>, ks: Seq<SectorNumber>, n: int, k: int)
    requires
        0 <= k <= n <= infos.len(), n <= built.len(), n <= ks.len(),
        forall|i: int, j: int| 0 <= i < j < n ==> (#[trigger] infos[i]).sector_number != (#[trigger] infos[j]).sector_number,
        forall|i: int| 0 <= i < n ==> ks[i] == (#[trigger] infos[i]).sector_number && infos[i].initial_pledge@ == built[i].initial_pledge@,
    ensures sum_pledge_tbl(store_infos(t, infos, n), ks, k) == sum_pledge(built, k)
    decreases k
{
    if k > 0 {
        lemma_sum_pledge_stored(t, infos, built, ks, n, k - 1);
        lemma_store_infos(t, infos, n);
        assert(store_infos(t, infos, n)[infos[k - 1].sector_number] == infos[k - 1]);
    }
}
pub proof fn lemma_sum_pledge_ext(a: Seq<SectorOnChainInfo>, b: Seq<SectorOnChainInfo>, n: int)
    requires 0 <= n <= a.len(), n <= b.len(), forall|i: int| 0 <= i < n ==> a[i] == b[i]
    ensures sum_pledge(a, n) == sum_pledge(b, n)
    decreases n
{ if n > 0 { lemma_sum_pledge_ext(a, b, n - 1); } }
/// when the records handed in are the stored ones, the deposits released are the deposits stored under the deleted numbers
pub proof fn lemma_sum_ref_stored(m: Map<SectorNumber, SectorPreCommitOnChainInfo>, recs: Seq<&SectorPreCommitOnChainInfo>, n: int)
    requires 0 <= n <= recs.len(), recs_match(m, recs, n)
    ensures sum_stored(m, ref_nums(recs), n) == sum_deposits_ref(recs, n)
    decreases n
{ if n > 0 { lemma_sum_ref_stored(m, recs, n - 1); assert(ref_nums(recs)[n - 1] == recs[n - 1].info.sector_number); } }

//@ fn actors/miner/src/sectors.rs Sectors::load
    ensures r.is_ok() ==> r->Ok_0.amt.view() == array_decode::<SectorOnChainInfo>(*root),
//@ end
//@ fn actors/miner/src/sectors.rs Sectors::store
    ensures
        r.is_ok() ==> final(self).amt.view() == store_infos(old(self).amt.view(), infos@, infos@.len() as int),
//@ loop 0 iter=it
        invariant it.index@ <= infos@.len(), self.amt.view() == store_infos(old(self).amt.view(), infos@, it.index@ as int),
//@ end
//@ fn actors/miner/src/state.rs State::put_sectors
    ensures
        *final(self) == (State { sectors: final(self).sectors, ..*old(self) }),
        r.is_ok() ==> sectors_tbl(*final(self)) == store_infos(sectors_tbl(*old(self)), new_sectors@, new_sectors@.len() as int),
        r.is_err() ==> *final(self) == *old(self),
//@ end

/// the pledge computed for the i-th activated sector
pub open spec fn pledge_at(pci: SectorPreCommitOnChainInfo, da: DataActivationOutput, pi: NetworkPledgeInputs, info: MinerInfo, activation_epoch: ChainEpoch) -> int {
    let duration = (pci.info.expiration - activation_epoch) as ChainEpoch;
    ip_spec(qapw_spec(info.sector_size, duration, da.verified_space@ * duration), pi.network_baseline@, pi.epoch_reward, pi.network_qap, pi.circulating_supply@,
        pi.epochs_since_ramp_start, pi.ramp_duration_epochs)
}

//@ fn actors/miner/src/lib.rs activate_new_sector_infos closure=0 as=ani_tx0 params="state: &mut State, rt: &mut Rt, precommits: Vec<&SectorPreCommitOnChainInfo>, data_activations: Vec<DataActivationOutput>, pledge_inputs: &NetworkPledgeInputs, info: &MinerInfo, activation_epoch: ChainEpoch" retty="Result<(TokenAmount, TokenAmount), ActorError>" ret=res r17
    requires
        // stored epochs are of chain magnitude (no i64 overflow in `expiration - activation_epoch`)
        small_epoch(activation_epoch as int), forall|i: int| 0 <= i < precommits@.len() ==> small_epoch((#[trigger] precommits@[i]).info.expiration as int),
    ensures
        *final(rt) == *old(rt),
        res.is_ok() ==> ({
            let s0 = *old(state);
            let s1 = *final(state);
            let n = if precommits@.len() <= data_activations@.len() { precommits@.len() as int } else { data_activations@.len() as int };
            let nums = ref_nums(precommits@);
            let (total_pledge, newly_vested) = res->Ok_0;
            // ---- "for every activated sector its pre-commit record is deleted": exactly those numbers (each had a record, all distinct) ----
            &&& pcmap(s1) == remove_keys(pcmap(s0), nums, n)
            &&& (forall|i: int| 0 <= i < n ==> pcmap(s0).dom().contains(#[trigger] nums[i]))
            &&& (forall|i: int, j: int| 0 <= i < j < n ==> #[trigger] nums[i] != #[trigger] nums[j])
            // ---- "and its deposit released": add_pre_commit_deposit(-sum of the deposits of the records handed in) ...
            &&& s1.pre_commit_deposits@ == s0.pre_commit_deposits@ - sum_deposits_ref(precommits@, n)
            // ... which is the sum of the deposits STORED under the deleted numbers when the caller hands in the stored records
            &&& (recs_match(pcmap(s0), precommits@, n) ==> s1.pre_commit_deposits@ == s0.pre_commit_deposits@ - sum_stored(pcmap(s0), nums, n))
            // ---- one sector info per activated sector is stored under the sector's number, carrying the pledge computed for it ----
            &&& (forall|i: int| 0 <= i < n ==> sectors_tbl(s1).dom().contains(#[trigger] nums[i])
                    && sectors_tbl(s1)[nums[i]].initial_pledge@ == pledge_at(*precommits@[i], data_activations@[i], *pledge_inputs, *info, activation_epoch)
                    && sectors_tbl(s1)[nums[i]].sector_number == nums[i] && sectors_tbl(s1)[nums[i]].activation == activation_epoch
                    && sectors_tbl(s1)[nums[i]].expiration == precommits@[i].info.expiration)
            &&& (forall|k: u64| #[trigger] sectors_tbl(s1).dom().contains(k) <==> sectors_tbl(s0).dom().contains(k) || is_key(nums, n, k))
            &&& (forall|k: u64| #[trigger] sectors_tbl(s0).dom().contains(k) && !is_key(nums, n, k) ==> sectors_tbl(s1)[k] == sectors_tbl(s0)[k])
            // ---- add_initial_pledge(+sum of the new sectors' initial_pledge), each term being the value stored in the sector's SectorOnChainInfo ----
            &&& s1.initial_pledge@ == s0.initial_pledge@ + sum_pledge_tbl(sectors_tbl(s1), nums, n)
            // ---- the pledge delta handed back (to be notified to the power actor) is exactly the change of initial_pledge; no vesting change here ----
            &&& total_pledge@ - newly_vested@ == s1.initial_pledge@ - s0.initial_pledge@
            &&& newly_vested@ == 0 && s1.locked_funds == s0.locked_funds && s1.vesting_funds == s0.vesting_funds && s1.fee_debt == s0.fee_debt
            // ---- "the balance invariant is checked": the miner still covers deposits, vesting funds and pledge ----
            &&& st_solvent(s1, old(rt).balance@) && s1.pre_commit_deposits@ >= 0 && s1.initial_pledge@ >= 0 && s1.locked_funds@ >= 0 && s1.fee_debt@ >= 0
            // nothing else is written
            &&& s1 == (State { pre_commit_deposits: s1.pre_commit_deposits, initial_pledge: s1.initial_pledge, pre_committed_sectors: s1.pre_committed_sectors,
                    sectors: s1.sectors, deadlines: s1.deadlines, ..s0 })
        }),
//@ loop 0
        invariant
            *state == *old(state), *rt == *old(rt), small_epoch(activation_epoch as int),
            forall|i: int| 0 <= i < precommits@.len() ==> small_epoch((#[trigger] precommits@[i]).info.expiration as int),
            new_sector_numbers@.len() == __vx_z0, new_sectors@.len() == __vx_z0,
            forall|j: int| 0 <= j < __vx_z0 ==> new_sector_numbers@[j] == precommits@[j].info.sector_number && (#[trigger] new_sectors@[j]).sector_number == precommits@[j].info.sector_number
                && new_sectors@[j].initial_pledge@ == pledge_at(*precommits@[j], data_activations@[j], *pledge_inputs, *info, activation_epoch)
                && new_sectors@[j].activation == activation_epoch && new_sectors@[j].expiration == precommits@[j].info.expiration,
            deposit_to_unlock@ == sum_deposits_ref(precommits@, __vx_z0 as int),
            total_pledge@ == sum_pledge(new_sectors@, __vx_z0 as int),
//@ loopstart 0
            let ghost ns0 = new_sectors@;
//@ loopend 0
            proof {
                assert(new_sectors@.drop_last() =~= ns0);
                lemma_sum_pledge_ext(new_sectors@, ns0, ns0.len() as int);
            }
//@ before "let newly_vested"
        proof {
            let n = new_sectors@.len() as int;
            let nums = ref_nums(precommits@);
            let t0 = sectors_tbl(*old(state));
            // the clone of `new_sectors` that was handed to put_sectors
            let ns_cl = choose|x: Seq<SectorOnChainInfo>| sectors_tbl(*state) == #[trigger] store_infos(t0, x, x.len() as int) && x.len() == n
                && forall|i: int| 0 <= i < n ==> secv(#[trigger] x[i]) == secv(new_sectors@[i]);
            assert forall|i: int| 0 <= i < n implies new_sector_numbers@[i] == nums[i] by { assert(new_sectors@[i].sector_number == precommits@[i].info.sector_number); }
            lemma_remove_keys_ext(pcmap(*old(state)), new_sector_numbers@, nums, n);
            assert forall|i: int, j: int| 0 <= i < j < n implies (#[trigger] ns_cl[i]).sector_number != (#[trigger] ns_cl[j]).sector_number by {
                assert(new_sector_numbers@[i] != new_sector_numbers@[j]);
                assert(secv(ns_cl[i]) == secv(new_sectors@[i])); assert(secv(ns_cl[j]) == secv(new_sectors@[j]));
            }
            assert forall|i: int| 0 <= i < n implies nums[i] == (#[trigger] ns_cl[i]).sector_number && ns_cl[i].initial_pledge@ == new_sectors@[i].initial_pledge@ by {
                assert(secv(ns_cl[i]) == secv(new_sectors@[i]));
            }
            lemma_store_infos(t0, ns_cl, n);
            lemma_sum_pledge_stored(t0, ns_cl, new_sectors@, nums, n, n);
            assert forall|k: u64| is_key(info_nums(ns_cl), n, k) <==> is_key(nums, n, k) by {
                if is_key(info_nums(ns_cl), n, k) { let i = choose|i: int| 0 <= i < n && #[trigger] info_nums(ns_cl)[i] == k; assert(nums[i] == ns_cl[i].sector_number); assert(nums[i] == k); }
                if is_key(nums, n, k) { let i = choose|i: int| 0 <= i < n && #[trigger] nums[i] == k; assert(nums[i] == ns_cl[i].sector_number); assert(info_nums(ns_cl)[i] == k); }
            }
            assert forall|i: int| 0 <= i < n implies sectors_tbl(*state).dom().contains(#[trigger] nums[i]) && secv(sectors_tbl(*state)[nums[i]]) == secv(new_sectors@[i]) by {
                assert(nums[i] == ns_cl[i].sector_number);
                assert(secv(ns_cl[i]) == secv(new_sectors@[i]));
            }
            if recs_match(pcmap(*old(state)), precommits@, n) { lemma_sum_ref_stored(pcmap(*old(state)), precommits@, n); }
        }
//@ end

// ---------------- activate_new_sector_infos: whole function ----------------
//@ fn actors/miner/src/lib.rs activate_new_sector_infos tx0="State;ani_tx0;&mut __vx_st, rt, precommits, data_activations, pledge_inputs, info, activation_epoch"
    requires
        !old(rt).in_tx@, small_epoch(old(rt).epoch as int),
        forall|i: int| 0 <= i < precommits@.len() ==> small_epoch((#[trigger] precommits@[i]).info.expiration as int),
    ensures
        r.is_ok() ==> final(rt).tx_log@.len() == old(rt).tx_log@.len() + 1 && ({
            let s0 = rt_state::<State>(old(rt).state_id@);
            let s1 = rt_state::<State>(final(rt).tx_log@.last());
            let n = if precommits@.len() <= data_activations@.len() { precommits@.len() as int } else { data_activations@.len() as int };
            let nums = ref_nums(precommits@);
            let delta = (s1.locked_funds@ + s1.initial_pledge@) - (s0.locked_funds@ + s0.initial_pledge@);
            let s = final(rt).sends@;
            // the committed state: records deleted, deposits released, sector infos stored, pledge added (see ani_tx0)
            &&& pcmap(s1) == remove_keys(pcmap(s0), nums, n)
            &&& s1.pre_commit_deposits@ == s0.pre_commit_deposits@ - sum_deposits_ref(precommits@, n)
            &&& s1.initial_pledge@ == s0.initial_pledge@ + sum_pledge_tbl(sectors_tbl(s1), nums, n)
            &&& s1.locked_funds == s0.locked_funds
            &&& st_solvent(s1, old(rt).balance@)
            // C03: "the pledge delta notified to the power actor is exactly the change of initial_pledge" (same sign; no message for a zero change)
            &&& delta == s1.initial_pledge@ - s0.initial_pledge@
            &&& (delta == 0 ==> s == old(rt).sends@)
            &&& (delta != 0 ==> s.len() == old(rt).sends@.len() + 1 && is_pledge_note(s.last()) && s.last().ok && s.last().value == 0
                    && exists|d: TokenAmount| s.last().params == Some(IpldBlock { h: #[trigger] cbor_hash(d) }) && d@ == delta)
        }),
//@ end

// ======================= (4) termination: the terminate_sectors transaction moves no ledger =======================
// process_early_terminations (units/C15/miner_early_term.vx.rs) is where `initial_pledge -= sum of the terminated sectors' pledge` happens and is
// already under contract. What was not covered: TerminateSectors itself must leave the pledge of the sectors it terminates COUNTED ("sectors that
// are live or still awaiting early-termination processing") and only flag the deadline for that processing.
//@ fn actors/miner/src/state.rs State::load_deadlines
    ensures r.is_ok() ==> cbor_decode::<Deadlines>(self.deadlines) == Some(r->Ok_0),
//@ end
//@ fn actors/miner/src/state.rs State::save_deadlines
    ensures *final(self) == (State { deadlines: final(self).deadlines, ..*old(self) }),
//@ end
//@ fn actors/miner/src/lib.rs have_pending_early_terminations
    ensures r == !(state.early_terminations@ =~= vstd::set::Set::<u64>::empty()),
//@ end
//@ fn actors/miner/src/lib.rs Actor::terminate_sectors closure=0 as=ts_tx0 params="state: &mut State, rt: &mut Rt, to_process: &mut DeadlineSectorMap" retty="Result<(bool, PowerPair), ActorError>" ret=res sub0="info . control_addresses . iter () . chain (& [info . worker , info . owner])=>&vx_control_worker_owner(&info)"
    ensures
        *final(rt) == (Rt { validated: final(rt).validated, ..*old(rt) }),
        res.is_ok() ==> ({
            let s0 = *old(state);
            let s1 = *final(state);
            // no money total and no table moves: the terminated sectors' pledge stays in initial_pledge, their infos stay in the sector table ...
            &&& s1 == (State { early_terminations: s1.early_terminations, deadlines: s1.deadlines, ..s0 })
            // ... and deadlines are only ever ADDED to the set awaiting early-termination processing
            &&& s0.early_terminations@.subset_of(s1.early_terminations@)
            // every deadline in which sectors were terminated IS flagged as awaiting early-termination processing (where their pledge is released)
            &&& (forall|i: int| 0 <= i < old(to_process).keys().len() ==> s1.early_terminations@.contains(#[trigger] old(to_process).keys()[i]))
            &&& res->Ok_0.0 == !(s0.early_terminations@ =~= vstd::set::Set::<u64>::empty())
            /*C11*/ &&& final(rt).validated@.is_some()
        }),
//@ loop 0 iter=it
            invariant
                *rt == rt_mid, rt_mid == (Rt { validated: rt_mid.validated, ..*old(rt) }), rt_mid.validated@.is_some(),
                *state == (State { early_terminations: state.early_terminations, ..*old(state) }),
                old(state).early_terminations@.subset_of(state.early_terminations@),
                it.seq().len() == old(to_process).keys().len(), forall|i: int| 0 <= i < it.seq().len() ==> (#[trigger] it.seq()[i]).0 == old(to_process).keys()[i],
                forall|i: int| 0 <= i < it.index@ ==> state.early_terminations@.contains(#[trigger] old(to_process).keys()[i]),
//@ after "let mut power_delta"
            let ghost rt_mid = *rt;
//@ end

// ======================= (1b) PreCommitSectorBatch2: the whole method =======================
//@ item actors/miner/src/types.rs CronEventPayload
pub type CronEvent = i64;
//@ const actors/miner/src/types.rs CRON_EVENT_PROVING_DEADLINE
pub open spec fn is_cron_enrol(s: SendRec) -> bool { s.to == STORAGE_POWER_ACTOR_ADDR && s.method == ext::power::ENROLL_CRON_EVENT_METHOD }
// (contract as in units/C05/miner_cron.vx.rs)
//@ fn actors/miner/src/lib.rs enroll_cron_event
    requires !old(rt).in_tx@,
    ensures
        rt_frame(old(rt), final(rt)), old(rt).sends@.len() <= final(rt).sends@.len() <= old(rt).sends@.len() + 1,
        forall|i: int| 0 <= i < old(rt).sends@.len() ==> final(rt).sends@[i] == old(rt).sends@[i],
        r.is_ok() ==> rt_pushed(old(rt), final(rt)) && is_cron_enrol(final(rt).sends@.last()) && final(rt).sends@.last().ok && final(rt).sends@.last().value == 0,
//@ end

//@ fn actors/miner/src/lib.rs Actor::pre_commit_sector_batch_inner free tx0="State;pc_tx0;&mut __vx_st, rt, sectors, curr_epoch, &reward_stats, &power_total, &verify_return, &sector_numbers, &mut fee_to_burn, &mut needs_cron" sub0="ext :: market :: SectorDeals=>SectorDeals" sub1="max_prove_commit_duration (rt . policy () , precommit . seal_proof) . unwrap_or_default ()=>vx_unwrap_or_default_epoch(max_prove_commit_duration (rt . policy () , precommit . seal_proof))"
    requires
        !old(rt).in_tx@,
        // explicit assumptions: the three read-only queries (reward ThisEpochReward, power CurrentTotalPower, market VerifyDealsForActivation) do not call back into this miner
        rt_no_reentry(REWARD_ACTOR_ADDR, ext::reward::THIS_EPOCH_REWARD_METHOD),
        rt_no_reentry(STORAGE_POWER_ACTOR_ADDR, CURRENT_TOTAL_POWER_METHOD_VX),
        rt_no_reentry(STORAGE_MARKET_ACTOR_ADDR, VERIFY_DEALS_FOR_ACTIVATION_METHOD_VX),
        // epochs and policy durations are of chain magnitude (no i64 overflow)
        small_epoch(old(rt).epoch as int), small_epoch(rt_policy().expired_pre_commit_clean_up_delay as int), small_epoch(rt_policy().max_pre_commit_randomness_lookback as int),
        forall|p: RegisteredSealProof| (#[trigger] mpcd_spec(rt_policy(), p)).is_some() ==> small_epoch(mpcd_spec(rt_policy(), p)->Some_0 as int),
    ensures
        r.is_ok() ==> final(rt).tx_log@.len() == old(rt).tx_log@.len() + 1 && ({
            let s0 = rt_state::<State>(old(rt).state_id@);
            let s1 = rt_state::<State>(final(rt).tx_log@.last());
            let n = sectors@.len() as int;
            let m1 = pcmap(s1);
            let s = final(rt).sends@;
            // one record per requested sector, none overwritten; the deposit total grew by exactly the deposits of those records
            &&& n > 0
            &&& (forall|i: int| 0 <= i < n ==> !pcmap(s0).dom().contains((#[trigger] sectors@[i]).sector_number) && m1.dom().contains(sectors@[i].sector_number))
            &&& s1.pre_commit_deposits@ == s0.pre_commit_deposits@ + sum_stored(m1, inner_nums(sectors@), n)
            // the deposit was affordable on top of the fee debt
            &&& unlocked(s0, old(rt).balance@) - s0.fee_debt@ >= sum_stored(m1, inner_nums(sectors@), n)
            // the whole fee debt is repaid: cleared in the state and burnt in this call
            &&& s1.fee_debt@ == 0
            &&& (s0.fee_debt@ > 0 ==> exists|k: int| old(rt).sends@.len() <= k < s.len() && is_burn(#[trigger] s[k]) && s[k].ok && s[k].value == s0.fee_debt@)
            // after the burn the miner still covers deposits, vesting funds and pledge
            &&& st_solvent(s1, old(rt).balance@ - s0.fee_debt@)
            &&& s1.locked_funds == s0.locked_funds && s1.initial_pledge == s0.initial_pledge
        }),
        // "nothing is recorded when the call fails" before or inside the transaction: without a committed transaction the state is the one on entry
        final(rt).tx_log@.len() == old(rt).tx_log@.len() ==> final(rt).state_id == old(rt).state_id,
        final(rt).tx_log@.len() <= old(rt).tx_log@.len() + 1,
//@ loop 0 iter=it
        invariant
            *rt == *old(rt), small_epoch(curr_epoch as int), curr_epoch == old(rt).epoch,
            forall|p: RegisteredSealProof| (#[trigger] mpcd_spec(rt_policy(), p)).is_some() ==> small_epoch(mpcd_spec(rt_policy(), p)->Some_0 as int),
//@ after "let mut needs_cron = false"
        let ghost kb = rt.sends@.len() as int;
//@ before "let state : State = rt . state ()"
        proof { if fee_to_burn@ > 0 { assert(is_burn(rt.sends@[kb])); } }
//@ end

} // verus!
fn main() {}
