// unit: miner State::allocate_sector_numbers — a sector number is allocated at most once in a miner's lifetime (C04)
//@ include prelude/core.rs
//@ include prelude/ipld.rs
//@ include prelude/bitfield.rs
//@ include prelude/rt.rs
//@ include prelude/cbor.rs
verus! {
//@ item actors/miner/src/policy.rs VestSpec
}
//@ include prelude/miner_vesting.rs
use std::cmp;
verus! {

//@ include units/shared/miner_funds.inc
//@ item actors/miner/src/state.rs CollisionPolicy attr="#[derive(PartialEq, Eq, Structural)]"
impl CborVal for BitField { type Base = BitField; open spec fn base(&self) -> BitField { *self } }

pub open spec fn allocated(s: State) -> Option<BitField> { cbor_decode::<BitField>(s.allocated_sectors) }

//@ fn actors/miner/src/state.rs State::allocate_sector_numbers
    ensures
        r.is_ok() ==> allocated(*old(self)).is_some() && allocated(*final(self)).is_some() && ({
            let a0 = allocated(*old(self))->Some_0@;
            let a1 = allocated(*final(self))->Some_0@;
            // under DenyCollisions a number that was ever allocated is refused: "allocated at most once"
            &&& (policy is DenyCollisions ==> a0.intersect(sector_numbers@) =~= vstd::set::Set::<u64>::empty())
            // the allocated set only grows, by exactly the request: nothing is ever un-allocated
            &&& a1 =~= a0.union(sector_numbers@)
        }),
        r.is_err() ==> *final(self) == *old(self),
        // nothing but the allocation bitfield changes
        st_rest_eq_but_alloc(*old(self), *final(self)),
//@ end
pub open spec fn st_rest_eq_but_alloc(a: State, b: State) -> bool {
    &&& a.info == b.info && a.pre_commit_deposits == b.pre_commit_deposits && a.locked_funds == b.locked_funds
    &&& a.vesting_funds == b.vesting_funds && a.fee_debt == b.fee_debt && a.initial_pledge == b.initial_pledge
    &&& a.pre_committed_sectors == b.pre_committed_sectors && a.pre_committed_sectors_cleanup == b.pre_committed_sectors_cleanup
    &&& a.sectors == b.sectors && a.proving_period_start == b.proving_period_start && a.current_deadline == b.current_deadline
    &&& a.deadlines == b.deadlines && a.early_terminations == b.early_terminations && a.deadline_cron_active == b.deadline_cron_active
}

} // verus!
fn main() {}
